"""C20 — stream filters keep streams well-formed and touch only what they select.

Oracle on the real code (independent of the Lean model): nesting check of every chain
output, select-only = identity, remove = input minus the selected nodes (tree walk with an
own evaluator of the generated paths), copy buffer = Path.select, the documented effect of
each operation on the selected nodes (tree level), the form-filler clauses on generated
forms, nesting in -> out for the sanitizer / translator / serializer-internal filters.

Correspondence: the same chains through the Lean model (`gdrv C20 chain`), which receives
the per-event results the real `Path.test()` returned (the XPath model belongs to C05/C17),
compared on the *marked* output stream and the buffers; the form filler through
`gdrv C20 fill`.
"""
import json, random
from harness import proto, gen_tf as G
from harness.framework import Result, pmap
from harness.proto import Atom, B, N

PROP = 'C20'
TRUSTED = [
    'modelled, not verified: genshi/filters/transform.py (every *Transformation, PushBackStream, _mark/_unmark, StreamBuffer), '
    'genshi/filters/html.py HTMLFormFiller (hand-written Lean models tied by correspondence on the marked output stream)',
    'not modelled here: genshi/path.py — SelectTransformation is modelled as a function of the per-event results of Path.test(), '
    'which the harness records from the real code and sends along (the XPath model and its theorems are C05/C17); '
    'the oracle uses its own tree evaluator for the generated path subset',
    'models owned by other properties (tied there), well-nestedness stated in Props/C20.lean, nesting in -> out checked by the '
    'oracle on the real code: HTMLSanitizer (C06), Translator (C19), EmptyTagFilter / WhitespaceFilter / NamespaceFlattener '
    '(full on the total model of C02; partial on the chain model of C08) / DocTypeInserter (C09/C08/C02)',
    'the push formulation of the pulled generator pipeline (Model/TfLazy.lean pushItem: an item yielded by link k is processed '
    'by link k+1 before k continues); the stage-wise composition (lazy_agrees_stagewise) and the link-by-link trace semantics '
    '(lazy_trace_semantics) are theorems about it, and the driver compares all three on every generated chain',
    'callable injector content is driven with callables returning a constant; stateful callables, Elements containing a '
    'StreamBuffer, map(f, kind) for kinds other than TEXT/None are not modelled (notes/C20.md, audit table)',
]
ASSUMPTIONS = [
    'input streams are well nested; content injected by replace/before/after/prepend/append is well nested',
    'documented precondition: after invert() a new select() comes before remove/replace/wrap/cut/filter '
    '(the complement of a selection cuts through elements; witness theorem invert_wrap_breaks_nesting)',
    'form filler: option and textarea elements contain only text (known finding C20-option-children), '
    'None is not given for a textarea (known finding C20-textarea-none)',
    'structural operations other than remove/cut/copy on attribute selections are outside the oracle '
    '(known finding C20-attr-structural)',
]


# --------------------------------------------------------------------------
# running the real code

def _content(c, bufs):
    from genshi.core import Stream
    if c[0] == 's':
        return c[1]
    if c[0] == 'ev':
        return Stream(G.to_genshi(G.flatten(c[1])))
    if c[0] == 'buf':
        return bufs[c[1]]
    if c[0] == 'fn':
        # a callable: InjectorTransformation._inject() calls it at every injection.  It returns the same
        # content at every call (a callable with state, i.e. different content per call, is not modelled)
        inner = _content(c[1], bufs)
        return lambda: inner
    if c[0] == 'el':
        # a builder Element (itself callable: _inject() calls it without arguments and gets the element back)
        from genshi.builder import Element
        return Element(c[1])(Stream(G.to_genshi(G.flatten(c[2]))))
    raise ValueError(c)


def _attrfn(src):
    """the callable of an `attrfn` operation: value(name, event) (see gen_tf.attrfn_value)"""
    if isinstance(src, str):
        return lambda name_, ev: ev[1][1].get(src)
    if src[0] == 'tag':
        return lambda name_, ev: ev[1][0].localname
    if src[0] == 'const':
        return lambda name_, ev: src[1]
    if src[0] == 'name':
        return lambda name_, ev: name_
    if src[0] == 'count':
        return lambda name_, ev: str(len(ev[1][1]))
    raise ValueError(src)


def _dropc(stream):
    from genshi.core import COMMENT
    for ev in stream:
        if ev[0] is not COMMENT:
            yield ev


def _bang(d):
    from genshi.core import QName
    return d + '!' if isinstance(d, str) and not isinstance(d, QName) else d


def _ident(stream):
    return stream


MAPTEXT = {'rev': lambda d: d[::-1], 'dup': lambda d: d + d}


def _user_bang(stream):
    """a user-written transformation for Transformer.apply(function), after the example in its docstring: a
    generator over the MARKED stream that changes the selected TEXT events (model: the same as map(_bang, TEXT))"""
    from genshi.core import TEXT
    for mark, (kind, data, pos) in stream:
        if mark and kind is TEXT:
            yield mark, (kind, data + '!', pos)
        else:
            yield mark, (kind, data, pos)


USERFN = {'bang': _user_bang}


def rec_path_class(rec, cur=None):
    """a Path subclass that records, per select link (keyed by its index in the chain), the list of
    Path.test() results into `rec`.
    `cur` (derivation trees): a one-element list holding the position, in the chain being run, of the
    select link whose generator is starting (set by `PosLink`); the record is then keyed by that position
    instead of the index given at construction -- the same SelectTransformation object sits in the chains
    of several transformer objects, and after apply(Transformer) several times in one chain."""
    from genshi.path import Path

    class RecPath(Path):
        idx = None

        def test(self, ignore_context=False):
            # generators start lazily (the last link first): key the record by the op index
            inner = Path.test(self, ignore_context)
            if cur is None:
                key = self.idx
            else:
                key, cur[0] = cur[0], None
                if key is None:
                    key = 'stray'       # a call of Path.test() that no select link of the chain made
            mine = rec.setdefault(key, [])
            del mine[:]

            def _t(event, namespaces, variables, updateonly=False):
                try:
                    r = inner(event, namespaces, variables, updateonly=updateonly)
                except Exception:
                    # path.py itself fails (its stack runs empty on an ill-nested stream): recorded
                    # as a fact about this select, the model answers `err` for it
                    rec[('raised', key)] = True
                    raise
                if not updateonly:
                    mine.append((event, r))
                return r
            return _t

    return RecPath


def apply_op(t, i, op, bufs, RecPath):
    """the Transformer derived from `t` (None: a fresh one) by operation `op`, the i-th link"""
    from genshi.filters.transform import Transformer, StreamBuffer
    from genshi.core import TEXT
    from genshi.builder import Element

    def buf(k):
        if k not in bufs:
            bufs[k] = StreamBuffer()
        return bufs[k]

    name = op[0]
    if name == 'select':
        if RecPath is None:
            p = G.path_str(op[1])           # the path as a string: SelectTransformation makes the Path itself
        else:
            p = RecPath(G.path_str(op[1]))  # ... or a Path instance (here: one that records)
            p.idx = i
        return Transformer(p) if t is None else t.select(p)
    if name == 'apply':
        fn = USERFN[op[1]]                  # a user-supplied callable on the marked stream (a new function
        return t.apply(lambda stream: fn(stream))       # object per derivation: links are told apart by identity)
    if name in ('replace', 'before', 'after', 'prepend', 'append'):
        return getattr(t, name)(_content(op[1], bufs))
    if name == 'wrap':
        if op[2]:
            return t.wrap(Element(op[1], **dict((k, v) for k, v in op[2])))
        return t.wrap(op[1])
    if name == 'wrapel':
        from genshi.core import Stream as _S
        return t.wrap(Element(op[1], **dict((k, v) for k, v in op[2]))(_S(G.to_genshi(G.flatten(op[3])))))
    if name == 'attrfn':
        return t.attr(op[1], _attrfn(op[2]))
    if name == 'rename':
        return t.rename(op[1])
    if name == 'attr':
        return t.attr(op[1], op[2])
    if name == 'copy':
        return t.copy(buf(op[1]), accumulate=op[2])
    if name == 'cut':
        return t.cut(buf(op[1]), accumulate=op[2])
    if name == 'map':
        return t.map(_bang, TEXT if op[1] == 'T' else None)
    if name == 'substitute':
        return t.substitute(op[1], op[2], op[3])
    if name == 'filter':
        return t.filter(_dropc if op[1] == 'dropc' else _ident)
    if name == 'maptext':
        return t.map(MAPTEXT[op[1]], TEXT)
    if name == 'trace':
        import io
        log = io.StringIO()
        bufs.setdefault('trace', []).append(log)        # (not a StreamBuffer: skipped where buffers are listed)
        return t.trace('T ', fileobj=log)
    if name in ('remove', 'unwrap', 'empty', 'invert', 'end', 'buffer'):
        return getattr(t, name)()
    raise ValueError(op)


def build_chain(ops, rec, plain=False):
    """ops -> (Transformer, buffers). rec collects, per select, the list of Path.test() results
    (plain: nothing is recorded, the paths are handed over as strings)"""
    RecPath = None if plain else rec_path_class(rec)
    bufs = {}
    t = None
    for i, op in enumerate(ops):
        t = apply_op(t, i, op, bufs, RecPath)
    return t, bufs


class NoTermination(BaseException):
    pass


class Watchdog(object):
    """CPU-time limit for one run of the code under test (a filter that does not terminate is a
    failure of the property, not of the infrastructure)"""
    LIMIT = 4.0

    def _fire(self, *a):
        raise NoTermination()

    def __enter__(self):
        import signal, threading
        self.on = threading.current_thread() is threading.main_thread()
        if self.on:
            self.old = signal.signal(signal.SIGVTALRM, self._fire)
            signal.setitimer(signal.ITIMER_VIRTUAL, self.LIMIT)
        return self

    def __exit__(self, *a):
        import signal
        if self.on:
            signal.setitimer(signal.ITIMER_VIRTUAL, 0)
            signal.signal(signal.SIGVTALRM, self.old)
        return False


def jmark(m):
    return None if m is None else str(m)


def run_real(doc, ops, plain=False):
    """-> dict(status 'ok'|'err', marked [[mark, event]...], err, bufs {id: events}, rec [[result...]...])"""
    rec = {}
    t, bufs = build_chain(ops, rec, plain)       # a malformed case raises here: not an outcome of the code under test
    return run_transformer(doc, t, bufs, rec)


def run_transformer(doc, t, bufs, rec):
    out = {'status': 'ok', 'marked': [], 'err': None, 'bufs': {}, 'rec': rec, 'plain': None}
    events = G.to_genshi(G.flatten(doc))
    raw = []
    try:
        with Watchdog():
            for mark, ev in t(events, keep_marks=True):
                raw.append((mark, ev))
                out['marked'].append([jmark(mark), G.from_genshi_event(ev)])
            # the output without marks: the real Transformer._unmark on the marked output
            out['plain'] = G.from_genshi(list(t._unmark(iter(raw))))
    except Exception as e:  # noqa
        out['status'] = 'err'
        out['err'] = type(e).__name__
    except NoTermination:
        out['status'] = 'err'
        out['err'] = 'NoTermination'
        out['marked'] = out['marked'][:50]
        for i, b in bufs.items():
            if i != 'trace':
                b.reset()                 # may hold millions of events
    for i, b in sorted((i, b) for i, b in bufs.items() if i != 'trace'):
        out['bufs'][i] = G.from_genshi(list(b))
    out['trace'] = [len(log.getvalue().splitlines()) for log in bufs.get('trace', [])]
    if out['status'] == 'ok' and 'trace' not in bufs and len(raw) % 3 == 0:
        # one run in three: Transformer.__call__(stream) as users call it (keep_marks=False), a second run
        # of the same object; the records of the first run are kept
        keep = dict((k, list(v) if isinstance(v, list) else v) for k, v in rec.items())
        for b in bufs.values():
            b.reset()                     # "care must be taken ... that buffers are cleared between transforms"
        try:
            with Watchdog():
                out['plain'] = G.from_genshi(list(t(events)))
            out['plain-by'] = 'call'
        except Exception as e:  # noqa
            out['plain'] = 'err: ' + type(e).__name__
        except NoTermination:
            out['plain'] = 'err: NoTermination'
        rec.clear()
        rec.update(keep)
    return out


OPCLASS = {'select': 'SelectTransformation', 'remove': 'RemoveTransformation', 'unwrap': 'UnwrapTransformation',
           'empty': 'EmptyTransformation', 'invert': 'InvertTransformation', 'end': 'EndTransformation',
           'buffer': 'BufferTransformation', 'wrap': 'WrapTransformation', 'wrapel': 'WrapTransformation',
           'replace': 'ReplaceTransformation', 'before': 'BeforeTransformation', 'after': 'AfterTransformation',
           'prepend': 'PrependTransformation', 'append': 'AppendTransformation', 'rename': 'RenameTransformation',
           'attr': 'AttrTransformation', 'attrfn': 'AttrTransformation', 'copy': 'CopyTransformation',
           'cut': 'CutTransformation', 'map': 'MapTransformation', 'substitute': 'SubstituteTransformation',
           'filter': 'FilterTransformation', 'trace': 'TraceTransformation', 'maptext': 'MapTransformation',
           'apply': 'function'}


class PosLink(object):
    """stands, for ONE run, for the select link at position `i` of the chain being run.  A pass-through:
    when its generator starts it notes the position, then the link's own generator starts, whose first
    action is `self.path.test()` (RecPath.test reads the position) -- before it pulls from upstream."""

    def __init__(self, link, i, cur):
        self.link, self.i, self.cur = link, i, cur

    def __call__(self, stream):
        self.cur[0] = self.i
        for item in self.link(stream):
            yield item


def run_tree(case):
    """build the transformer objects of a derivation tree on the real code (derived from each other,
    sharing prefixes), record after every derivation the links of ALL objects built so far, then
    apply the objects named in case['apply'].
    -> (history: [[[link labels] per object] per derivation], runs: [(node, ops, real)])
    A link is labelled `<n>:<class name>`, n = the index of the transformer object in whose chain the link
    OBJECT was seen first (0: the root): an operation method makes exactly one new link, apply(Transformer)
    none -- the derived chain holds the link objects of its origin and of its argument."""
    from genshi.filters.transform import SelectTransformation
    rec = {}
    cur = [None]
    RecPath = rec_path_class(rec, cur)
    bufs = {}
    chains = G.tree_chains(case)
    nodes = [apply_op(None, 0, chains[0][0], bufs, RecPath)]
    labels, keep = {}, []

    def label(link, n):
        if id(link) not in labels:
            labels[id(link)] = '%d:%s' % (n, type(link).__name__)
            keep.append(link)                 # keeps id() unique
        return labels[id(link)]

    for l in nodes[0].transforms:
        label(l, 0)
    history = []
    for k, (parent, op) in enumerate(case['derive']):
        if op[0] == 'cat':
            nodes.append(nodes[parent].apply(nodes[op[1]]))
        else:
            nodes.append(apply_op(nodes[parent], len(chains[parent]), op, bufs, RecPath))
        history.append([[label(l, k + 1) for l in t.transforms] for t in nodes])
    runs = []
    for k in case['apply']:
        for i, b in bufs.items():
            if i != 'trace':
                b.reset()
        for log in bufs.get('trace', []):
            log.seek(0)
            log.truncate()
        rec.clear()
        # for this run every select link of the object's chain is stood for by a pass-through that tells
        # RecPath its position in THIS chain (in place: the object and its list stay the ones under test)
        t = nodes[k]
        saved = t.transforms[:]
        t.transforms[:] = [PosLink(l, i, cur) if isinstance(l, SelectTransformation) else l
                           for i, l in enumerate(saved)]
        cur[0] = None
        try:
            real = run_transformer(case['doc'], t, bufs, rec)
        finally:
            t.transforms[:] = saved
        real['rec'] = dict((i, list(v) if isinstance(v, list) else v) for i, v in rec.items())
        real['bufs'] = dict((i, b) for i, b in real['bufs'].items() if any(o[0] in ('copy', 'cut') and o[1] == i
                                                                          for o in chains[k]))
        runs.append((k, chains[k], real))
    return history, runs


def same_outcome(a, b):
    if a['status'] != b['status']:
        return False
    if a['status'] != 'ok':
        return a['err'] == b['err']
    return a['marked'] == b['marked'] and a['bufs'] == b['bufs']


def oracle_tree(case, tree=None):
    """every transformer object behaves like the same chain built from a fresh Transformer(path),
    whatever was derived from it or from its origin before; and the clauses of the property hold
    for the object as it is (a transformer that only selects is the identity, ...)"""
    history, runs = tree if tree is not None else run_tree(case)
    for k, ops, real in runs:
        # (the fresh chain is given its paths as strings, the objects of the tree as Path instances)
        fresh = run_real(case['doc'], ops, plain=True)
        if not same_outcome(real, fresh):
            what = 'a transformer that only selects is the identity' if len(ops) == 1 else \
                'a transformer changes only what its own operations select'
            return fail(case, what + ' (transformer %d of the derivation tree, used after other transformers were '
                        'derived from it or its origin, vs. the same chain built fresh)' % k,
                        _short([fresh['status'], fresh['err'], unmark(fresh['marked']), sorted(fresh['bufs'].items())]),
                        _short([real['status'], real['err'], unmark(real['marked']), sorted(real['bufs'].items())]))
        f = oracle_chain({'kind': 'chain', 'doc': case['doc'], 'ops': ops}, real)
        if f:
            f['case'] = case
            return f
    return None


def unmark(marked):
    return [e for _, e in marked if e[0] not in ('AT', 'BR')]


def jres(event, r):
    """a Path.test() result in JSON: null | true | ["A", attrs] | ["E", event] | ["X", text]"""
    from genshi.core import Attrs
    if r is True:
        return True
    if isinstance(r, Attrs):
        return ['A', [[G.jq(a), str(v)] for a, v in r]]
    if isinstance(r, tuple):
        if r is event or tuple(r) == tuple(event):
            return 'SELF'
        return ['E', G.from_genshi_event(r)]
    if r:
        return ['X', str(r)]
    return None


# --------------------------------------------------------------------------
# oracle: transformer

def fail(case, what, expected, observed):
    return {'case': case, 'what': what, 'expected': expected, 'observed': observed}


def _short(x):
    s = json.dumps(x, ensure_ascii=True)
    return s if len(s) < 1500 else s[:1500] + '...'


def oracle_chain(case, real=None):
    """the property clauses on the real code for one chain case; returns a failure or None"""
    doc, ops = case['doc'], case['ops']
    if real is None:
        real = run_real(doc, ops)
    inp = G.flatten(doc)
    adm = G.admissible(ops)
    if real['status'] != 'ok':
        if adm:
            return fail(case, 'the transformer maps a well-nested stream to a stream (no exception)', 'a stream', real['err'])
        return None
    out = real.get('plain')
    if out is None:
        out = unmark(real['marked'])
    elif isinstance(out, str):
        # the second run of the same object (called without keep_marks) failed, the first did not
        if not adm:
            return None
        return fail(case, 'the transformer maps a well-nested stream to a stream (no exception), every time it is applied',
                    _short(unmark(real['marked'])), out)
    if adm and not G.nested_ok(out):
        return fail(case, 'chain output is well nested', 'well nested', _short(out))
    names = [o[0] for o in ops]
    if names == ['select']:
        if out != inp:
            return fail(case, 'a transformer that only selects is the identity', _short(inp), _short(out))
        return None
    if all(n == 'select' for n in names):
        if out != inp:
            return fail(case, 'selections only: identity', _short(inp), _short(out))
        return None
    if names == ['select', 'trace'] and real.get('trace') is not None and \
            [n for n in real['trace'] if n] != [len(real['marked'])][:len(real['marked'])]:
        return fail(case, 'trace prints one line per item it passes on', [len(real['marked'])], real.get('trace'))
    if len(ops) == 2 and names[0] == 'select' and names[1] not in ('select', 'invert', 'end', 'buffer', 'map',
                                                                      'substitute', 'filter', 'apply'):
        if 'text' in ops[0][1] or not G.plain_doc(doc):
            # a path of the shared grammar, or a document with namespace / DOCTYPE / CDATA events: XPath
            # semantics is C05/C17's; the selection is what the transformer that ONLY selects marks (a
            # with/without comparison on the real code: select-only, then select + operation)
            only = run_real(doc, [ops[0]])
            if only['status'] != 'ok':
                return None
            ev = G.selection_from_marks(doc, only['marked'])
            if ev is None:
                return fail(case, 'a transformer that only selects is the identity', _short(inp),
                            _short(unmark(only['marked'])))
            by_marks = True
        else:
            if len(doc) != 1:
                # a prolog node in front of the root element shifts the context of SimplePathStrategy
                # (it pushes a stack entry for a non-START event): path semantics there is C05/C17's
                return None
            ev = G.evaluate(doc, ops[0][1])
            by_marks = False
        sel, selattrs = ev
        op = ops[1]
        if op[0] in INJ and op[1][0] == 'buf':
            return None
        exp = G.spec_apply(doc, sel, selattrs, op)
        if exp is None:
            return None
        if op[0] in ('remove', 'copy', 'cut', 'empty', 'unwrap', 'rename', 'attr', 'attrfn', 'trace', 'maptext'):
            if out != exp:
                return fail(case, WHAT[op[0]], _short(exp), _short(out))
        else:
            if G.coalesce(out) != G.coalesce(exp):
                return fail(case, WHAT[op[0]], _short(G.coalesce(exp)), _short(G.coalesce(out)))
        if op[0] in ('copy', 'cut') and op[2]:
            # accumulate: the buffer receives exactly what selection returns
            want = G.spec_select(doc, sel, selattrs)
            got = []
            for e in real['bufs'].get(op[1], []):
                if e[0] == 'AT':
                    got.append(['T', ''.join(v for _, v in e[2]), False])
                else:
                    got.append(e)
            if got != want:
                return fail(case, 'the buffer receives exactly what selection returns', _short(want), _short(got))
            if by_marks:
                return None
            # and Path.select on the real code agrees with the tree evaluator
            from genshi.path import Path
            from genshi.core import Stream, _ensure
            sel_real = G.from_genshi(list(_ensure(Path(G.path_str(ops[0][1])).select(Stream(G.to_genshi(inp))))))
            if sel_real != want:
                return fail(case, 'Stream.select returns the selected nodes', _short(want), _short(sel_real))
    return None


INJ = ('replace', 'before', 'after', 'prepend', 'append')
WHAT = {
    'remove': 'removal deletes exactly the selected nodes',
    'cut': 'cut deletes exactly the selected nodes',
    'copy': 'copy leaves the stream unchanged',
    'trace': 'trace leaves the stream unchanged',
    'maptext': 'map(function, TEXT) changes exactly the selected text',
    'empty': 'empty removes the content of the selected elements only',
    'unwrap': 'unwrap removes exactly the START/END of the selected elements',
    'rename': 'rename changes exactly the tag of the selected elements',
    'attr': 'attr sets/deletes the attribute on exactly the selected elements',
    'wrap': 'wrap encloses exactly each selection in the wrapper element',
    'wrapel': 'wrap with an Element encloses exactly each selection in the wrapper (its children first)',
    'attrfn': 'attr with a callable sets/deletes the attribute on exactly the selected elements',
    'replace': 'replace substitutes the content for exactly each selection',
    'before': 'before inserts the content in front of each selection and changes nothing else',
    'after': 'after inserts the content behind each selection and changes nothing else',
    'prepend': 'prepend inserts the content after the START of each selected element only',
    'append': 'append inserts the content before the END of each selected element only',
}


# --------------------------------------------------------------------------
# oracle: form filler

def pyval(v):
    """JSON data value -> python (lists stay lists)"""
    return v


def run_filler(case):
    from genshi.filters.html import HTMLFormFiller
    data = dict((k, pyval(v)) for k, v in case['data'])
    f = HTMLFormFiller(name=case.get('name'), id=case.get('id'), data=data, passwords=case.get('passwords', False))
    try:
        return 'ok', G.from_genshi(list(f(G.to_genshi(G.flatten(case['doc'])))))
    except Exception as e:  # noqa
        return 'err', type(e).__name__


def aget(node, name):
    for a, v in node[2]:
        if a == ['', name]:
            return v
    return None


def text_of(node):
    return ''.join(k[1] for k in node[3] if k[0] == 't')


def strs(v):
    return [str(x) for x in v]


def oracle_form(case):
    st, out = run_filler(case)
    if st != 'ok':
        return fail(case, 'the form filler maps a well-nested stream to a stream (no exception)', 'a stream', out)
    inp = G.flatten(case['doc'])
    data = dict((k, v) for k, v in case['data'])
    if not G.nested_ok(out):
        return fail(case, 'form filler output is well nested', 'well nested', _short(out))
    if not data and out != inp:
        return fail(case, 'the form filler is the identity for empty data', _short(inp), _short(out))
    tree = G.to_tree(out)
    passwords = case.get('passwords', False)
    fname, fid = case.get('name'), case.get('id')
    bad = []

    def same_but(a, b, allowed):
        """attribute lists equal up to the named attributes (order of the others kept)"""
        fa = [[k, v] for k, v in a if k[1] not in allowed or k[0]]
        fb = [[k, v] for k, v in b if k[1] not in allowed or k[0]]
        return fa == fb

    def walk(ins, outs, in_form, sel):
        """compare the input forest with the output forest node by node.
        sel = the data value governing the enclosing <select>, or a marker for none"""
        if len(ins) != len(outs):
            bad.append(('nothing but value/checked/selected attributes and textarea content changes (child count)',
                        _short(ins), _short(outs)))
            return
        for a, b in zip(ins, outs):
            if a[0] != 'e' or b[0] != 'e':
                if a != b:
                    bad.append(('nothing but value/checked/selected attributes and textarea content changes', _short(a), _short(b)))
                continue
            if a[1] != b[1]:
                bad.append(('element names are unchanged', _short(a[1]), _short(b[1])))
                continue
            tag = a[1][1]
            name = aget(a, 'name')
            form_here = in_form
            if tag == 'form' and not in_form:
                if (fname and aget(a, 'name') == fname) or (fid and aget(a, 'id') == fid) or not (fname or fid):
                    form_here = True
                if a[2] != b[2]:
                    bad.append(('form element unchanged', _short(a[2]), _short(b[2])))
                walk(a[3], b[3], form_here, sel)
                continue
            if not in_form:
                if a[2] != b[2]:
                    bad.append(('controls outside the selected form are unchanged', _short(a), _short(b)))
                walk(a[3], b[3], in_form, sel)
                continue
            if tag == 'input':
                typ = (aget(a, 'type') or '').lower()
                named = bool(name) and name in data
                if typ in ('checkbox', 'radio'):
                    if not named:
                        if a[2] != b[2]:
                            bad.append(('a control not named in the data is unchanged', _short(a), _short(b)))
                    else:
                        if not same_but(a[2], b[2], ['checked']):
                            bad.append(('only the checked attribute of a named checkbox/radio changes', _short(a[2]), _short(b[2])))
                        v = data[name]
                        decl = aget(a, 'value')
                        if isinstance(v, list):
                            want = (decl in strs(v)) if decl is not None else any(v)
                        elif decl is not None:
                            want = decl == str(v)
                        else:
                            want = bool(v) if typ == 'checkbox' else False
                        got = aget(b, 'checked') is not None
                        if want != got:
                            bad.append(('checkbox/radio %r is checked iff the data says so' % name, want, _short(b[2])))
                elif typ in ('', 'hidden', 'text', 'password'):
                    v = data.get(name) if named else None
                    if isinstance(v, list):
                        v = v[0] if v else None
                    if typ == 'password' and not passwords:
                        if a[2] != b[2]:
                            bad.append(('passwords are never filled unless asked', _short(a[2]), _short(b[2])))
                    elif not named or v is None:
                        if a[2] != b[2]:
                            bad.append(('a control without a value in the data is unchanged', _short(a[2]), _short(b[2])))
                    else:
                        if not same_but(a[2], b[2], ['value']):
                            bad.append(('only the value attribute of a named input changes', _short(a[2]), _short(b[2])))
                        if aget(b, 'value') != str(v):
                            bad.append(('input %r is filled with the given value' % name, str(v), _short(b[2])))
                else:
                    if a[2] != b[2]:
                        bad.append(('other input types are unchanged', _short(a[2]), _short(b[2])))
                walk(a[3], b[3], in_form, sel)
            elif tag == 'select':
                if a[2] != b[2]:
                    bad.append(('select element itself unchanged', _short(a[2]), _short(b[2])))
                walk(a[3], b[3], in_form, (data[name],) if name in data else sel)
            elif tag == 'option' and sel is not None:
                if not same_but(a[2], b[2], ['selected']):
                    bad.append(('only the selected attribute of an option changes', _short(a[2]), _short(b[2])))
                ov = aget(a, 'value')
                if ov is None:
                    ov = text_of(a)
                v = sel[0]
                want = (ov in strs(v)) if isinstance(v, list) else ov == str(v)
                got = aget(b, 'selected') is not None
                if want != got:
                    bad.append(('option %r is selected iff the data says so' % ov, want, _short(b[2])))
                if G.coalesce(G.flatten(a[3])) != G.coalesce(G.flatten(b[3])):
                    bad.append(('option content unchanged', _short(a[3]), _short(b[3])))
            elif tag == 'textarea':
                if a[2] != b[2]:
                    bad.append(('textarea attributes unchanged', _short(a[2]), _short(b[2])))
                if name in data:
                    v = data[name]
                    if isinstance(v, list):
                        v = v[0] if v else None
                    if v is None:
                        want = text_of(a)     # nothing given: nothing to fill in
                    else:
                        want = str(v)
                    if text_of(b) != want or any(k[0] != 't' for k in b[3]):
                        bad.append(('textarea %r is filled with the given value' % name, want, _short(b[3])))
                else:
                    if a[3] != b[3]:
                        bad.append(('a textarea not named in the data is unchanged', _short(a[3]), _short(b[3])))
            else:
                if a[2] != b[2]:
                    bad.append(('other elements are unchanged', _short(a), _short(b)))
                walk(a[3], b[3], in_form, sel)

    walk(case['doc'], tree, False, None)
    if bad:
        w, e, o = bad[0]
        return fail(case, w, e, o)
    return None


# --------------------------------------------------------------------------
# oracle: the other built-in filters keep nesting (their theorems live in C06/C19/C09/C08/C02)

def oracle_other(case):
    from genshi.filters.html import HTMLSanitizer
    from genshi.filters.i18n import Translator
    from genshi.output import EmptyTagFilter, WhitespaceFilter, NamespaceFlattener, DocTypeInserter, DocType
    from genshi.core import Stream
    events = G.to_genshi(G.flatten(case['doc']))
    filters = {
        'sanitizer': lambda: HTMLSanitizer(),
        'translator': lambda: Translator(lambda s: s),
        'empty': lambda: EmptyTagFilter(),
        'whitespace': lambda: WhitespaceFilter(),
        'nsflat': lambda: NamespaceFlattener(),
        'doctype': lambda: DocTypeInserter(DocType.HTML),
    }
    f = case['filter']
    try:
        out = G.from_genshi(list(filters[f]()(Stream(events))))
    except Exception as e:  # noqa
        return fail(case, 'filter %s maps a well-nested stream to a stream' % f, 'a stream', type(e).__name__)
    flat = []
    for e in out:
        if e[0] == 'M':
            flat.append(['S', e[1], e[2]])
            flat.append(['E', e[1]])
        else:
            flat.append(e)
    if f == 'nsflat':
        # the flattener rewrites names to prefixed strings: the string written for an END must be the string
        # written for its START (theorem ns_flattener_wellnested) ...
        if not G.nested_ok(flat):
            return fail(case, 'filter nsflat keeps the stream well nested', 'well nested (flattened names)', _short(out))
        # ... and the shapes must nest
        flat = [[e[0], ['', '']] + e[2:] if e[0] in ('S', 'E') else e for e in flat]
        st = 0
        for e in flat:
            st += 1 if e[0] == 'S' else -1 if e[0] == 'E' else 0
            if st < 0:
                break
        if st != 0:
            return fail(case, 'filter nsflat keeps the stream well nested', 'well nested', _short(out))
        return None
    if not G.nested_ok(flat):
        return fail(case, 'filter %s keeps the stream well nested' % f, 'well nested', _short(out))
    return None


class Malformed(Exception):
    pass


def valid_forest(nodes):
    if not isinstance(nodes, list):
        return False
    for n in nodes:
        if not isinstance(n, list) or not n:
            return False
        k = n[0]
        if k == 'e':
            if len(n) != 4 or not (isinstance(n[1], list) and len(n[1]) == 2 and all(isinstance(x, str) for x in n[1])):
                return False
            if not n[1][1]:
                return False
            if not isinstance(n[2], list):
                return False
            for a in n[2]:
                if not (isinstance(a, list) and len(a) == 2 and isinstance(a[0], list) and len(a[0]) == 2
                        and all(isinstance(x, str) for x in a[0]) and a[0][1] and isinstance(a[1], str)):
                    return False
            if len(set(tuple(a[0]) for a in n[2])) != len(n[2]):
                return False
            if not valid_forest(n[3]):
                return False
        elif k == 't':
            if len(n) not in (2, 3) or not isinstance(n[1], str) or (len(n) == 3 and not isinstance(n[2], bool)):
                return False
        elif k == 'c':
            if len(n) != 2 or not isinstance(n[1], str):
                return False
        elif k == 'p':
            if len(n) != 3 or not isinstance(n[1], str) or not n[1] or not isinstance(n[2], str):
                return False
        elif k == 'ns':
            if len(n) != 3 or not isinstance(n[1], str) or not isinstance(n[2], str):
                return False
        elif k == 'ens':
            if len(n) != 2 or not isinstance(n[1], str):
                return False
        elif k == 'd':
            if len(n) != 4 or not isinstance(n[1], str) or not all(x is None or isinstance(x, str) for x in n[2:]):
                return False
        elif k in ('sc', 'ec'):
            if len(n) != 1:
                return False
        else:
            return False
    return True


def valid_path(p):
    try:
        if 'text' in p:
            return list(p) == ['text'] and isinstance(p['text'], str) and G.text_path_ok(p['text'])
        if not p['alts']:
            return False
        for alt in p['alts']:
            if alt['lead'] not in ('', '//', './/', '.'):
                return False
            if alt['lead'] == '.' and alt['steps']:
                return False
            if alt['lead'] != '.' and not alt['steps']:
                return False
            for st in alt['steps']:
                if st['sep'] not in ('/', '//') or not st['test'] or not isinstance(st['test'], str):
                    return False
                if st['test'] not in ('*', 'text()', 'comment()', 'node()') and not st['test'].isalnum():
                    return False
                for pr in st['preds']:
                    if pr[0] not in ('has', 'eq', 'pos') or len(pr) != (3 if pr[0] == 'eq' else 2):
                        return False
                    if pr[0] == 'pos' and not (isinstance(pr[1], int) and pr[1] >= 1):
                        return False
                    if pr[0] != 'pos' and not (isinstance(pr[1], str) and pr[1].isalnum()):
                        return False
            if alt.get('attr') is not None and not (alt['attr'] == '*' or (isinstance(alt['attr'], str) and alt['attr'].isalnum())):
                return False
        return True
    except (KeyError, TypeError, IndexError):
        return False


ARITY = {'apply': 2, 'trace': 1, 'maptext': 2, 'wrapel': 4, 'attrfn': 3, 'select': 2, 'remove': 1, 'unwrap': 1, 'empty': 1, 'invert': 1, 'end': 1, 'buffer': 1, 'wrap': 3,
         'replace': 2, 'before': 2, 'after': 2, 'prepend': 2, 'append': 2, 'rename': 2, 'attr': 3, 'copy': 3,
         'cut': 3, 'map': 2, 'substitute': 4, 'filter': 2}


def valid_case(case):
    """shape check: shrinking may produce cases that are not inputs of the property at all"""
    try:
        k = case.get('kind')
        if not valid_forest(case.get('doc')):
            return False
        if k in ('chain', 'chainx'):
            ops = case['ops']
            if not ops or ops[0][0] != 'select':
                return False
            for op in ops:
                if ARITY.get(op[0]) != len(op):
                    return False
                if op[0] == 'select' and not valid_path(op[1]):
                    return False
                if op[0] in INJ:
                    c = op[1]
                    if c[0] == 'fn' and len(c) == 2 and c[1][0] in ('s', 'ev'):
                        c = c[1]
                    if c[0] == 'el':
                        if not (len(c) == 3 and isinstance(c[1], str) and c[1].isalnum() and valid_forest(c[2])):
                            return False
                    elif c[0] == 's':
                        if not isinstance(c[1], str):
                            return False
                    elif c[0] == 'ev':
                        if not valid_forest(c[1]):
                            return False
                    elif c[0] == 'buf':
                        if not isinstance(c[1], int):
                            return False
                    else:
                        return False
                if op[0] == 'wrap' and not (isinstance(op[1], str) and op[1].isalnum() and
                                            all(isinstance(x, list) and len(x) == 2 and x[0].isalnum() for x in op[2])):
                    return False
                if op[0] == 'wrapel' and not (isinstance(op[1], str) and op[1].isalnum() and valid_forest(op[3]) and
                                              all(isinstance(x, list) and len(x) == 2 and x[0].isalnum() for x in op[2])):
                    return False
                if op[0] == 'attrfn' and not (isinstance(op[1], str) and op[1].isalnum() and
                                              (isinstance(op[2], str) and op[2].isalnum() or
                                               op[2] in (['tag'], ['name'], ['count']) or
                                               isinstance(op[2], list) and len(op[2]) == 2 and op[2][0] == 'const'
                                               and isinstance(op[2][1], str))):
                    return False
                if op[0] == 'rename' and not (isinstance(op[1], str) and op[1].isalnum()):
                    return False
                if op[0] == 'attr' and not (isinstance(op[1], str) and op[1].isalnum() and
                                            (op[2] is None or isinstance(op[2], str))):
                    return False
                if op[0] in ('copy', 'cut') and not (isinstance(op[1], int) and isinstance(op[2], bool)):
                    return False
                if op[0] == 'maptext' and op[1] not in MAPTEXT:
                    return False
                if op[0] == 'apply' and op[1] not in USERFN:
                    return False
                if op[0] == 'substitute' and not (isinstance(op[1], str) and op[1].isalnum() and
                                                  isinstance(op[2], str) and '\\' not in op[2] and isinstance(op[3], int)):
                    return False
            return True
        if k in ('form', 'formx'):
            for kv in case['data']:
                if len(kv) != 2 or not isinstance(kv[0], str) or not kv[0]:
                    return False
            return isinstance(case.get('passwords', False), bool)
        if k == 'other':
            return case.get('filter') in ('sanitizer', 'translator', 'empty', 'whitespace', 'nsflat', 'doctype')
        if k == 'tree':
            if not valid_path(case['root']):
                return False
            n = 1
            for d in case['derive']:
                if len(d) != 2 or not isinstance(d[0], int) or not 0 <= d[0] < n:
                    return False
                if d[1][0] == 'cat' and not (len(d[1]) == 2 and isinstance(d[1][1], int) and 0 <= d[1][1] < n):
                    return False
                n += 1
            if any(len(ops) > G.TREE_MAXLEN for ops in G.tree_chains(case)):
                return False
            if not all(isinstance(a, int) and 0 <= a < n for a in case['apply']) or not case['apply']:
                return False
            return all(valid_case({'kind': 'chain', 'doc': case['doc'], 'ops': ops}) and
                       all(o[0] != 'buffer' and not (o[0] in INJ and o[1][0] == 'buf') for o in ops)
                       for ops in G.tree_chains(case))
        return False
    except (KeyError, TypeError, IndexError, AttributeError):
        return False


_FINDING_INPUTS = None


def finding_inputs():
    """the canonical inputs of the recorded findings (they are outside the oracle's domain on purpose)"""
    global _FINDING_INPUTS
    if _FINDING_INPUTS is None:
        import os
        path = os.path.join(os.path.dirname(os.path.dirname(os.path.dirname(os.path.abspath(__file__)))), 'findings', 'C20.json')
        try:
            _FINDING_INPUTS = set(json.dumps(e['input'], sort_keys=True) for e in json.load(open(path)))
        except Exception:  # noqa
            _FINDING_INPUTS = set()
    return _FINDING_INPUTS


def in_domain(case):
    """inside the hypotheses of the oracle (what the generators keep): shrinking must not wander into the
    class of a recorded finding, whose inputs fail on the unchanged tree as well"""
    k = case.get('kind')
    if json.dumps(case, sort_keys=True) in finding_inputs():
        return True
    if k == 'chain':
        return G.chain_in_domain(case['ops'])
    if k == 'tree':
        return all(G.chain_in_domain(ops) for ops in G.tree_chains(case))
    if k == 'form':
        return G.form_in_domain(case)
    return True


def oracle_case(case):
    if not valid_case(case) or not in_domain(case):
        raise Malformed()
    k = case.get('kind')
    if k in ('chainx', 'formx'):
        return None          # correspondence-only cases: no clause of the property is claimed there
    if k == 'chain':
        return oracle_chain(case)
    if k == 'form':
        return oracle_form(case)
    if k == 'other':
        return oracle_other(case)
    if k == 'tree':
        return oracle_tree(case)
    raise ValueError(k)


# --------------------------------------------------------------------------
# correspondence with the Lean model

def w_qn(q):
    return [q[0], q[1]]


def w_attrs(a):
    return [[w_qn(k), v] for k, v in a]


def w_event(e):
    k = e[0]
    if k == 'S':
        return [Atom('S'), w_qn(e[1]), w_attrs(e[2])]
    if k == 'E':
        return [Atom('E'), w_qn(e[1])]
    if k == 'T':
        return [Atom('T'), e[1], B(e[2])]
    if k == 'C':
        return [Atom('C'), e[1]]
    if k == 'PI':
        return [Atom('PI'), e[1], e[2]]
    if k == 'AT':
        return [Atom('AT'), w_qn(e[1]), w_attrs(e[2])]
    if k == 'BR':
        return Atom('BR')
    if k == 'NS':
        return [Atom('NS'), e[1], e[2]]
    if k == 'ENS':
        return [Atom('ENS'), e[1]]
    if k == 'DT':
        return [Atom('DT'), e[1], N if e[2] is None else e[2], N if e[3] is None else e[3]]
    if k == 'SC':
        return Atom('SC')
    if k == 'EC':
        return Atom('EC')
    raise ValueError(e)


def u_event(v):
    """decoded wire value -> JSON event"""
    if isinstance(v, Atom):
        if v == 'BR':
            return ['BR']
        if v in ('SC', 'EC'):
            return [str(v)]
        raise ValueError(v)
    k = str(v[0])
    if k == 'S' or k == 'AT':
        return [k, list(v[1]), [[list(a), b] for a, b in v[2]]]
    if k == 'E':
        return ['E', list(v[1])]
    if k == 'T':
        return ['T', v[1], v[2] == 'T']
    if k == 'C':
        return ['C', v[1]]
    if k == 'PI':
        return ['PI', v[1], v[2]]
    if k == 'NS':
        return ['NS', v[1], v[2]]
    if k == 'ENS':
        return ['ENS', v[1]]
    if k == 'DT':
        return ['DT', v[1], None if v[2] == 'N' and isinstance(v[2], Atom) else v[2],
                None if v[3] == 'N' and isinstance(v[3], Atom) else v[3]]
    raise ValueError(v)


def w_res(r):
    if r is None:
        return N
    if r is True:
        return Atom('T')
    if r == 'SELF':
        return Atom('SELF')
    if r[0] == 'A':
        return [Atom('A'), w_attrs(r[1])]
    if r[0] == 'E':
        return [Atom('E'), w_event(r[1])]
    return [Atom('X'), r[1]]


def w_content(c):
    if c[0] == 's':
        return [Atom('STR'), c[1]]
    if c[0] == 'ev':
        return [Atom('ev'), [w_event(e) for e in G.flatten(c[1])]]
    if c[0] == 'fn':
        return w_content(c[1])        # a callable returning the same content at every call: that content
    if c[0] == 'el':
        return [Atom('ev'), [w_event(e) for e in G.content_events(c)]]     # a builder Element: its events
    return [Atom('buf'), c[1]]


def w_op(i, op, rec):
    n = op[0]
    if n == 'select':
        if rec.get(('raised', i)):
            return Atom('SELFAIL')
        return [Atom('SEL'), [w_res(jres(ev, r)) for ev, r in rec.get(i, [])]]
    if n in ('invert', 'end', 'empty', 'remove', 'unwrap', 'buffer', 'trace'):
        return Atom(n)
    if n == 'maptext':
        return [Atom('maptext'), Atom(op[1])]
    if n == 'wrap':
        return [Atom('wrap'), ['', op[1]], [[['', k], v] for k, v in op[2]]]
    if n == 'wrapel':
        return [Atom('wrapel'), ['', op[1]], [[['', k], v] for k, v in op[2]], [w_event(e) for e in G.flatten(op[3])]]
    if n == 'attrfn':
        if isinstance(op[2], str):
            return [Atom('attrfn'), ['', op[1]], op[2]]
        if op[2][0] == 'const':
            return [Atom('attrfn'), ['', op[1]], [Atom('const'), op[2][1]]]
        if op[2][0] == 'name':
            return [Atom('attrfn'), ['', op[1]], [Atom('const'), op[1]]]       # value(name, event) = name
        return [Atom('attrfn'), ['', op[1]], [Atom(op[2][0])]]
    if n in INJ:
        return [Atom(n), w_content(op[1])]
    if n == 'attr':
        return [Atom('attr'), ['', op[1]], N if op[2] is None else op[2]]
    if n == 'rename':
        return [Atom('rename'), ['', op[1]]]
    if n in ('copy', 'cut'):
        return [Atom(n), op[1], B(op[2])]
    if n == 'map':
        return [Atom('map'), B(op[1] == 'N')]
    if n == 'apply':
        return [Atom('map'), B(False)]          # the user-written generator `_user_bang` does what map(_bang, TEXT) does
    if n == 'substitute':
        return [Atom('SUBST'), op[1], op[2], op[3]]
    if n == 'filter':
        return [Atom('filter'), B(op[1] == 'dropc')]
    raise ValueError(op)


def chain_line(case, real):
    return proto.line(Atom('C20'), Atom('chain'), [w_event(e) for e in G.flatten(case['doc'])],
                      [w_op(i, op, real['rec']) for i, op in enumerate(case['ops'])])


def chain_real_answer(real):
    """the real outcome in the model's output vocabulary"""
    if real['status'] != 'ok':
        return 'err'
    # last item: the hypothesis `chainSelOk` of the theorems (the recorded Path.test() results are
    # results that function can return) must hold on the real code
    # ... and, for chains the stage-wise model answers, the lazy model must give the same
    return ['ok', [[m, e] for m, e in real['marked']], [[i, b] for i, b in sorted(real['bufs'].items())],
            real['plain'] if real.get('plain') is not None else unmark(real['marked']), True, True]


def chain_model_answer(ans):
    if ans in ('err', 'unmodelled', 'bad-op', 'bad-line'):
        return ans
    v = proto.dec(ans)
    if v[0] == 'err':
        # stage-wise model: an exception; the lazy model must fail as well
        return 'err' if v[1] == 'T' else 'err (stage-wise) but the lazy model answers a stream'
    marked = [[None if m == 'N' else str(m), u_event(e)] for m, e in v[1]]
    bufs = [[int(i), [u_event(e) for e in b]] for i, b in v[2]]
    # v[5]: 'lazy' = answered by the lazy model (the interleaving is observable), else: both models agree;
    # 'lazy+trace' = ... and reads come after writes (`lazyRaw`): the link-by-link trace semantics gives the
    # same (theorem `lazy_trace`); for stage-wise chains the flag 'T' includes lazy = trace
    return ['ok', marked, bufs, [u_event(e) for e in v[3]], v[4] == 'T', v[5] in ('T', 'lazy', 'lazy+trace')]


def derive_line(case):
    """links are named by the derivation that made them (see run_tree); histories without
    apply(Transformer) go to `derive` (model `history`), mixed ones to `derive2` (`historyD`)"""
    root = '0:' + OPCLASS['select']
    if not any(op[0] == 'cat' for _, op in case['derive']):
        return proto.line(Atom('C20'), Atom('derive'), root,
                          [[p, '%d:%s' % (k + 1, OPCLASS[op[0]])] for k, (p, op) in enumerate(case['derive'])])
    return proto.line(Atom('C20'), Atom('derive2'), root,
                      [[Atom('cat'), p, op[1]] if op[0] == 'cat' else [Atom('one'), p, '%d:%s' % (k + 1, OPCLASS[op[0]])]
                       for k, (p, op) in enumerate(case['derive'])])


def derive_model_answer(ans):
    if ans in ('err', 'unmodelled', 'bad-op', 'bad-line'):
        return ans
    return [[[str(l) for l in chain] for chain in snap] for snap in proto.dec(ans)]


def w_scalar(v):
    return [str(v), B(bool(v)), B(v is None)]


def w_val(v):
    if isinstance(v, (list, tuple)):
        return [Atom('many')] + [w_scalar(x) for x in v]
    return [Atom('one'), w_scalar(v)]


def form_line(case):
    cfg = [N if case.get('name') is None else case['name'], N if case.get('id') is None else case['id'],
           B(case.get('passwords', False)), [[k, w_val(v)] for k, v in case['data']]]
    return proto.line(Atom('C20'), Atom('fill'), cfg, [w_event(e) for e in G.flatten(case['doc'])])


def spec_line(case):
    cfg = [N if case.get('name') is None else case['name'], N if case.get('id') is None else case['id'],
           B(case.get('passwords', False)), [[k, w_val(v)] for k, v in case['data']]]
    return proto.line(Atom('C20'), Atom('fillspec'), cfg, [w_event(e) for e in G.flatten(case['doc'])])


def form_model_answer(ans):
    if ans in ('err', 'unmodelled', 'outside', 'bad-op', 'bad-line'):
        return ans
    v = proto.dec(ans)
    return ['ok', [u_event(e) for e in v[1]]]


def compare(items, res):
    """items: (case, stream name, request line, real answer, model decoder)"""
    answers = proto.run_lines([it[2] for it in items])
    for (case, stream, _line, real, decode), ans in zip(items, answers):
        try:
            model = decode(ans)
        except Exception as e:  # noqa
            model = 'undecodable: %s: %s' % (type(e).__name__, ans[:200])
        if model == 'unmodelled':
            res.count('model:unmodelled')
            continue
        if stream.startswith('chains') and 'ops' in case:
            lazy = not G.stagewise(case['ops'])
            res.count('chain-model:' + ('lazy' if lazy else 'stage-wise+lazy'))
            if lazy:
                stream = stream + '-lazy'
                if 'lazy+trace' in ans:
                    res.count('chain-model:lazy+trace')
        if model == 'outside' and case.get('kind') == 'formx':
            # the documentation semantics claims nothing outside `okForest` (the recorded findings);
            # for kind `form` (inside the hypotheses of the oracle) `outside` is a disagreement
            res.count('spec:outside-okForest')
            continue
        res.streams[stream] = res.streams.get(stream, 0) + 1
        if model != real:
            res.disagreements.append({'stream': stream, 'case': case, 'model': _short(model), 'real': _short(real)})


# --------------------------------------------------------------------------
# generation

def gen_cases(rng, n):
    cases = []
    for _ in range(n):
        r = rng.random()
        if r < 0.04:
            # outside the hypotheses of the oracle (known finding classes): correspondence only
            doc = G.gen_doc(rng, rng.choice([1, 2, 2]))
            cases.append({'kind': 'chainx', 'doc': doc, 'ops': G.gen_chain(rng, 4, doc, wild=True)})
        elif r < 0.08:
            cases.append(G.gen_form_case(rng, wild=True))
        elif r < 0.14:
            cases.append(G.gen_tree_case(rng))
        elif r < 0.68:
            doc = G.gen_doc(rng, rng.choice([1, 2, 2, 3]))
            cases.append({'kind': 'chain', 'doc': doc, 'ops': G.gen_chain(rng, 4, doc)})
        elif r < 0.95:
            cases.append(G.gen_form_case(rng))
        else:
            f = rng.choice(['sanitizer', 'translator', 'empty', 'whitespace', 'nsflat', 'doctype'])
            cases.append({'kind': 'other', 'doc': G.sanitizer_doc(rng) if f == 'sanitizer' else G.gen_doc(rng, 2), 'filter': f})
    return cases


DIRTY_EXCLUDED = ('remove', 'replace', 'wrap', 'wrapel', 'cut', 'copy', 'filter')


def in_theorem_class(ops):
    """mirror of `Admissible true ops` (Genshi/Lemmas/TfChains.lean): the chains covered by
    chain_wellnested"""
    good = True
    for op in ops:
        n = op[0]
        if not good and n in DIRTY_EXCLUDED:
            return False
        if n in ('select', 'end'):
            good = True
        elif n == 'invert':
            good = False
    return True


def in_lazy_theorem_class(ops):
    """mirror of `Admissible true ops`, `OneWriter [] ops` and `lazyRaw ops` (Lemmas/TfChains.lean, TfTraceInv.lean,
    Model/TfTrace.lean): the chains covered by lazy_raw_chain_wellnested -- operations admitted on the marking as
    in `Admissible`; between two buffer() barriers one writer per buffer, and no buffer written by a link that
    (or a link before which) reads it"""
    good = True
    w, r = set(), set()
    for op in ops:
        n = op[0]
        if n == 'buffer':
            w, r = set(), set()
            continue
        if not good and n in DIRTY_EXCLUDED:
            return False
        if n in ('copy', 'cut'):
            if op[1] in w or op[1] in r:
                return False
            w.add(op[1])
        elif n in G.INJECT and op[1][0] == 'buf':
            r.add(op[1][1])
        if n in ('select', 'end'):
            good = True
        elif n == 'invert':
            good = False
    return True


def chain_key(case, real):
    """distinct non-trivial chain: (operation names, path strings, marks that occur)"""
    marks = sorted(set(m for m, _ in real['marked'] if m))
    if not marks and len(case['ops']) == 1:
        return None
    return json.dumps([[o[0] if o[0] != 'select' else G.path_str(o[1]) for o in case['ops']], marks,
                       len(real['marked'])])


def process(cases, res):
    items = []
    for c in cases:
        res.evaluations += 1
        res.count('kind:' + c['kind'])
        try:
            if c['kind'] == 'chainx':
                real = run_real(c['doc'], c['ops'])
                f = None
                res.count('chainx-status:' + real['status'] + (':' + real['err'] if real['err'] else ''))
                items.append((c, 'chains-outside-oracle', chain_line(c, real), chain_real_answer(real), chain_model_answer))
            elif c['kind'] == 'formx':
                f = None
                st, out = run_filler(c)
                res.count('formx-status:' + (st if st == 'ok' else 'err:' + out))
                items.append((c, 'forms-outside-oracle', form_line(c), ['ok', out] if st == 'ok' else 'err', form_model_answer))
                items.append((c, 'formspec-outside-oracle', spec_line(c), ['ok', out] if st == 'ok' else 'err', form_model_answer))
            elif c['kind'] == 'chain':
                real = run_real(c['doc'], c['ops'])
                f = oracle_chain(c, real)
                res.count('chain-len:%d' % (len(c['ops']) - 1))
                for o in c['ops']:
                    res.count('op:' + o[0])
                    if o[0] in INJ:
                        res.count('inj-content:' + ('callable->' + o[1][1][0] if o[1][0] == 'fn' else o[1][0]))
                    elif o[0] == 'attrfn':
                        res.count('attrfn:' + ('copy-attr' if isinstance(o[2], str) else o[2][0]))
                res.count('chain-status:' + real['status'] + (':' + real['err'] if real['err'] else ''))
                if real['status'] == 'ok':
                    res.count('unmarked-output-by:' + ('Transformer.__call__(stream)' if real.get('plain-by') else
                                                       '_unmark(marked output)'))
                hits = [sum(1 for _, r in v if r is True or r) for k_, v in sorted((k2, v2) for k2, v2 in real['rec'].items() if isinstance(k2, int))]
                if any(isinstance(k2, tuple) and k2[0] == 'raised' for k2 in real['rec']):
                    res.count('chain:path-test-raised')
                res.count('first-select:' + ('matches' if hits and hits[0] else 'empty'))
                res.count('chain:' + ('in' if in_theorem_class(c['ops']) else 'outside') + '-chain_wellnested')
                if not G.stagewise(c['ops']):
                    res.count('chain-lazy:' + ('in' if in_lazy_theorem_class(c['ops']) else 'outside') +
                              '-lazy_raw_chain_wellnested')
                res.count('path:' + ('shared-grammar' if 'text' in c['ops'][0][1] else 'ast'))
                for ft in sorted(G.doc_features(c['doc'])) or ['plain']:
                    res.count('doc:' + ft)
                if not G.admissible(c['ops']):
                    res.count('chain:outside-nesting-precondition')
                k = chain_key(c, real)
                if k:
                    res.nontrivial.add(k)
                for m in set(m for m, _ in real['marked'] if m):
                    res.count('mark:' + m)
                items.append((c, 'chains', chain_line(c, real), chain_real_answer(real), chain_model_answer))
            elif c['kind'] == 'tree':
                tree = run_tree(c)
                f = oracle_tree(c, tree)
                history, runs = tree
                res.count('tree-shape:' + G.tree_shape(c))
                res.count('tree-size:%d' % (len(c['derive']) + 1))
                res.count('tree-branching:' + ('yes' if len(set(p for p, _ in c['derive'])) < len(c['derive']) else 'no'))
                cats = [(p, op[1]) for p, op in c['derive'] if op[0] == 'cat']
                catnodes = set(i + 1 for i, (_, op) in enumerate(c['derive']) if op[0] == 'cat')
                res.count('tree:cat-steps', len(cats))
                res.count('tree:one-steps', len(c['derive']) - len(cats))
                res.count('tree:with-cat' if cats else 'tree:without-cat')
                for p, j in cats:
                    res.count('tree-cat:' + ('self' if p == j else 'argument-is-a-cat-object' if j in catnodes else
                                             'origin-is-a-cat-object' if p in catnodes else 'plain'))
                seen = set()
                for k, ops, real in runs:
                    if k in catnodes:
                        res.count('tree-apply:cat-object')
                        res.count('tree-cat-chain-len:%d' % len(ops))
                        res.count('tree-cat-selects-in-chain:%d' % sum(1 for o in ops if o[0] == 'select'))
                    res.count('tree-apply:' + ('again' if k in seen else 'first') + (':origin' if k == 0 else ''))
                    seen.add(k)
                    if real['status'] == 'ok' and unmark(real['marked']) != G.flatten(c['doc']):
                        res.nontrivial.add(json.dumps([G.tree_shape(c), k, [o[0] for o in ops]]))
                    sub = {'kind': 'tree', 'doc': c['doc'], 'root': c['root'], 'derive': c['derive'], 'apply': [k]}
                    items.append((sub, 'chains-derived', chain_line({'doc': c['doc'], 'ops': ops}, real),
                                  chain_real_answer(real), chain_model_answer))
                items.append((c, 'derive-history', derive_line(c), history, derive_model_answer))
            elif c['kind'] == 'form':
                f = oracle_form(c)
                st, out = run_filler(c)
                if st == 'ok' and out != G.flatten(c['doc']):
                    res.nontrivial.add(json.dumps([c['doc'], c['data']], sort_keys=True))
                res.count('form-status:' + (st if st == 'ok' else 'err:' + out))
                items.append((c, 'forms', form_line(c), ['ok', out] if st == 'ok' else 'err', form_model_answer))
                items.append((c, 'formspec', spec_line(c), ['ok', out] if st == 'ok' else 'err', form_model_answer))
            else:
                f = oracle_other(c)
                res.count('other:' + c['filter'])
        except Exception as e:  # noqa
            import traceback
            f = fail(c, 'oracle raised', 'no exception', '%s: %s %s' % (type(e).__name__, e, traceback.format_exc()[-600:]))
        if f:
            res.failures.append(f)
    compare(items, res)


def shard(arg):
    seed, idx, n = arg
    rng = random.Random('%s/%s/C20' % (seed, idx))
    res = Result()
    done = 0
    while done < n:
        # bounded memory: one gdrv call per chunk
        k = min(1500, n - done)
        cases = gen_cases(rng, k)
        process(cases, res)
        if not done:
            res.samples = [c for c in cases if c['kind'] == 'chain'][:1] + [c for c in cases if c['kind'] == 'form'][:1]
        done += k
    if len(res.nontrivial) > 20000:
        # keep the evidence small: the count is what matters beyond this point
        import hashlib
        res.nontrivial = set(hashlib.sha1(x.encode()).hexdigest()[:16] for x in res.nontrivial)
    return res


def run(ctx):
    res = Result()
    nsh = 16
    per = ctx.n(1500, 40000)
    for r in pmap('harness.props.c20', 'shard', [(ctx.seed, i, per) for i in range(nsh)]):
        res.merge(r)
    res.rule = ('chains: distinct (operation names, path strings, set of marks in the final marked stream, its length) with at '
                'least one operation or one mark; forms: distinct (form document, data) whose output differs from the input')
    res.samples = res.samples[:6]
    return res


def search(ctx, res, broken):
    """a proof or the correspondence broke: judge the disagreeing inputs with the oracle on the real
    code first, then a larger seeded hunt"""
    found = []
    for d in res.disagreements[:300]:
        try:
            f = oracle_case(d['case'])
        except Exception:  # noqa
            f = None
        if f:
            found.append(f)
    if found:
        return found
    for r in pmap('harness.props.c20', 'shard', [(ctx.seed + 7919, 100 + i, 2500) for i in range(16)]):
        found.extend(r.failures)
    return found


def replay(ctx, case):
    try:
        return oracle_case(case)
    except Malformed:
        return None

"""C07 — parsers are total and always deliver a well-formed event stream.

Three things happen per generated input:

* the **property oracle on the real code** (`oracle_case`): structural checks on what
  `HTML(text)` / `HTMLParser(reader)` return (nesting, void elements, adjacent text, types,
  only ParseError escapes, chunking invariance), and for XML the comparison with the
  *generating tree* of the document / with an independent Expat instance for ill-formed text;
* the **tie**: a recording subclass notes the batches of tokenizer callbacks (one batch per
  `feed` / `Parse`) that `html.parser` / Expat actually made while the real genshi parser ran;
* the **correspondence**: the recorded batches are replayed through the Lean model of
  genshi's layer (`gdrv`, verbs `C07 html` / `C07 xml`) and the events are compared.  Scripted
  callback sequences that no tokenizer would produce are played into the real layer through a
  fake tokenizer and compared in the same way (the theorems quantify over all sequences).
"""
import codecs, io, json, random, re
from harness import proto
from harness.framework import Result, pmap, Hang, deadline
from harness.proto import Atom, B, N
from harness import gen_soup7 as G

PROP = 'C07'
TRUSTED = [
    'modelled, not verified: genshi/input.py HTMLParser/XMLParser callback layer, _generate loops, _coalesce (hand-written Lean model Genshi.Parse, tied by replaying recorded callback batches through gdrv)',
    'not modelled, only exercised: html.parser.HTMLParser and pyexpat/Expat (the theorems quantify over every callback sequence they could make); codecs stream readers',
    'the theorems quantify over every stripentities and every str.lower; the driver runs the real environment: genshi.util.stripentities as modelled by work package san (Genshi.San.stripentities) and str.lower as per-character table + final-sigma rule generated from the running interpreter (Gen/Parse.lean), both compared with the real functions on every run (streams env-strip, env-lower)',
    'XML oracle for ill-formed text is a second Expat instance (same library, separate parser object and own handlers)',
]
ASSUMPTIONS = [
    'tokenizer contract (checked on every recorded batch): tag names passed to handle_starttag do not begin with "{" (needed for the void-element clause only)',
    'model side: strings are sequences of Unicode scalar values (cases with lone surrogates are run through the oracle only)',
    'XML: no reference to an undefined entity inside an attribute value (known finding C07-xml-attr-undefined-entity), no namespace URI beginning with "{" (known finding C07-xml-brace-namespace)',
    'the `encoding` argument names an existing codec (codecs.getreader is called outside the try block)',
]

VOID = frozenset(G.VOID_HTML4)          # HTML 4.01 void elements: the oracle's own list
XMLNS = 'http://www.w3.org/XML/1998/namespace'


def genshi_mods():
    import genshi.input as gi
    import genshi.core as gc
    return gi, gc


# --------------------------------------------------------------------------
# canonical events (positions dropped), JSON friendly

def qn(name):
    s = str(name)
    if s.startswith('{'):
        ns, _, loc = s[1:].partition('}')
        return [ns, loc]
    return ['', s]


def cev(e):
    gi, gc = genshi_mods()
    k, d = e[0], e[1]
    if k is gc.START:
        return ['S', qn(d[0]), [[qn(a), str(v)] for a, v in d[1]]]
    if k is gc.END:
        return ['E', qn(d)]
    if k is gc.TEXT:
        return ['T', str(d)]
    if k is gc.COMMENT:
        return ['C', str(d)]
    if k is gc.PI:
        return ['PI', str(d[0]), str(d[1])]
    if k is gc.DOCTYPE:
        return ['DT', d[0], d[1], d[2]]
    if k is gc.XML_DECL:
        return ['XD', d[0], d[1], int(d[2])]
    if k is gc.START_NS:
        return ['NS', d[0], d[1] or '']
    if k is gc.END_NS:
        return ['ENS', d]
    if k is gc.START_CDATA:
        return ['SC']
    if k is gc.END_CDATA:
        return ['EC']
    return ['OTHER', str(k)]


def wire_ev(c):
    """canonical event -> wire value in the vocabulary of lean/Genshi/WireCore.lean"""
    k = c[0]
    if k == 'S':
        return [Atom('S'), c[1], [[a, v] for a, v in c[2]]]
    if k == 'E':
        return [Atom('E'), c[1]]
    if k == 'T':
        return [Atom('T'), c[1], Atom('F')]
    if k == 'C':
        return [Atom('C'), c[1]]
    if k == 'PI':
        return [Atom('PI'), c[1], c[2]]
    if k == 'DT':
        return [Atom('DT'), c[1], N if c[2] is None else c[2], N if c[3] is None else c[3]]
    if k == 'XD':
        return [Atom('XD'), c[1], N if c[2] is None else c[2], Atom(str(c[3]))]
    if k == 'NS':
        return [Atom('NS'), c[1], c[2]]
    if k == 'ENS':
        return [Atom('ENS'), c[1]]
    if k == 'SC':
        return Atom('SC')
    if k == 'EC':
        return Atom('EC')
    raise ValueError(c)


def has_surrogate(x):
    if isinstance(x, str):
        return any(0xd800 <= ord(ch) <= 0xdfff for ch in x)
    if isinstance(x, (list, tuple)):
        return any(has_surrogate(y) for y in x)
    if isinstance(x, dict):
        return any(has_surrogate(y) for y in x.values())
    return False


def drain(it):
    """iterate a parser: (events delivered, None) or (events delivered before it, exception)"""
    out = []
    try:
        for e in it:
            out.append(e)
    except BaseException as ex:   # noqa: the oracle wants to see everything that escapes
        if isinstance(ex, (KeyboardInterrupt, SystemExit, Hang)):
            raise
        return out, ex
    return out, None


def exc_desc(ex):
    gi, _ = genshi_mods()
    if ex is None:
        return None
    if isinstance(ex, gi.ParseError):
        return ['ParseError', ex.lineno, ex.offset]
    return ['Other:' + type(ex).__name__]


# --------------------------------------------------------------------------
# structural oracle on an event list of the real parser

def check_types(events, xml):
    gi, gc = genshi_mods()
    kinds_html = (gc.START, gc.END, gc.TEXT, gc.COMMENT, gc.PI)

    def plain(x):
        return isinstance(x, str) and not isinstance(x, gc.Markup)
    for e in events:
        if not (isinstance(e, tuple) and len(e) == 3):
            return 'event is not a 3-tuple: %r' % (e,)
        k, d, pos = e
        if not (isinstance(pos, tuple) and len(pos) == 3 and isinstance(pos[1], int) and isinstance(pos[2], int)):
            return 'position is not (filename, int, int): %r' % (pos,)
        if k is gc.START:
            ok = (isinstance(d, tuple) and len(d) == 2 and isinstance(d[0], gc.QName) and isinstance(d[1], gc.Attrs)
                  and all(isinstance(a, gc.QName) and plain(v) for a, v in d[1]))
        elif k is gc.END:
            ok = isinstance(d, gc.QName)
        elif k is gc.TEXT or k is gc.COMMENT:
            ok = plain(d)
        elif k is gc.PI:
            ok = isinstance(d, tuple) and len(d) == 2 and plain(d[0]) and plain(d[1])
        elif not xml:
            ok = False
        elif k is gc.DOCTYPE:
            ok = isinstance(d, tuple) and len(d) == 3 and plain(d[0]) and all(x is None or plain(x) for x in d[1:])
        elif k is gc.XML_DECL:
            ok = isinstance(d, tuple) and len(d) == 3 and plain(d[0]) and (d[1] is None or plain(d[1])) and d[2] in (-1, 0, 1)
        elif k is gc.START_NS:
            ok = isinstance(d, tuple) and len(d) == 2 and plain(d[0]) and (d[1] is None or plain(d[1]))
        elif k is gc.END_NS:
            ok = plain(d)
        elif k is gc.START_CDATA or k is gc.END_CDATA:
            ok = d is None
        else:
            ok = False
        if not ok:
            return 'event of undocumented kind or data type: %r' % ((k, d),)
        if not xml and k not in kinds_html:
            return 'HTML parser produced %r' % (k,)
    return None


def check_stream(cevs, void_clause=True):
    """nesting, void elements, adjacent text on canonical events; returns a description or None"""
    stack = []
    prev = None
    for i, c in enumerate(cevs):
        k = c[0]
        if k == 'S':
            stack.append(c[1])
            if void_clause and c[1][0] == '' and c[1][1] in VOID:
                nxt = cevs[i + 1] if i + 1 < len(cevs) else None
                if nxt != ['E', c[1]]:
                    return 'START of void element %s at index %d is not immediately followed by its END' % (c[1][1], i)
        elif k == 'E':
            if not stack:
                return 'END %r at index %d without an open element' % (c[1], i)
            if stack[-1] != c[1]:
                return 'END %r at index %d closes %r' % (c[1], i, stack[-1])
            stack.pop()
        elif k == 'T' and prev == 'T':
            return 'two adjacent TEXT events at index %d' % i
        prev = k
    if stack:
        return 'elements left open at the end of the stream: %r' % (stack,)
    return None


def fail(case, what, expected, observed):
    return {'case': case, 'what': what, 'expected': expected, 'observed': observed if isinstance(observed, (str, list, dict, type(None))) else repr(observed)}


def trim(x, n=600):
    s = json.dumps(x, ensure_ascii=True)
    return x if len(s) <= n else s[:n] + '...'


# --------------------------------------------------------------------------
# HTML oracle

CHUNK_SIZES = [1, 7, 4095, 4096, 4097]


def html_result(make):
    gi, _ = genshi_mods()
    try:
        p = make()
    except Exception as ex:   # noqa
        return [], ex
    return drain(p)


def oracle_html_events(case, events, ex, label):
    gi, _ = genshi_mods()
    if ex is not None:
        if not isinstance(ex, gi.ParseError):
            return fail(case, '%s: only ParseError may escape the HTML parser' % label, 'ParseError or a stream', 'Other:' + type(ex).__name__ + ': ' + str(ex)[:200])
        return None
    t = check_types(events, xml=False)
    if t:
        return fail(case, '%s: names, attributes and text have the documented types' % label, 'QName/Attrs/str', t)
    s = check_stream([cev(e) for e in events])
    if s:
        return fail(case, '%s: stream is well nested, void elements closed at once, text merged, nothing left open' % label, 'well-formed stream', s)
    return None


def chunk_plan(text):
    sizes = [1, 7]
    if len(text) > 3000:
        sizes += [4095, 4096, 4097]
    return sizes


STATS = {}


def stat(key, n=1):
    STATS[key] = STATS.get(key, 0) + n


def callback_trace(script):
    """what the tokenizer called, in order: batches forgotten, adjacent data calls merged
    (html.parser cuts text where the chunks end; `_coalesce` exists to hide exactly that)"""
    out = []
    for items in [r[1] for r in script['reads'] if r[0] == 't'] + [script['close']]:
        for it in items:
            it = list(it) if it[0] == 'raise' else list(it[:-2])      # positions are not part of the call
            if it[0] == 'd' and out and out[-1][0] == 'd':
                out[-1] = ['d', out[-1][1] + it[1]]
            else:
                out.append(it)
    out.extend(list(r) for r in script['reads'] if r[0] != 't')
    return out


def oracle_html(case):
    """HTML(text): only ParseError escapes; the stream is well formed; and it does not depend on
    how the reader cuts the input. The last clause is demanded whenever html.parser itself made
    the same calls for both cuttings (known finding C07-html-tokenizer-chunking: with an
    unterminated attribute quote html.parser decides differently when the rest has not arrived)."""
    gi, _ = genshi_mods()
    text = case['text']
    try:
        base = list(gi.HTML(text))
        bex = None
    except BaseException as ex:   # noqa
        if isinstance(ex, (KeyboardInterrupt, SystemExit)):
            raise
        base, bex = [], ex
    f = oracle_html_events(case, base, bex, 'HTML(text)')
    if f:
        return f
    bc = [cev(e) for e in base]
    bscript, bev, bex2 = record_html(lambda: io.StringIO(text))
    if exc_desc(bex2) != exc_desc(bex) or (bex is None and [cev(e) for e in bev] != bc):
        return fail(case, 'HTML(text) is HTMLParser(StringIO(text)) iterated', trim(bc) if bex is None else exc_desc(bex),
                    trim([cev(e) for e in bev]) if bex2 is None else exc_desc(bex2))
    btrace = callback_trace(bscript)

    def same_as_base(label, script, ev, ex):
        f = oracle_html_events(case, ev, ex, label)
        if f:
            return f
        if callback_trace(script) != btrace:
            stat('oracle:html:tokenizer-chunk-sensitive')
            return None
        stat('oracle:html:chunkings-compared')
        if exc_desc(ex) != exc_desc(bex):
            return fail(case, 'chunking invariance, %s: same outcome as HTML(text)' % label, exc_desc(bex), exc_desc(ex))
        if ex is None and [cev(e) for e in ev] != bc:
            return fail(case, 'chunking invariance, %s: same events as HTML(text)' % label, trim(bc), trim([cev(e) for e in ev]))
        return None

    for size in chunk_plan(text):
        script, ev, ex = record_html(lambda: G.ChunkReader(text, size))
        f = same_as_base('reader returning %d-character chunks' % size, script, ev, ex)
        if f:
            return f
    if case.get('sched'):
        script, ev, ex = record_html(lambda: G.ScheduleReader(text, case['sched']))
        f = same_as_base('reader with chunk schedule %r' % (case['sched'],), script, ev, ex)
        if f:
            return f
    if case.get('splits'):
        # one cut, at every position
        for i in range(1, len(text)):
            script, ev, ex = record_html(lambda: G.ScheduleReader(text, [i, len(text)]))
            f = same_as_base('input cut once after %d characters' % i, script, ev, ex)
            if f:
                return f
    # the bytes path: a codecs reader in front of the same text
    if not has_surrogate(text):
        for enc in case.get('encodings', ['utf-8']):
            try:
                data = text.encode(enc)
            except UnicodeError:
                continue
            try:
                ev, ex = list(gi.HTML(data, encoding=enc)), None
            except BaseException as e2:   # noqa
                ev, ex = [], e2
            script, ev2, ex2 = record_html(lambda: io.BytesIO(data), encoding=enc)
            if exc_desc(ex2) != exc_desc(ex) or (ex is None and [cev(e) for e in ev2] != [cev(e) for e in ev]):
                return fail(case, 'HTML(bytes, encoding) is HTMLParser(BytesIO(bytes), encoding) iterated', exc_desc(ex), exc_desc(ex2))
            f = same_as_base('HTML(bytes, encoding=%s)' % enc, script, ev, ex)
            if f:
                return f
    return None


def oracle_html_bytes(case):
    gi, _ = genshi_mods()
    data = bytes.fromhex(case['hex'])
    enc = case['encoding']
    for size in [None] + case.get('sizes', [1, 5]):
        if size is None:
            try:
                ev, ex = list(gi.HTML(data, encoding=enc)), None
            except BaseException as e2:   # noqa
                ev, ex = [], e2
            label = 'HTML(bytes, encoding=%s)' % enc
        else:
            ev, ex = html_result(lambda: gi.HTMLParser(G.ChunkReader(data, size), encoding=enc))
            label = 'HTMLParser(%d-byte chunks, encoding=%s)' % (size, enc)
        f = oracle_html_events(case, ev, ex, label)
        if f:
            return f
    return None


# --------------------------------------------------------------------------
# XML oracles

def group_ns(cevs):
    """[NS.. S .. E ENS..] -> NSSET/ENSSET groups as in gen_soup7.tree_events; stray namespace
    events stay as they are (and then differ from every expectation)"""
    out = []
    i = 0
    n = len(cevs)
    pending = []
    while i < n:
        c = cevs[i]
        if c[0] == 'NS':
            pending.append([c[1], c[2]])
        elif c[0] == 'S':
            out.append(['NSSET', sorted(pending)])
            pending = []
            out.append(c)
        else:
            if pending:
                out.extend(['NS'] + p for p in pending)
                pending = []
            out.append(c)
            if c[0] == 'E':
                ens = []
                while i + 1 < n and cevs[i + 1][0] == 'ENS':
                    ens.append(cevs[i + 1][1])
                    i += 1
                out.append(['ENSSET', sorted(ens)])
        i += 1
    out.extend(['NS'] + p for p in pending)
    return out


def xml_chunkings(text):
    sizes = [1, 7]
    if len(text) > 3000:
        sizes += [4095, 4096, 4097]
    return sizes


def oracle_xml_tree(case):
    gi, _ = genshi_mods()
    doc = case['doc']
    text = G.write_xml(doc, random.Random(case.get('wseed', 0)))
    want = G.tree_events(doc)
    # the premise "well-formed document", decided by an independent Expat (its own handlers, no genshi): the
    # generator only writes well-formed documents, but a shrunk or hand-written tree (empty names, duplicate
    # attributes, lone surrogates ...) may not be one; the property says nothing about the tree it was written from then.
    from xml.parsers import expat
    ref = IndependentExpat().run(text.encode('utf-8', 'surrogatepass'))
    if ref[0] == 'err' and ref[3] != expat.errors.codes[expat.errors.XML_ERROR_UNDEFINED_ENTITY]:
        stat('oracle:xml-tree:not-well-formed')
        return None
    try:
        ev, ex = list(gi.XML(text)), None
    except BaseException as e2:   # noqa
        if isinstance(e2, (KeyboardInterrupt, SystemExit)):
            raise
        ev, ex = [], e2
    if ex is not None:
        return fail(case, 'XML(text) parses the well-formed document written from the tree', 'a stream', '%s: %s | %s' % (type(ex).__name__, str(ex)[:200], trim(text, 400)))
    t = check_types(ev, xml=True)
    if t:
        return fail(case, 'XML events have the documented types', 'documented types', t)
    got = group_ns([cev(e) for e in ev])
    if got != want:
        k = next((i for i, (a, b) in enumerate(zip(got, want)) if a != b), min(len(got), len(want)))
        return fail(case, 'XML(text) reports the tree the document was written from (qualified names, attributes, character data, namespace declarations bracketing their element, adjacent text merged)',
                    {'index': k, 'events': trim(want[max(0, k - 1):k + 3])}, {'index': k, 'events': trim(got[max(0, k - 1):k + 3]), 'text': trim(text, 300)})
    s = check_stream([cev(e) for e in ev], void_clause=False)
    if s:
        return fail(case, 'XML stream is well nested and has no adjacent text', 'well-formed stream', s)
    flat = [cev(e) for e in ev]
    # the incremental reader. A character source is a decoded document: what its XML declaration says about the
    # encoding (also an unknown name) and the `encoding` argument do not apply to it; a bytes source in the
    # encoding its declaration names is left to Expat.
    sources = [('character', text, None), ('character', text, 'utf-8'), ('character', text, 'iso-8859-1')]
    declared = (doc['decl'] or [None, None])[1]
    try:
        if declared is None or declared.lower() == 'utf-8':
            sources.append(('byte', text.encode('utf-8'), None))
        elif declared != 'x-bogus':
            sources.append(('byte', text.encode(declared), None))
    except UnicodeError:
        pass
    for size in xml_chunkings(text):
        for what, src, enc in sources:
            if what == 'character' and enc is not None and size != 7:
                continue
            e3, x3 = drain(gi.XMLParser(G.ChunkReader(src, size), encoding=enc))
            if x3 is not None or [cev(e) for e in e3] != flat:
                return fail(case, 'chunking invariance of XMLParser (%d-%s chunks, encoding=%r)' % (size, what, enc),
                            trim(flat), exc_desc(x3) + [str(x3)[:100]] if x3 is not None else trim([cev(e) for e in e3]))
    if declared == 'x-bogus':
        # bytes whose declaration names an encoding nobody knows: not a document the parser can process
        for size in [None, 7]:
            src = io.BytesIO(text.encode('utf-8')) if size is None else G.ChunkReader(text.encode('utf-8'), size)
            e3, x3 = drain(gi.XMLParser(src))
            if not isinstance(x3, gi.ParseError) or x3.lineno != 1:
                return fail(case, 'bytes with an XML declaration naming an unknown encoding raise ParseError with the line of the declaration',
                            ['ParseError', 1], exc_desc(x3) if x3 is not None else trim([cev(e) for e in e3]))
    return None


class IndependentExpat(object):
    """a second Expat parser with the harness's own handlers: the reference for arbitrary XML text"""

    def __init__(self):
        from xml.parsers import expat
        self.ev = []
        p = expat.ParserCreate('utf-8', '}')     # the reference is given the text as UTF-8 bytes
        p.buffer_text = True
        p.ordered_attributes = True
        p.StartElementHandler = self.start
        p.EndElementHandler = lambda name: self.ev.append(['E', self.name(name)])
        p.CharacterDataHandler = self.text
        p.CommentHandler = lambda s: self.ev.append(['C', s])
        p.ProcessingInstructionHandler = lambda t, d: self.ev.append(['PI', t, d])
        p.StartNamespaceDeclHandler = lambda pf, u: self.ev.append(['NS', pf or '', u or ''])
        p.EndNamespaceDeclHandler = lambda pf: self.ev.append(['ENS', pf or ''])
        p.StartCdataSectionHandler = lambda: self.ev.append(['SC'])
        p.EndCdataSectionHandler = lambda: self.ev.append(['EC'])
        p.XmlDeclHandler = lambda v, e, s: self.ev.append(['XD', v, e, s])
        p.StartDoctypeDeclHandler = lambda n, s, pb, h: self.ev.append(['DT', n, pb, s])
        p.SkippedEntityHandler = lambda name, is_pe: self.skipped.append(name)
        self.skipped = []
        self.p = p

    @staticmethod
    def name(n):
        if '}' in n:
            u, _, l = n.rpartition('}')
            return [u, l]
        return ['', n]

    def start(self, name, attrs):
        self.ev.append(['S', self.name(name), [[self.name(attrs[i]), attrs[i + 1]] for i in range(0, len(attrs), 2)]])

    def text(self, s):
        if self.ev and self.ev[-1][0] == 'T':
            self.ev[-1][1] += s
        else:
            self.ev.append(['T', s])

    def run(self, data):
        from xml.parsers import expat
        try:
            self.p.Parse(data, True)
        except expat.ExpatError as e:
            return ('err', e.lineno, e.offset, e.code)
        return ('ok', self.ev)


ATTR_ENTITY = re.compile(r'''=\s*(?:"[^"]*&[^\s"#;&<]+;|'[^']*&[^\s'#;&<]+;)''')
NAMED_REF = re.compile(r'&([^\s#;&<"\']+);')


BRACE_NS = re.compile(r'''xmlns(?::[^\s=]*)?\s*=\s*["']\{''')


def in_attr_entity_zone(text):
    """the classes of the known findings C07-xml-attr-undefined-entity and C07-xml-brace-namespace
    (generators stay outside)"""
    return bool(ATTR_ENTITY.search(text)) or bool(BRACE_NS.search(text))


def oracle_xml_text(case):
    gi, _ = genshi_mods()
    from xml.parsers import expat
    from html.entities import name2codepoint
    text = case['text']
    try:
        ev, ex = list(gi.XML(text)), None
    except BaseException as e2:   # noqa
        if isinstance(e2, (KeyboardInterrupt, SystemExit)):
            raise
        ev, ex = [], e2
    if ex is not None and not isinstance(ex, gi.ParseError):
        return fail(case, 'only ParseError may escape the XML parser', 'ParseError or a stream', 'Other:' + type(ex).__name__ + ': ' + str(ex)[:200])
    # the same document as a file holds it (in the encoding it declares, if Python can encode it so), and as a
    # character source given to XMLParser directly: whatever the declaration says, nothing but ParseError escapes
    data = xml_bytes(text) if not case.get('light') else None
    for label, mk in ([('XMLParser(BytesIO(document))', lambda: gi.XMLParser(io.BytesIO(data)))] if data is not None else []) + \
            ([('XMLParser(StringIO(document))', lambda: gi.XMLParser(io.StringIO(text)))] if not case.get('light') else []):
        e4, x4 = drain(mk())
        if x4 is not None and not isinstance(x4, gi.ParseError):
            return fail(case, '%s: only ParseError may escape the XML parser' % label, 'ParseError or a stream', 'Other:' + type(x4).__name__ + ': ' + str(x4)[:200])
        if label.startswith('XMLParser(StringIO') and (exc_desc(x4) != exc_desc(ex) or (ex is None and [cev(e) for e in e4] != [cev(e) for e in ev])):
            return fail(case, 'XML(text) is XMLParser(StringIO(text)) iterated', exc_desc(ex) if ex is not None else trim([cev(e) for e in ev]),
                        exc_desc(x4) if x4 is not None else trim([cev(e) for e in e4]))
    refp = IndependentExpat()
    # a lone surrogate is no character: the reference is given it the way such a code point stands in a UTF-8 file
    ref = refp.run(text.encode('utf-8', 'surrogatepass'))
    if refp.skipped:
        # the document has an external DTD subset, which the reference does not read: it passes over references to
        # entities it has no declaration for, while genshi reads its HTML entity set in place of any external subset
        stat('oracle:xml:reference-skipped-an-entity')
        return None
    if ref[0] == 'err':
        _, line, col, code = ref
        html_entity = any(m in name2codepoint for m in NAMED_REF.findall(text))
        if code == expat.errors.codes[expat.errors.XML_ERROR_UNDEFINED_ENTITY] and html_entity:
            # genshi deliberately knows the HTML entities: the two parsers differ by design here
            return None
        if ex is None:
            return fail(case, 'ill-formed XML raises ParseError (independent Expat: error %d at line %d, column %d)' % (code, line, col),
                        ['ParseError', line, col], trim([cev(e) for e in ev]))
        if ex.lineno != line:
            return fail(case, 'ParseError carries the line of the error as reported by an independent Expat',
                        ['ParseError', line], exc_desc(ex))
        return None
    if ex is not None:
        return fail(case, 'well-formed XML (accepted by an independent Expat) is parsed', 'a stream', exc_desc(ex) + [str(ex)[:200]])
    t = check_types(ev, xml=True)
    if t:
        return fail(case, 'XML events have the documented types', 'documented types', t)
    got = [cev(e) for e in ev]
    if got != ref[1]:
        k = next((i for i, (a, b) in enumerate(zip(got, ref[1])) if a != b), min(len(got), len(ref[1])))
        return fail(case, 'XML(text) reports the same tree as an independent Expat', {'index': k, 'events': trim(ref[1][max(0, k - 1):k + 3])},
                    {'index': k, 'events': trim(got[max(0, k - 1):k + 3])})
    s = check_stream(got, void_clause=False)
    if s:
        return fail(case, 'XML stream is well nested and has no adjacent text', 'well-formed stream', s)
    return None


# --------------------------------------------------------------------------
# recording subclasses (the tie): which callbacks did the tokenizer make, in which batches

def _html_classes():
    gi, _ = genshi_mods()
    if hasattr(gi, '_c07_classes'):
        return gi._c07_classes

    class RecSource(object):
        def __init__(self, inner):
            self.inner = inner
            self.last_bytes = False

        def read(self, n=-1):
            d = self.inner.read(n)
            self.last_bytes = bool(d) and not isinstance(d, str)
            return d

    class RecHTML(gi.HTMLParser):
        def __init__(self, source, filename=None, encoding=None):
            self.rec_src = RecSource(source)
            gi.HTMLParser.__init__(self, self.rec_src, filename, encoding)
            self.reads = []
            self.closeb = []
            self.cur = None
            self.nested = 0
            self.layer_raised = False
            self.tok_raised = False
            self.in_close = False

        def _note(self, item):
            if self.nested == 0:
                self.cur.append(item + list(self.getpos()))

        def _call(self, fn, *a):
            self.nested += 1
            try:
                return fn(self, *a)
            except BaseException:
                if self.nested == 1:
                    self.layer_raised = True
                raise
            finally:
                self.nested -= 1

        def feed(self, data):
            self.cur = []
            self.reads.append(self.cur)
            try:
                gi.HTMLParser.feed(self, data)
            except BaseException as e:
                if not self.layer_raised:
                    self.tok_raised = True
                    self.cur.append(['raise', type(e).__name__, isinstance(e, Exception)])
                raise

        def close(self):
            self.cur = self.closeb
            self.in_close = True
            try:
                gi.HTMLParser.close(self)
            except BaseException as e:
                if not self.layer_raised:
                    self.tok_raised = True
                    self.cur.append(['raise', type(e).__name__, isinstance(e, Exception)])
                raise

        def handle_starttag(self, tag, attrib):
            self._note(['st', tag, [[n, v] for n, v in attrib]])
            return self._call(gi.HTMLParser.handle_starttag, tag, attrib)

        def handle_endtag(self, tag):
            self._note(['et', tag])
            return self._call(gi.HTMLParser.handle_endtag, tag)

        def handle_startendtag(self, tag, attrib):
            self._note(['se', tag, [[n, v] for n, v in attrib]])
            return self._call(gi.HTMLParser.handle_startendtag, tag, attrib)

        def handle_data(self, text):
            self._note(['d', text])
            return self._call(gi.HTMLParser.handle_data, text)

        def handle_comment(self, text):
            self._note(['c', text])
            return self._call(gi.HTMLParser.handle_comment, text)

        def handle_pi(self, data):
            self._note(['pi', data])
            return self._call(gi.HTMLParser.handle_pi, data)

        def handle_charref(self, name):
            self._note(['cr', name])
            return self._call(gi.HTMLParser.handle_charref, name)

        def handle_entityref(self, name):
            self._note(['er', name])
            return self._call(gi.HTMLParser.handle_entityref, name)

        def handle_decl(self, decl):
            self._note(['decl', decl])
            return self._call(gi.HTMLParser.handle_decl, decl)

        def unknown_decl(self, data):
            self._note(['decl', data])
            return self._call(gi.HTMLParser.unknown_decl, data)

    class SynSource(object):
        def __init__(self, reads):
            self.reads = reads
            self.k = 0

        def read(self, n=-1):
            if self.k >= len(self.reads):
                return ''
            r = self.reads[self.k]
            self.k += 1
            if r[0] == 't':
                return 'x'
            if r[0] == 'b':
                return b'x'
            raise make_exc(r[1])

    class SynHTML(gi.HTMLParser):
        """genshi's layer driven by a scripted tokenizer"""

        def __init__(self, script):
            gi.HTMLParser.__init__(self, SynSource(script['reads']))
            self.script = script
            self.k = 0
            self._scripted_pos = (1, 0)

        def getpos(self):
            return self._scripted_pos

        def feed(self, data):
            while self.script['reads'][self.k][0] != 't':
                self.k += 1
            items = self.script['reads'][self.k][1]
            self.k += 1
            self.play(items)

        def close(self):
            self.play(self.script['close'])

        def play(self, items):
            for it in items:
                k = it[0]
                if k != 'raise':
                    self._scripted_pos = (it[-2], it[-1])
                if k == 'st':
                    self.handle_starttag(it[1], [(n, v) for n, v in it[2]])
                elif k == 'et':
                    self.handle_endtag(it[1])
                elif k == 'se':
                    self.handle_startendtag(it[1], [(n, v) for n, v in it[2]])
                elif k == 'd':
                    self.handle_data(it[1])
                elif k == 'c':
                    self.handle_comment(it[1])
                elif k == 'pi':
                    self.handle_pi(it[1])
                elif k == 'cr':
                    self.handle_charref(it[1])
                elif k == 'er':
                    self.handle_entityref(it[1])
                elif k == 'decl':
                    self.handle_decl(it[1])
                elif k == 'raise':
                    raise make_exc(it[1])
                else:
                    raise ValueError(it)

    gi._c07_classes = (RecHTML, SynHTML, SynSource)
    return gi._c07_classes


class NotAnException(BaseException):
    """stands for the BaseExceptions that are not Exceptions (GeneratorExit, KeyboardInterrupt ...)"""


EXC = {'ValueError': ValueError, 'AssertionError': AssertionError, 'OverflowError': OverflowError, 'OSError': OSError,
       'UnicodeDecodeError': lambda: UnicodeDecodeError('utf-8', b'\xff', 0, 1, 'invalid start byte'),
       'KeyError': KeyError, 'RecursionError': RecursionError, 'NotAnException': NotAnException}


def make_exc(name):
    c = EXC[name]
    e = c() if not isinstance(c, type) else c('scripted')
    return e


def is_exception_name(name):
    return name != 'NotAnException'


def record_html(make_source, encoding=None):
    """run the real parser with the recording subclass. Returns (script, delivered events, exception)"""
    gi, _ = genshi_mods()
    RecHTML, _, _ = _html_classes()
    p = RecHTML(make_source(), encoding=encoding)
    ev, ex = drain(p)
    reads = [['t', items] for items in p.reads]
    if ex is not None and not p.layer_raised and not p.tok_raised:
        ctx = ex.__context__ if isinstance(ex, gi.ParseError) else ex
        if p.rec_src.last_bytes and encoding is None:
            reads.append(['b'])
        else:
            reads.append(['f', type(ctx).__name__, isinstance(ctx, Exception)])
    script = {'reads': reads, 'close': p.closeb}
    return script, ev, ex


ENV_SEEN = set()


def env_jobs(script):
    """the two functions of the environment, on what this script hands them and this process has not asked yet:
    (stream, argument, request, real answer)"""
    gi, _ = genshi_mods()
    out = []
    seen = ENV_SEEN
    for items in [r[1] for r in script['reads'] if r[0] == 't'] + [script['close']]:
        for it in items:
            if it[0] in ('st', 'se', 'et') and ('l', it[1]) not in seen:
                seen.add(('l', it[1]))
                out.append(env_lower_job(it[1]))
                if '{' in it[1] or '}' in it[1]:
                    out.append(env_qname_job(it[1]))
            if it[0] == 'pi' and ('p', it[1]) not in seen:
                seen.add(('p', it[1]))
                out.append(env_pi_job(it[1]))
            if it[0] in ('st', 'se'):
                for n, v in it[2]:
                    v = n if v is None else v
                    if ('s', v) not in seen:
                        seen.add(('s', v))
                        out.append(env_strip_job(v))
    return [j for j in out if j is not None]


def env_lower_job(t):
    if has_surrogate(t):
        return None
    return ('env-lower', t, proto.line(Atom('C07'), Atom('lower'), t), t.lower())


def env_qname_job(t):
    """genshi.core.QName(str) against mkQName: (namespace or '', localname)"""
    _, gc = genshi_mods()
    if has_surrogate(t):
        return None
    q = gc.QName(t)
    return ('env-qname', t, proto.line(Atom('C07'), Atom('qname'), t), [q.namespace or '', q.localname])


QNAME_ALPHABET = ['{', '{', '}', '}', 'a', 'u', ':', 'http://x', ' ', '', '\xe9']


def env_strip_job(v):
    gi, _ = genshi_mods()
    if has_surrogate(v):
        return None
    try:
        real = [Atom('ok'), gi.stripentities(v)]
    except Exception as e:   # noqa
        real = [Atom('err'), type(e).__name__]
    if has_surrogate(real):
        return None
    return ('env-strip', v, proto.line(Atom('C07'), Atom('unent'), v), real)


def env_pi_job(v):
    """HTMLParser.handle_pi(v) on a fresh real parser against piEvent: [target, data]"""
    gi, _ = genshi_mods()
    if has_surrogate(v):
        return None
    p = gi.HTMLParser(io.StringIO(''))
    p.handle_pi(v)
    (kind, data, _pos), = p._queue
    if str(kind) != 'PI':
        return None
    return ('env-pi', v, proto.line(Atom('C07'), Atom('pi'), v), [data[0], data[1]])


# every code point with str.isspace() below U+3001 appears, plus look-alikes that are not white space
PI_SPACES = [' ', ' ', '  ', '\t', '\n', '\r\n', '\x0b', '\x0c', '\x1c', '\x1d', '\x1e', '\x1f', '\x85', '\xa0', '\u1680', '\u2000',
             '\u2009', '\u200a', '\u2028', '\u2029', '\u202f', '\u205f', '\u3000']
PI_WORDS = ['php', 'xml', 'xml-stylesheet', 'a', 'echo', '"x"', 'version="1.0"', '?', '??', '?>', '\u200b', '\ufeff', '\u180e', '\xe9', '=', '<', '']


def gen_pi_string(rng):
    """target / white space / data / white space / optional '?', each part present or not"""
    r = rng.random()
    if r < 0.1:
        body = ''.join(rng.choice(PI_SPACES + PI_WORDS) for _ in range(rng.randrange(0, 7)))
    else:
        sp = lambda lo: ''.join(rng.choice(PI_SPACES) for _ in range(rng.randrange(lo, 3)))   # noqa
        body = sp(0) + rng.choice(PI_WORDS)
        for _ in range(rng.choice([0, 0, 1, 1, 2, 3])):
            body += sp(1 if rng.random() < 0.9 else 0) + rng.choice(PI_WORDS)
        body += sp(0)
    return body + rng.choice(['', '?', '?', '?', '??', '? ', ' ?'])


LOWER_ALPHABET = ['\u03a3', '\u03a3', 'a', 'A', '.', '\u0301', "'", ' ', '1', '\u03c3', '\u03c2', '\u0130', '\u01c5', '\xad', '\u02b0', 'Z', '-', ':',
                  '\U0001d400', '\xdf', '\u1e9e', '\u2160', '\u24b6', '\U00010400', '\xb7', '\u0345', 'I', '\u212a']
STRIP_PARTS = ['&', '&amp;', '&#65;', '&#x41;', '&#X41', '&#1114112;', '&#xD800;', '&#55296', '&nbsp;', '&junk;', '&lt', ';', 'x', '#', '&#',
               '&#99999999999999999999;', '&#x110000', '&hellip;', '&#\u0663;', '&\xe9t\xe9;', '&#x;', ' ', '&amp;amp;', '&#0;', '&#' + '9' * 4301 + ';']


def gen_env_jobs(rng, n):
    out = []
    for _ in range(n):
        if rng.random() < 0.2:
            out.append(env_pi_job(gen_pi_string(rng)))
        elif rng.random() < 0.25:
            out.append(env_qname_job('{' * rng.choice([0, 0, 1, 2, 3]) + ''.join(rng.choice(QNAME_ALPHABET) for _ in range(rng.randrange(0, 8)))))
        elif rng.random() < 0.5:
            out.append(env_lower_job(''.join(rng.choice(LOWER_ALPHABET) if rng.random() < 0.9 else G.rand_char(rng)
                                             for _ in range(rng.randrange(0, 8)))))
        else:
            out.append(env_strip_job(''.join(rng.choice(STRIP_PARTS) for _ in range(rng.randrange(0, 5)))))
    return [j for j in out if j is not None]


def pos_wire(it):
    return [Atom(str(int(it[-2]))), Atom(str(int(it[-1])))]


def html_item_wire(it):
    k = it[0]
    if k in ('st', 'se'):
        return [Atom(k.upper()), it[1], [[n, N if v is None else v] for n, v in it[2]]] + pos_wire(it)
    if k == 'raise':
        return [Atom('RAISE'), it[1], B(it[2] if len(it) > 2 else is_exception_name(it[1]))]
    return [Atom(k.upper()), it[1]] + pos_wire(it)


def html_line(script):
    """wire request for a script, or None when it is outside the model's vocabulary"""
    if has_surrogate(script):
        return None
    reads = []
    for r in script['reads']:
        if r[0] == 't':
            reads.append([Atom('T')] + [html_item_wire(i) for i in r[1]])
        elif r[0] == 'b':
            reads.append(Atom('B'))
        else:
            reads.append([Atom('F'), r[1], B(r[2] if len(r) > 2 else is_exception_name(r[1]))])
    return proto.line(Atom('C07'), Atom('html'), reads, [html_item_wire(i) for i in script['close']])


def outcome_wire(events, ex):
    """what the real code did, in the answer vocabulary of the driver (events with their positions)"""
    gi, _ = genshi_mods()
    def posw(e):
        try:
            return [Atom(str(int(e[2][1]))), Atom(str(int(e[2][2])))]
        except Exception:   # noqa: a position that is no (filename, int, int) - the oracle reports it (check_types)
            return [Atom('nopos'), Atom('nopos')]
    evs = [[wire_ev(cev(e))] + posw(e) for e in events]
    if ex is None:
        return [evs, Atom('ok')]
    if isinstance(ex, gi.ParseError):
        return [evs, [Atom('parseError'), Atom(str(ex.lineno)), Atom(str(ex.offset))]]
    return [evs, [Atom('propagate'), type(ex).__name__]]


def tags_ok(script):
    for items in [r[1] for r in script['reads'] if r[0] == 't'] + [script['close']]:
        for it in items:
            if it[0] in ('st', 'se') and it[1][:1] in ('{', '}'):
                return False
    return True


# --------------------------------------------------------------------------
# XML recording / scripted Expat

def _xml_classes():
    gi, _ = genshi_mods()
    if hasattr(gi, '_c07_xml_classes'):
        return gi._c07_xml_classes
    from xml.parsers import expat

    class RecXSource(object):
        def __init__(self, inner, owner):
            self.inner, self.owner = inner, owner

        def read(self, n=-1):
            d = self.inner.read(n)
            self.owner.new_batch(bool(d))
            return d

    class RecXML(gi.XMLParser):
        def __init__(self, source, filename=None, encoding=None):
            gi.XMLParser.__init__(self, RecXSource(source, self), filename, encoding)
            self.reads = []
            self.closeb = []
            self.cur = None
            self.in_dtd = 0
            self.layer_raised = False
            self.dtd_default_calls = 0

        def _xpos(self):
            return [self.expat.CurrentLineNumber, self.expat.CurrentColumnNumber]

        def new_batch(self, more):
            if more:
                self.cur = []
                self.reads.append(self.cur)
            else:
                self.cur = self.closeb

        def _build_foreign(self, *a):
            self.in_dtd += 1
            try:
                return gi.XMLParser._build_foreign(self, *a)
            finally:
                self.in_dtd -= 1

        def _handle_start(self, tag, attrib):
            self.cur.append(['se', tag, [[attrib[i], attrib[i + 1]] for i in range(0, len(attrib), 2)]] + self._xpos())
            return gi.XMLParser._handle_start(self, tag, attrib)

        def _handle_end(self, tag):
            self.cur.append(['ee', tag] + self._xpos())
            return gi.XMLParser._handle_end(self, tag)

        def _handle_data(self, text):
            self.cur.append(['cd', text] + self._xpos())
            return gi.XMLParser._handle_data(self, text)

        def _handle_xml_decl(self, version, encoding, standalone):
            self.cur.append(['xd', version, encoding, standalone] + self._xpos())
            return gi.XMLParser._handle_xml_decl(self, version, encoding, standalone)

        def _handle_doctype(self, name, sysid, pubid, has_internal_subset):
            self.cur.append(['dt', name, sysid, pubid, bool(has_internal_subset)] + self._xpos())
            return gi.XMLParser._handle_doctype(self, name, sysid, pubid, has_internal_subset)

        def _handle_start_ns(self, prefix, uri):
            self.cur.append(['ns', prefix, uri] + self._xpos())
            return gi.XMLParser._handle_start_ns(self, prefix, uri)

        def _handle_end_ns(self, prefix):
            self.cur.append(['ens', prefix] + self._xpos())
            return gi.XMLParser._handle_end_ns(self, prefix)

        def _handle_start_cdata(self):
            self.cur.append(['sc'] + self._xpos())
            return gi.XMLParser._handle_start_cdata(self)

        def _handle_end_cdata(self):
            self.cur.append(['ec'] + self._xpos())
            return gi.XMLParser._handle_end_cdata(self)

        def _handle_pi(self, target, data):
            self.cur.append(['pi', target, data] + self._xpos())
            return gi.XMLParser._handle_pi(self, target, data)

        def _handle_comment(self, text):
            self.cur.append(['cm', text] + self._xpos())
            return gi.XMLParser._handle_comment(self, text)

        def _handle_other(self, text):
            if self.in_dtd:
                # the 252 declarations of genshi's own foreign DTD pass through here too; none starts with '&'
                self.dtd_default_calls += 1
                if text.startswith('&'):
                    self.cur.append(['df', text, self.expat.CurrentLineNumber, self.expat.CurrentColumnNumber])
            else:
                self.cur.append(['df', text, self.expat.CurrentLineNumber, self.expat.CurrentColumnNumber])
            try:
                return gi.XMLParser._handle_other(self, text)
            except BaseException:
                self.layer_raised = True
                raise

    class FakeExpat(object):
        def __init__(self, owner, script):
            self.owner, self.script = owner, script
            self.k = 0
            self.CurrentLineNumber = 1
            self.CurrentColumnNumber = 0
            # what pyexpat shows after a handler (or anything else that is not Expat's own) raised: "parsing aborted"
            self.ErrorCode = expat.errors.codes[expat.errors.XML_ERROR_ABORTED]
            self.ErrorLineNumber = 1
            self.ErrorColumnNumber = 0

        def Parse(self, data, final=False):
            if final:
                items = self.script['close']
            else:
                while self.script['reads'][self.k][0] != 't':
                    self.k += 1
                items = self.script['reads'][self.k][1]
                self.k += 1
            o = self.owner
            for it in items:
                k = it[0]
                if k not in ('raise', 'xerr', 'xenc'):
                    self.CurrentLineNumber, self.CurrentColumnNumber = it[-2], it[-1]
                if k == 'se':
                    o._handle_start(it[1], [x for pair in it[2] for x in pair])
                elif k == 'ee':
                    o._handle_end(it[1])
                elif k == 'cd':
                    o._handle_data(it[1])
                elif k == 'xd':
                    o._handle_xml_decl(it[1], it[2], it[3])
                elif k == 'dt':
                    o._handle_doctype(it[1], it[2], it[3], int(it[4]))
                elif k == 'ns':
                    o._handle_start_ns(it[1], it[2])
                elif k == 'ens':
                    o._handle_end_ns(it[1])
                elif k == 'sc':
                    o._handle_start_cdata()
                elif k == 'ec':
                    o._handle_end_cdata()
                elif k == 'pi':
                    o._handle_pi(it[1], it[2])
                elif k == 'cm':
                    o._handle_comment(it[1])
                elif k == 'df':
                    o._handle_other(it[1])
                elif k == 'xerr':
                    e = expat.error('scripted: line %d, column %d' % (it[1], it[2]))
                    e.code, e.lineno, e.offset = 2, it[1], it[2]
                    raise e
                elif k == 'xenc':
                    # pyexpat's unknown-encoding handler failed: Expat stops with UNKNOWN_ENCODING at the XML
                    # declaration and the exception of Python's codec machinery comes out of Parse()
                    self.ErrorCode = expat.errors.codes[expat.errors.XML_ERROR_UNKNOWN_ENCODING]
                    self.ErrorLineNumber, self.ErrorColumnNumber = it[1], it[2]
                    raise [LookupError('unknown encoding: scripted'), ValueError('multi-byte encodings are not supported'),
                           UnicodeError('undefined encoding')][(it[1] + it[2]) % 3]
                elif k == 'raise':
                    raise make_exc(it[1])
                else:
                    raise ValueError(it)

    class SynXSource(object):
        def __init__(self, reads):
            self.reads, self.k = reads, 0

        def read(self, n=-1):
            if self.k >= len(self.reads):
                return ''
            r = self.reads[self.k]
            self.k += 1
            if r[0] == 't':
                return b'x' if (self.k + len(self.reads)) % 2 else 'x'      # a character source or a byte source first
            raise make_exc(r[1])

    class SynXML(gi.XMLParser):
        """genshi's layer driven by a scripted Expat"""

        def __init__(self, script):
            self._c07_script = script
            gi.XMLParser.__init__(self, SynXSource(script['reads']))
            if not isinstance(self.expat, FakeExpat):
                self.expat = FakeExpat(self, script)

        def _create_parser(self, encoding):
            return FakeExpat(self, self._c07_script)

    def syn_xml(script):
        return SynXML(script)

    gi._c07_xml_classes = (RecXML, syn_xml)
    return gi._c07_xml_classes


def record_xml(make_source, encoding=None):
    gi, _ = genshi_mods()
    from xml.parsers import expat
    RecXML, _ = _xml_classes()
    p = RecXML(make_source(), encoding=encoding)
    ev, ex = drain(p)
    reads = [['t', items] for items in p.reads]
    script = {'reads': reads, 'close': p.closeb}
    modelled = True
    if ex is not None and not p.layer_raised:
        ctx = ex.__context__ if isinstance(ex, gi.ParseError) else ex
        if isinstance(ctx, expat.ExpatError):
            item = ['xerr', ctx.lineno, ctx.offset]
        elif (isinstance(ctx, (LookupError, ValueError)) and getattr(p, 'expat', None) is not None
              and p.expat.ErrorCode == expat.errors.codes[expat.errors.XML_ERROR_UNKNOWN_ENCODING]):
            # pyexpat let the exception of Python's codec machinery through; the position is Expat's own
            item = ['xenc', p.expat.ErrorLineNumber, p.expat.ErrorColumnNumber]
        else:
            item = ['raise', type(ctx).__name__, isinstance(ctx, Exception)]
        (p.cur if p.cur is not None else p.closeb).append(item)
    return script, ev, ex, modelled


XML_DECL_ENC = re.compile(r'''^<\?xml[^>]*?encoding\s*=\s*["']([^"']*)["']''')


def xml_bytes(text):
    """the document as a file would hold it: in the encoding its XML declaration names when Python can encode it
    that way, else (no declaration, unknown name, unencodable character) as UTF-8; None for lone surrogates"""
    if has_surrogate(text):
        return None
    m = XML_DECL_ENC.match(text)
    if m:
        try:
            return text.encode(m.group(1))
        except (LookupError, ValueError):      # unknown name, unencodable character, a name that is none (NUL in it)
            pass
    return text.encode('utf-8')


def xml_item_wire(it):
    k = it[0]
    o = lambda x: N if x is None else x
    if k == 'se':
        return [Atom('SE'), it[1], [[n, v] for n, v in it[2]]] + pos_wire(it)
    if k == 'ee':
        return [Atom('EE'), it[1]] + pos_wire(it)
    if k == 'cd':
        return [Atom('CD'), it[1]] + pos_wire(it)
    if k == 'xd':
        return [Atom('XD'), it[1], o(it[2]), Atom(str(int(it[3])))] + pos_wire(it)
    if k == 'dt':
        return [Atom('DT'), it[1], o(it[2]), o(it[3]), B(it[4])] + pos_wire(it)
    if k == 'ns':
        return [Atom('NS'), o(it[1]), o(it[2])] + pos_wire(it)
    if k == 'ens':
        return [Atom('ENS'), o(it[1])] + pos_wire(it)
    if k in ('sc', 'ec'):
        return [Atom(k.upper())] + pos_wire(it)
    if k == 'pi':
        return [Atom('PI'), it[1], it[2]] + pos_wire(it)
    if k == 'cm':
        return [Atom('CM'), it[1]] + pos_wire(it)
    if k == 'df':
        return [Atom('DF'), it[1]] + pos_wire(it)
    if k == 'xerr':
        return [Atom('XERR'), Atom(str(it[1])), Atom(str(it[2]))]
    if k == 'xenc':
        return [Atom('XENC'), Atom(str(it[1])), Atom(str(it[2]))]
    if k == 'raise':
        return [Atom('RAISE'), it[1], B(it[2] if len(it) > 2 else is_exception_name(it[1]))]
    raise ValueError(it)


def callbacks_to_forest(items):
    """the forest Expat walked, rebuilt from its handler calls by the harness's own stack machine
    (wire form of Genshi.Parse.XNode); None when the calls are not the traversal of a forest:
    namespace declarations directly before their element and undone directly after it in reverse
    order, elements balanced, CDATA sections closed, nothing but character data inside them"""
    root = []
    kids = [root]
    open_elems = []
    pending = []
    expect_ens = []
    o = lambda x: N if x is None else x
    i, n = 0, len(items)
    while i < n:
        it = items[i]
        k = it[0]
        if expect_ens:
            if k != 'ens' or it[1] != expect_ens[0]:
                return None
            expect_ens.pop(0)
        elif k == 'ns':
            pending.append([o(it[1]), o(it[2])])
        elif pending and k != 'se':
            return None
        elif k == 'se':
            node = [Atom('E'), it[1], [[a, v] for a, v in it[2]], pending, []]
            kids[-1].append(node)
            kids.append(node[4])
            open_elems.append((it[1], pending))
            pending = []
        elif k == 'ee':
            if not open_elems or open_elems[-1][0] != it[1]:
                return None
            _, decls = open_elems.pop()
            kids.pop()
            expect_ens = [None if d[0] is N else d[0] for d in reversed(decls)]
        elif k == 'cd':
            pieces = []
            while i < n and items[i][0] == 'cd':
                pieces.append(items[i][1])
                i += 1
            kids[-1].append([Atom('CH')] + pieces)
            continue
        elif k == 'sc':
            pieces = []
            i += 1
            while i < n and items[i][0] == 'cd':
                pieces.append(items[i][1])
                i += 1
            if i >= n or items[i][0] != 'ec':
                return None
            kids[-1].append([Atom('CDS')] + pieces)
        elif k == 'cm':
            kids[-1].append([Atom('CM'), it[1]])
        elif k == 'pi':
            kids[-1].append([Atom('PI'), it[1], it[2]])
        elif k == 'xd':
            kids[-1].append([Atom('XD'), it[1], o(it[2]), Atom(str(int(it[3])))])
        elif k == 'dt':
            kids[-1].append([Atom('DT'), it[1], o(it[2]), o(it[3]), B(it[4])])
        elif k == 'df':
            if it[1].startswith('&'):
                return None
            kids[-1].append([Atom('IGN'), it[1], Atom(str(it[2])), Atom(str(it[3]))])
        else:
            return None
        i += 1
    if open_elems or pending or expect_ens:
        return None
    return root


def xml_tree_line(script):
    """request asking the model whether the recorded calls are the traversal `callbacksList` of the
    rebuilt forest (the hypothesis of xml_layer_tree); None when they are not even a forest"""
    if has_surrogate(script):
        return None
    items = [it for r in script['reads'] if r[0] == 't' for it in r[1]] + list(script['close'])
    forest = callbacks_to_forest(items)
    if forest is None:
        return False
    return proto.line(Atom('C07'), Atom('xmltree'), forest, [xml_item_wire(i) for i in items])


def xml_line(script):
    if has_surrogate(script):
        return None
    reads = []
    for r in script['reads']:
        if r[0] == 't':
            reads.append([Atom('T')] + [xml_item_wire(i) for i in r[1]])
        else:
            reads.append([Atom('F'), r[1], B(r[2] if len(r) > 2 else is_exception_name(r[1]))])
    return proto.line(Atom('C07'), Atom('xml'), reads, [xml_item_wire(i) for i in script['close']])


# --------------------------------------------------------------------------
# scripted callback sequences (what no tokenizer need ever produce)

SYN_TAGS = ['a', 'b', 'p', 'br', 'img', 'BR', 'Br', 'A', 'hr', 'input', 'div', '{br', 'x}br', '{u}a', 'a{b', '}', '{', '', 'é', 'É',
            'a\u03a3', 'a\u03c3', 'A\u03c2', '\u03a3', '\u0130', 'i\u0307', '\u01c5', '\u01c6', 'a:b', 'A:B']


def gen_syn_html(rng, tags_ok_only=False):
    def attrs():
        out = []
        for _ in range(rng.choice([0, 0, 1, 2])):
            n = rng.choice(['id', 'checked', 'href', '{x}y', '{z', 'a}b', ''])
            v = rng.choice([None, '', 'v', '&amp;', '&#65;', '&#1114112;', '&junk;', '&lt', 'x&#x110000;', '&#99999999999999999999;'])
            out.append([n, v])
        return out

    def item0():
        r = rng.random()
        tags = [t for t in SYN_TAGS if not t.startswith('{')] if tags_ok_only else SYN_TAGS
        if r < 0.3:
            return ['st', rng.choice(tags), attrs()]
        if r < 0.5:
            return ['et', rng.choice(SYN_TAGS)]
        if r < 0.58:
            return ['se', rng.choice(tags), attrs()]
        if r < 0.75:
            return ['d', rng.choice(['', 'x', 'text', ' ', '<', '&amp;', 'é\U0001F600', '\x00'])]
        if r < 0.8:
            return ['c', rng.choice(['', ' c ', '--'])]
        if r < 0.87:
            return ['pi', rng.choice(['', '?', 'php echo 1 ?', 'x', ' x  y z ', 'a?', '\xa0a\x85b c d', 'a\x1fb', ' ', '\t\n', 'x ?', 'x y?'])]
        if r < 0.91:
            return ['cr', rng.choice(['65', 'x41', 'X41', '0', '1114111', '1114112', 'x110000', '99999999999', 'x', '', 'xg', '6_5', ' 65', '+65', '٣', 'xD7FF', '9' * 30])]
        if r < 0.95:
            return ['er', rng.choice(['amp', 'nbsp', 'junk', 'AMP', '', 'lt', 'hellip'])]
        if r < 0.97:
            return ['decl', rng.choice(['DOCTYPE html', 'x'])]
        return ['raise', rng.choice(['ValueError', 'AssertionError', 'RecursionError', 'NotAnException'])]

    def item():
        it = item0()
        return it if it[0] == 'raise' else it + [rng.randrange(1, 60), rng.randrange(0, 200)]

    reads = []
    for _ in range(rng.choice([0, 1, 1, 2, 3, 4])):
        r = rng.random()
        if r < 0.9:
            reads.append(['t', [item() for _ in range(rng.choice([0, 1, 2, 3, 5, 8]))]])
        elif r < 0.95:
            reads.append(['b'])
        else:
            reads.append(['f', rng.choice(['OSError', 'UnicodeDecodeError', 'NotAnException'])])
    return {'reads': reads, 'close': [item() for _ in range(rng.choice([0, 0, 1, 2]))]}


def syn_html_modelled(script):
    """inside the fragment of int() the model implements for handle_charref"""
    for items in [r[1] for r in script['reads'] if r[0] == 't'] + [script['close']]:
        for it in items:
            if it[0] == 'cr':
                nme = it[1]
                if not re.fullmatch(r'[0-9]+|[xX][0-9a-fA-F]+', nme, re.A):
                    return False
                v = int(nme[1:], 16) if nme[0] in 'xX' else int(nme)
                if 0xd800 <= v <= 0xdfff:
                    return False
    return True


def run_syn_html(script):
    _, SynHTML, _ = _html_classes()
    return drain(SynHTML(script))


def gen_syn_xml(rng):
    names = ['a', 'u}a', 'b', 'http://www.w3.org/1999/xhtml}p', 'u}v}w', '{a', '}', '']

    def item0():
        r = rng.random()
        if r < 0.22:
            return ['se', rng.choice(names), [[rng.choice(names), rng.choice(['', 'v', 'é'])] for _ in range(rng.choice([0, 0, 1, 2]))]]
        if r < 0.4:
            return ['ee', rng.choice(names)]
        if r < 0.6:
            return ['cd', rng.choice(['', 'x', 'a\nb', '\n', 'é', ' ', 'a\r\nb\n', 'x\x85y\n', '\u2028\n\n', 'a\rb', 'abc\x0bdef'])]
        if r < 0.64:
            return ['xd', '1.0', rng.choice([None, 'utf-8']), rng.choice([-1, 0, 1])]
        if r < 0.68:
            return ['dt', 'a', rng.choice([None, 's']), rng.choice([None, 'p']), rng.random() < 0.5]
        if r < 0.74:
            return ['ns', rng.choice([None, 'p', '']), rng.choice([None, 'u', ''])]
        if r < 0.8:
            return ['ens', rng.choice([None, 'p', ''])]
        if r < 0.83:
            return [rng.choice(['sc', 'ec'])]
        if r < 0.87:
            return ['pi', 't', rng.choice(['', 'd'])]
        if r < 0.9:
            return ['cm', rng.choice(['', ' c '])]
        if r < 0.97:
            return ['df', rng.choice(['&nbsp;', '&junk;', '&amp;', '&', '&;', 'x', '', '<!ENTITY', '&eacute;', '&Eacute;', '&nbsp', '&&nbsp;;']), rng.randrange(1, 9), rng.randrange(0, 80)]
        if r < 0.98:
            return ['xerr', rng.randrange(1, 9), rng.randrange(0, 80)]
        if r < 0.99:
            return ['xenc', rng.randrange(1, 9), rng.randrange(0, 80)]
        return ['raise', rng.choice(['ValueError', 'NotAnException', 'KeyError', 'UnicodeDecodeError', 'OSError'])]

    def item():
        it = item0()
        return it if it[0] in ('raise', 'xerr', 'xenc', 'df') else it + [rng.randrange(1, 60), rng.randrange(0, 200)]

    reads = []
    for _ in range(rng.choice([0, 1, 1, 2, 3])):
        if rng.random() < 0.93:
            reads.append(['t', [item() for _ in range(rng.choice([0, 1, 2, 3, 5, 8]))]])
        else:
            reads.append(['f', rng.choice(['OSError', 'NotAnException'])])
    return {'reads': reads, 'close': [item() for _ in range(rng.choice([0, 0, 1, 2]))]}


def run_syn_xml(script):
    _, syn_xml = _xml_classes()
    return drain(syn_xml(script))


def balanced_prefix(cevs):
    """no END without its START so far (the delivered part of a failing parse)"""
    stack = []
    for c in cevs:
        if c[0] == 'S':
            stack.append(c[1])
        elif c[0] == 'E':
            if not stack or stack[-1] != c[1]:
                return False
            stack.pop()
    return True


# --------------------------------------------------------------------------
# case generation

def mutate(rng, text):
    n = len(text)
    if n == 0:
        return text
    r = rng.random()
    i = rng.randrange(n)
    if r < 0.3:
        return text[:i] + text[i + 1:]
    if r < 0.5:
        return text[:i] + rng.choice('<>&"\'/=![]-?;#x a\x00') + text[i:]
    if r < 0.6:
        j = rng.randrange(n)
        i, j = min(i, j), max(i, j)
        return text[:i] + text[j:]
    if r < 0.75:
        return text[:i]
    if r < 0.85:
        j = min(n, i + rng.randrange(1, 12))
        return text[:j] + text[i:]
    j = rng.randrange(n)
    l = list(text)
    l[i], l[j] = l[j], l[i]
    return ''.join(l)


def straddle_text(rng):
    """a document whose UTF-8 form has a multi-byte character lying across a multiple of the 4096-byte read buffer:
    in character data, in an attribute value, in a comment, in a processing instruction or in a tag name"""
    ch = rng.choice(['\xe9', '\u20ac', '\u3000', '\U0001d400', '\u03a3', '\xa0'])
    opener, closer = rng.choice([('', ''), ('<a title="v', '">t</a>'), ('<!-- c', ' -->'), ('<?php ', ' x ?>'), ('<x', ' y>z</x>'), ('&amp;', ';')])
    m = rng.choice([1, 1, 2])
    k = rng.randrange(1, len(ch.encode('utf-8')))          # bytes of the character before the boundary
    fill = 4096 * m - k - len(opener) - 3
    return '<p>' + rng.choice(['x', 'q', ' ']) * fill + opener + ch + closer + G.soup(rng, 3)


def gen_cases(rng, n, big=1):
    cases = []
    for _ in range(n):
        r = rng.random()
        if r < 0.30:
            c = {'kind': 'html', 'text': G.soup(rng)}
            if rng.random() < 0.2:
                c['sched'] = [rng.choice([1, 2, 3, 5, 7, 34, 35]) for _ in range(rng.randrange(1, 6))]
            if rng.random() < 0.15:
                c['encodings'] = ['utf-8', 'utf-16', 'latin-1']
            if len(c['text']) <= 60 and rng.random() < 0.3:
                c['splits'] = True
            cases.append(c)
        elif r < 0.32:
            doc = G.valid_html_doc(rng)
            cases.append({'kind': 'html', 'text': doc[:rng.randrange(len(doc) + 1)]})
        elif r < 0.40:
            c = {'kind': 'html', 'text': G.pressure_html(rng)}
            if len(c['text']) <= 60:
                c['splits'] = True
            cases.append(c)
        elif r < 0.44:
            cases.append({'kind': 'html', 'text': ''.join(G.rand_char(rng) for _ in range(rng.randrange(0, 30)))})
        elif r < 0.47:
            data = G.soup(rng).encode(rng.choice(['utf-8', 'utf-8', 'latin-1', 'utf-16']), 'replace')
            if rng.random() < 0.6 and data:
                i = rng.randrange(len(data))
                data = data[:i] + bytes([rng.randrange(0x80, 0x100)]) + data[i + rng.choice([0, 1]):]
            cases.append({'kind': 'html-bytes', 'hex': data.hex(), 'encoding': rng.choice(['utf-8', 'utf-8', 'ascii', 'utf-16', 'latin-1'])})
        elif r < 0.60:
            cases.append({'kind': 'syn-html', 'script': gen_syn_html(rng)})
        elif r < 0.78:
            cases.append({'kind': 'xml-tree', 'doc': G.gen_xml_tree(rng), 'wseed': rng.randrange(1 << 30)})
        elif r < 0.90:
            doc = G.gen_xml_tree(rng)
            text = G.write_xml(doc, random.Random(rng.randrange(1 << 30)))
            if rng.random() < 0.35:
                text = text[:rng.randrange(len(text) + 1)]
            else:
                for _ in range(rng.choice([1, 1, 2])):
                    text = mutate(rng, text)
            if rng.random() < 0.04 and text:
                i = rng.randrange(len(text))
                text = text[:i] + rng.choice(['\ud800', '\udfff', '\udc00\ud800']) + text[i:]      # not a character
            if in_attr_entity_zone(text):
                continue
            cases.append({'kind': 'xml-text', 'text': text})
        else:
            cases.append({'kind': 'syn-xml', 'script': gen_syn_xml(rng)})
    for _ in range(big):
        cases.append({'kind': 'html', 'text': G.big_html(rng, rng.choice([4090, 4200, 8300, 12400]))})
        # a multi-byte character across the 4096-byte read: the codec reader has to keep the incomplete bytes
        text = straddle_text(rng)
        cases.append({'kind': 'html', 'text': text, 'straddle': True})
        cases.append({'kind': 'html-bytes', 'hex': text.encode('utf-8').hex(), 'encoding': 'utf-8', 'sizes': [4096], 'straddle': True})
        cases.append({'kind': 'html', 'text': G.boundary_html(rng, rng.choice([4096, 4096, 8192]))})
        doc = G.gen_xml_tree(rng)
        filler = {'k': 'e', 'name': ['', 'filler'], 'ns': [], 'attrs': [], 'kids': [
            {'k': 't', 'pieces': [['raw', 'é' * rng.randrange(1, 40)], ['raw', 'x' * rng.choice([4000, 4090, 8100])], ['ent', 'nbsp', '\xa0']]}]}
        doc['root']['kids'].insert(rng.randrange(len(doc['root']['kids']) + 1), filler)
        cases.append({'kind': 'xml-tree', 'doc': doc, 'wseed': rng.randrange(1 << 30)})
    return cases


def prefix_cases(rng, ndocs):
    """every prefix of valid documents"""
    cases = []
    for _ in range(ndocs):
        if rng.random() < 0.5:
            doc = G.valid_html_doc(rng)
            for i in range(len(doc) + 1):
                cases.append({'kind': 'html', 'text': doc[:i], 'light': True})
        else:
            tree = G.gen_xml_tree(rng)
            text = G.write_xml(tree, random.Random(rng.randrange(1 << 30)))
            if len(text) > 600:
                continue
            for i in range(len(text) + 1):
                if not in_attr_entity_zone(text[:i]):
                    cases.append({'kind': 'xml-text', 'text': text[:i], 'light': True})
    return cases


# --------------------------------------------------------------------------
# one case: oracle + what to send to the model

HTML_ARITY = {'st': 5, 'se': 5, 'et': 4, 'd': 4, 'c': 4, 'pi': 4, 'cr': 4, 'er': 4, 'decl': 4}
XML_ARITY = {'se': 5, 'ee': 4, 'cd': 4, 'xd': 6, 'dt': 7, 'ns': 5, 'ens': 4, 'sc': 3, 'ec': 3, 'pi': 5, 'cm': 4, 'df': 4, 'xerr': 3, 'xenc': 3}


def valid_script(script, arity):
    """shape check (the shrinker cuts lists blindly; a mangled script is not a case)"""
    def item_ok(it):
        if not (isinstance(it, list) and it and isinstance(it[0], str)):
            return False
        if it[0] == 'raise':
            return len(it) >= 2 and it[1] in EXC
        if arity.get(it[0]) != len(it):
            return False
        if it[0] not in ('xerr', 'xenc') and not (isinstance(it[-1], int) and isinstance(it[-2], int)):
            return False
        if it[0] in ('st', 'se') and arity is HTML_ARITY:
            return isinstance(it[1], str) and all(isinstance(a, list) and len(a) == 2 and isinstance(a[0], str) for a in it[2])
        if it[0] == 'se':
            return isinstance(it[1], str) and all(isinstance(a, list) and len(a) == 2 for a in it[2])
        return True
    if not (isinstance(script, dict) and isinstance(script.get('reads'), list) and isinstance(script.get('close'), list)):
        return False
    for r in script['reads']:
        if not (isinstance(r, list) and r):
            return False
        if r[0] == 't':
            if not (len(r) == 2 and isinstance(r[1], list) and all(item_ok(i) for i in r[1])):
                return False
        elif r[0] == 'b':
            if len(r) != 1 or arity is not HTML_ARITY:
                return False
        elif r[0] == 'f':
            if not (len(r) >= 2 and r[1] in EXC):
                return False
        else:
            return False
    return all(item_ok(i) for i in script['close'])


def oracle_syn_html(case):
    gi, _ = genshi_mods()
    script = case['script']
    if not valid_script(script, HTML_ARITY):
        return None
    ev, ex = run_syn_html(script)
    want_propagate = first_non_exception(script)
    if ex is not None and not isinstance(ex, gi.ParseError):
        if not (want_propagate and isinstance(ex, NotAnException)):
            return fail(case, 'scripted tokenizer: only ParseError may escape (every Exception raised below the layer is converted)', 'ParseError or a stream', 'Other:' + type(ex).__name__)
        return None
    cevs = [cev(e) for e in ev]
    if ex is None:
        s = check_stream(cevs, void_clause=tags_ok(script))
        if s:
            return fail(case, 'scripted tokenizer: stream is well nested, void elements closed at once, text merged, nothing left open', 'well-formed stream', s)
    elif not balanced_prefix(cevs):
        return fail(case, 'scripted tokenizer: events delivered before a ParseError never close an element that is not open', 'balanced prefix', trim(cevs))
    return None


def first_non_exception(script):
    for r in script['reads']:
        if r[0] == 'f' and not is_exception_name(r[1]):
            return True
        if r[0] == 't':
            for it in r[1]:
                if it[0] == 'raise' and not is_exception_name(it[1]):
                    return True
    return any(it[0] == 'raise' and not is_exception_name(it[1]) for it in script['close'])


def oracle_syn_xml(case):
    gi, _ = genshi_mods()
    script = case['script']
    if not valid_script(script, XML_ARITY):
        return None
    ev, ex = run_syn_xml(script)
    cevs = [cev(e) for e in ev]
    for a, b in zip(cevs, cevs[1:]):
        if a[0] == 'T' and b[0] == 'T':
            return fail(case, 'scripted Expat: adjacent text is merged', 'no two adjacent TEXT events', trim(cevs))
    return None


def oracle_case(case):
    k = case['kind']
    if k == 'html':
        if case.get('light'):
            gi, _ = genshi_mods()
            try:
                ev, ex = list(gi.HTML(case['text'])), None
            except BaseException as e2:   # noqa
                ev, ex = [], e2
            return oracle_html_events(case, ev, ex, 'HTML(text)')
        return oracle_html(case)
    if k == 'html-bytes':
        return oracle_html_bytes(case)
    if k == 'xml-tree':
        return oracle_xml_tree(case)
    if k == 'xml-text':
        return oracle_xml_text(case)
    if k == 'syn-html':
        return oracle_syn_html(case)
    if k == 'syn-xml':
        return oracle_syn_xml(case)
    if k == 'raw':
        return oracle_raw(case)
    if k == 'env':
        return None      # correspondence only: str.lower / stripentities against their models
    raise ValueError(k)


def oracle_raw(case):
    """known-finding replays: a Python expression over the parser API evaluated on the real code.
    `expect` states what the property demands: 'ParseError' (the expression must raise it), 'equal'
    (the expression gives two event sequences that must be the same), or a list of canonical events."""
    gi, _ = genshi_mods()
    env = {'XML': gi.XML, 'HTML': gi.HTML, 'XMLParser': gi.XMLParser, 'HTMLParser': gi.HTMLParser,
           'BytesIO': io.BytesIO, 'StringIO': io.StringIO, 'ChunkReader': G.ChunkReader}
    env.update(case.get('vars', {}))
    want = case['expect']
    try:
        r = eval(case['expr'], env)
        if want == 'equal':
            x, y = r
            got = ['ok', [cev(e) for e in x], [cev(e) for e in y]]
        else:
            got = ['ok', [cev(e) for e in r]]
    except BaseException as e:   # noqa
        if isinstance(e, (KeyboardInterrupt, SystemExit)):
            raise
        got = ['ParseError', e.lineno, e.offset] if isinstance(e, gi.ParseError) else ['Other:' + type(e).__name__, str(e)[:120]]
    if want == 'ParseError':
        ok = got[0] == 'ParseError'
    elif want == 'equal':
        ok = got[0] == 'ok' and got[1] == got[2]
    else:
        ok = got[0] == 'ok' and got[1] == want
    if not ok:
        return fail(case, case.get('what', 'documented outcome'), want, trim(got))
    return None


def model_jobs(case):
    """[(request line, real answer in wire form)] for the correspondence; [] when nothing to compare"""
    gi, _ = genshi_mods()
    k = case['kind']
    jobs = []
    if k == 'html':
        text = case['text']
        plans = [('sio', lambda: io.StringIO(text))]
        if not case.get('light'):
            sizes = [1, 7] if len(text) < 3000 else [7, 4095, 4096, 4097]
            for s in sizes[:2] if len(text) < 3000 else sizes:
                plans.append(('chunk%d' % s, (lambda s_: (lambda: G.ChunkReader(text, s_)))(s)))
        for label, mk in plans:
            script, ev, ex = record_html(mk)
            jobs.append(('html-recorded', script, html_line(script), outcome_wire(ev, ex), tags_ok(script)))
    elif k == 'html-bytes':
        data = bytes.fromhex(case['hex'])
        script, ev, ex = record_html(lambda: io.BytesIO(data), encoding=case['encoding'])
        jobs.append(('html-recorded-bytes', script, html_line(script), outcome_wire(ev, ex), tags_ok(script)))
        script, ev, ex = record_html(lambda: io.BytesIO(data), encoding=None)
        jobs.append(('html-recorded-bytes', script, html_line(script), outcome_wire(ev, ex), tags_ok(script)))
    elif k == 'syn-html':
        script = case['script']
        ev, ex = run_syn_html(script)
        line = html_line(script) if syn_html_modelled(script) else None
        jobs.append(('html-scripted', script, line, outcome_wire(ev, ex), True))
    elif k in ('xml-tree', 'xml-text'):
        text = G.write_xml(case['doc'], random.Random(case.get('wseed', 0))) if k == 'xml-tree' else case['text']
        # a character source (no `encoding` argument: the parser finds out by itself), the same in small chunks the way
        # XML() passes it, and the bytes of the document in the encoding its declaration names (also an unknown one)
        plans = [(lambda: io.StringIO(text), None), (lambda: G.ChunkReader(text, 7 if len(text) < 3000 else 4095), 'utf-8')]
        data = xml_bytes(text)
        if data is not None:
            plans.append((lambda: io.BytesIO(data), None))
        if case.get('light'):
            plans = [plans[len(text) % len(plans)]]      # every prefix of a document: one kind of source each
        elif len(plans) == 3:
            plans = [plans[0], plans[1 + len(text) % 2]]
        for mk, enc in plans:
            script, ev, ex, modelled = record_xml(mk, encoding=enc)
            jobs.append(('xml-recorded', script, xml_line(script) if modelled else None, outcome_wire(ev, ex), True))
            if ex is None and modelled:
                # Expat's side of xml_layer_tree: for a document it accepts, its calls are a forest traversal
                tl = xml_tree_line(script)
                if tl is False:
                    jobs.append(('expat-contract', script, None, [[], Atom('ok')], False))
                elif tl is not None:
                    jobs.append(('expat-contract', script, tl, Atom('T'), True))
    elif k == 'syn-xml':
        script = case['script']
        ev, ex = run_syn_xml(script)
        jobs.append(('xml-scripted', script, xml_line(script), outcome_wire(ev, ex), True))
    return jobs


def script_stats(res, stream, script):
    nb = len([r for r in script['reads'] if r[0] == 't'])
    res.count('%s:batches:%s' % (stream, '0' if nb == 0 else '1' if nb == 1 else '2-9' if nb < 10 else '10+'))
    batches = [r[1] for r in script['reads'] if r[0] == 't'] + [script['close']]
    for items in batches:
        for it in items:
            res.count('%s:cb:%s' % (stream, it[0]))
    if not stream.startswith('html'):
        return
    # shapes the tie should see often enough (counted per script)
    shapes = set()
    open_tags = []
    for bi, items in enumerate(batches):
        if items and bi == len(batches) - 1:
            shapes.add('close-batch-makes-callbacks')
        if items and bi + 1 < len(batches) and batches[bi + 1] and items[-1][0] == 'd' and batches[bi + 1][0][0] == 'd':
            shapes.add('text-cut-at-batch-boundary')
        if items and bi + 1 < len(batches) - 1 and batches[bi + 1] and items[-1][0] == 'd' and batches[bi + 1][0][0] in ('st', 'se', 'et', 'c', 'pi', 'decl'):
            shapes.add('markup-begins-a-batch-after-text')
        for it in items:
            k = it[0]
            if k in ('st', 'se'):
                for n, _ in it[2]:
                    if '{' in n or '}' in n:
                        shapes.add('attr-name-with-brace')
                    if ':' in n:
                        shapes.add('attr-name-with-colon')
                if '{' in it[1] or '}' in it[1] or ':' in it[1]:
                    shapes.add('tag-name-with-brace-or-colon')
            if k == 'se' and it[1] not in VOID:
                shapes.add('selfclosing-nonvoid')
                if it[1].lower() in [t.lower() for t in open_tags]:
                    shapes.add('selfclosing-nonvoid-in-same-named-ancestor')
            if k == 'st' and it[1] not in VOID:
                if it[1].lower() in [t.lower() for t in open_tags]:
                    shapes.add('starttag-in-same-named-ancestor')
                open_tags.append(it[1])
            elif k == 'et' and it[1] not in VOID:
                low = [t.lower() for t in open_tags]
                if it[1].lower() in low:
                    i = len(low) - 1 - low[::-1].index(it[1].lower())
                    if i != len(low) - 1:
                        shapes.add('endtag-closes-several')
                    del open_tags[i:]
                else:
                    if open_tags:
                        shapes.add('endtag-without-match-closes-all')
                    open_tags = []
    if open_tags:
        shapes.add('left-open-at-end')
    res.count('%s:scripts' % stream)
    for sh in shapes:
        res.count('%s:shape:%s' % (stream, sh))


def nontrivial_key(case):
    txt = json.dumps(case, sort_keys=True, ensure_ascii=True)
    if len(txt) > 300:
        import hashlib
        txt = case['kind'] + ':' + hashlib.sha1(txt.encode()).hexdigest()
    return txt


_HUNG = False


def process(cases, res, do_oracle=True):
    pending = []
    for c in cases:
        res.evaluations += 1
        res.count('kind:' + c['kind'])
        global _HUNG
        try:
            # termination is part of the property ("total"): a parse that does not come back is a failure with this
            # input (after the first one the limit drops, so that a change that hangs on everything still ends the check)
            with deadline(5 if _HUNG else 120):
                f = oracle_case(c) if do_oracle else None
                jobs = list(model_jobs(c))
        except Hang as ex:
            _HUNG = True
            res.count('hang')
            res.failures.append(fail(c, 'the parser terminates', 'a stream or ParseError', 'does not terminate: %s' % ex))
            continue
        if f:
            res.failures.append(f)
        for stream, script, line, real, tok in jobs:
            script_stats(res, stream, script)
            if not tok:
                res.count('tokenizer-contract-broken')
                what = ('tokenizer contract: Expat\'s handler calls for a document it accepted are not the traversal of a forest'
                        if stream == 'expat-contract' else
                        'tokenizer contract: html.parser passed a tag name beginning with a brace to handle_starttag')
                res.failures.append(fail(c, what, 'contract holds', trim(script)))
            if stream == 'expat-contract':
                if line is not None:
                    pending.append((stream, c, line, real))
                continue
            if real[1] != 'ok':
                res.count('%s:outcome:%s' % (stream, real[1][0]))
            else:
                res.count('%s:outcome:ok' % stream)
                if len(real[0]) >= 3:
                    res.nontrivial.add(nontrivial_key(c))
            if line is None:
                res.count('%s:no-model-counterpart' % stream)
                continue
            pending.append((stream, c, line, real))
            if stream.startswith('html'):
                for st2, arg, line2, real2 in env_jobs(script):
                    pending.append((st2, {'kind': 'env', 'fn': st2, 'arg': arg}, line2, real2))
    for k_, v_ in STATS.items():
        res.count(k_, v_)
    STATS.clear()
    answers = proto.run_lines([p[2] for p in pending])
    for (stream, c, line, real), ans in zip(pending, answers):
        if ans == 'unmodelled':
            res.count('%s:model-unmodelled' % stream)
            continue
        try:
            model = proto.dec(ans)
        except Exception:   # noqa
            model = Atom(ans)
        res.streams[stream] = res.streams.get(stream, 0) + 1
        if model != real:
            res.disagreements.append({'stream': stream, 'case': c, 'model': repr(model)[:600], 'real': repr(real)[:600]})


def process_env(jobs, res):
    answers = proto.run_lines([j[2] for j in jobs])
    for (stream, arg, line, real), ans in zip(jobs, answers):
        res.evaluations += 1
        try:
            model = proto.dec(ans)
        except Exception:   # noqa
            model = Atom(ans)
        res.streams[stream] = res.streams.get(stream, 0) + 1
        if stream == 'env-qname':
            res.count('env-qname:' + ('leading-braces-and-separator' if arg.startswith('{{') and '}' in arg else
                                      'separator-in-local-part' if arg.lstrip('{').count('}') > 1 else
                                      'namespaced' if '}' in arg else 'plain'))
        elif stream == 'env-pi':
            body = arg[:-1] if arg.endswith('?') else arg
            res.count('env-pi:' + ('qmark' if arg.endswith('?') else 'no-qmark') + ':' +
                      ('empty-target' if not body.strip() else 'no-data' if len(body.split(None, 1)) < 2 else 'target-and-data'))
            if any(ch.isspace() and ch not in ' \t\n\r' for ch in arg):
                res.count('env-pi:non-ascii-or-control-space')
        elif stream == 'env-lower':
            res.count('env-lower:' + ('sigma-final' if '\u03c2' in real and '\u03a3' in arg else 'sigma' if '\u03a3' in arg else
                                      'changed' if real != arg else 'unchanged'))
        else:
            res.count('env-strip:' + ('changed' if real != [Atom('ok'), arg] else 'unchanged'))
        if model != real:
            res.disagreements.append({'stream': stream, 'case': {'kind': 'env', 'fn': stream, 'arg': arg}, 'model': repr(model)[:600], 'real': repr(real)[:600]})


def shard(arg):
    seed, idx, n, nprefix, big = arg
    rng = random.Random('%s/%s/C07' % (seed, idx))
    res = Result()
    cases = gen_cases(rng, n, big)
    cases += prefix_cases(rng, nprefix)
    process(cases, res)
    res.count('gen:multibyte-char-across-4096-byte-read', sum(1 for c in cases if c.get('straddle')))
    process_env(gen_env_jobs(rng, max(20, n // 4)), res)
    res.samples = [c for c in cases if c['kind'] in ('html', 'xml-text') and len(json.dumps(c)) < 300][:2]
    return res


EXH_HTML = [['st', 'a', []], ['st', 'br', [['x', None]]], ['st', 'B', [['h', '&amp;#1114112;']]], ['et', 'a'], ['et', 'b'], ['et', 'br'],
            ['se', 'p', []], ['d', 'x'], ['d', ''], ['c', 'k'], ['pi', 't d'], ['er', 'nbsp'], ['raise', 'ValueError']]
EXH_XML = [['se', 'u}a', [['b', 'v']]], ['ee', 'u}a'], ['cd', 'x'], ['cd', 'y\n'], ['ns', None, 'u'], ['ens', None], ['sc'], ['ec'],
           ['df', '&nbsp;', 2, 3], ['df', '&junk;', 4, 5], ['df', ' ', 6, 7], ['xerr', 8, 9], ['xenc', 1, 30]]


def exhaustive_shard(arg):
    """every callback sequence of length <= L over a small alphabet, in one batch and cut into two
    batches at every place, through the real layer (scripted tokenizer) and the model"""
    import itertools
    idx, nshards, L = arg
    res = Result()
    cases = []
    i = 0
    for kind, alphabet in (('syn-html', EXH_HTML), ('syn-xml', EXH_XML)):
        for n in range(L + 1):
            for tup in itertools.product(range(len(alphabet)), repeat=n):
                i += 1
                if i % nshards != idx:
                    continue
                items = []
                for j, a in enumerate(tup):
                    it = list(alphabet[a])
                    if it[0] not in ('raise', 'xerr', 'xenc', 'df'):
                        it = it + [j + 1, 3 * j]
                    items.append(it)
                cuts = [None] + list(range(1, n))
                for cut in cuts[:1 + (i % 3 == 0) * len(cuts)]:
                    reads = [['t', items]] if cut is None else [['t', items[:cut]], ['t', items[cut:]]]
                    cases.append({'kind': kind, 'script': {'reads': reads, 'close': []}})
                if n and i % 5 == 0:
                    cases.append({'kind': kind, 'script': {'reads': [['t', items[:-1]]], 'close': items[-1:]}})
    process(cases, res)
    res.count('exhaustive-scripted-sequences', len(cases))
    return res


FIXED = [
    {'kind': 'html', 'text': ''},
    {'kind': 'html', 'text': '<p>a<br>b</i>c'},
    {'kind': 'html', 'text': '<![foo[x]]>'},
    {'kind': 'html', 'text': '<a href="&amp;#1114112;">x'},
    {'kind': 'html', 'text': '<a href="&amp;#x110000;">x'},
    {'kind': 'html', 'text': '<a title="&amp;#99999999999999999999;">'},
    {'kind': 'html', 'text': '<UL compact><LI>Foo</UL>'},
    {'kind': 'html', 'text': '<o{p}q><br/></br></O{P}Q>'},
    {'kind': 'html', 'text': '<script>a<b</script><p>x'},
    {'kind': 'html', 'text': '<p>\ud800</p>'},
    {'kind': 'html-bytes', 'hex': '3c703ee93c2f703e', 'encoding': 'utf-8'},
    {'kind': 'html-bytes', 'hex': '3c703e78', 'encoding': 'utf-16'},
    {'kind': 'xml-text', 'text': ''},
    {'kind': 'xml-text', 'text': '<a>&junk;</a>'},
    {'kind': 'xml-text', 'text': '<a>\n\n &junk;</a>'},
    {'kind': 'xml-text', 'text': '<a>&nbsp;</a>'},
    {'kind': 'xml-text', 'text': '<!DOCTYPE a [<!ENTITY foo "bar">]><a b="&foo;">&foo;</a>'},
    {'kind': 'xml-text', 'text': '<a xmlns="u"><b xmlns=""/></a>'},
    {'kind': 'xml-text', 'text': '<a><b></a></b>'},
    {'kind': 'xml-text', 'text': '<a>x</a><b/>'},
    {'kind': 'xml-text', 'text': '<a xmlns:p="u"><q:b/></a>'},
    {'kind': 'xml-text', 'text': '<a>\ud800</a>'},
    {'kind': 'xml-text', 'text': '<a>\n\n  x\udfff</a>'},
    {'kind': 'xml-text', 'text': '<a b="\ud800"/>'},
    {'kind': 'xml-text', 'text': '<?xml version="1.0" encoding="uf-8"?>\n<a>\xe9</a>'},
    {'kind': 'xml-text', 'text': '<?xml version="1.0" encoding="shift_jis"?><a>x</a>'},
    {'kind': 'xml-text', 'text': '<?xml version="1.0" encoding="iso-8859-1"?><a>\xe9</a>'},
    {'kind': 'xml-text', 'text': '<?xml version="1.0" encoding="utf-16"?><a>\xe9\u20ac</a>'},
    {'kind': 'xml-text', 'text': '<!DOCTYPE a [<!ENTITY e SYSTEM "f">]>\n<a>x&e;y&nbsp;</a>'},
    {'kind': 'xml-text', 'text': '<!DOCTYPE a [<!ENTITY e SYSTEM "f">]>\n<a b="&e;"/>'},
    {'kind': 'xml-text', 'text': '<!DOCTYPE a SYSTEM "x.dtd" [<!ENTITY e PUBLIC "p" "f">]><a>&e;</a>'},
    {'kind': 'syn-html', 'script': {'reads': [['t', [['st', 'a\u03a3', [], 1, 0], ['st', 'b', [['h', '&#x110000;&amp;&junk;']], 1, 4], ['et', 'A\u03c2', 1, 9], ['d', 'x', 1, 14]]]], 'close': []}},
    {'kind': 'syn-html', 'script': {'reads': [['t', [['st', 'a\u03c3', [], 1, 0], ['st', 'b', [], 1, 4], ['et', 'A\u03a3', 1, 9]]]], 'close': []}},
    {'kind': 'syn-xml', 'script': {'reads': [['t', [['xd', '1.0', 'uf-8', -1, 1, 0], ['xenc', 1, 30]]]], 'close': []}},
    {'kind': 'syn-html', 'script': {'reads': [['t', [['st', '{br', [], 1, 0], ['d', 'x', 1, 5]]]], 'close': []}},
    {'kind': 'syn-html', 'script': {'reads': [['t', [['st', 'BR', [], 1, 0], ['et', 'br', 1, 4], ['et', 'Br', 2, 0]]]], 'close': []}},
    {'kind': 'syn-html', 'script': {'reads': [['t', [['st', 'a', [], 1, 0]]], ['t', [['d', 'x', 1, 3], ['raise', 'ValueError']]]], 'close': []}},
    {'kind': 'syn-html', 'script': {'reads': [['t', [['st', 'a', [], 1, 0], ['d', 'x', 1, 3]]], ['t', [['d', 'y', 2, 7]]], ['b']], 'close': []}},
    {'kind': 'syn-html', 'script': {'reads': [['t', [['st', 'a', [], 3, 1], ['st', 'b', [], 3, 4]]], ['t', [['d', 'x', 4, 0], ['d', 'y', 5, 2]]]], 'close': [['c', 'z', 9, 9]]}},
    {'kind': 'syn-xml', 'script': {'reads': [['t', [['se', 'a', [], 1, 0], ['cd', 'x', 1, 4]]], ['t', [['df', '&nbsp;', 1, 4], ['cd', 'y\nz\n', 3, 0], ['df', '&junk;', 3, 9]]]], 'close': []}},
]


def run(ctx):
    nsh = 16
    per = ctx.n(1000, 20000)
    nprefix = ctx.n(6, 50)
    big = ctx.n(2, 16)
    args = [(ctx.seed, i, per, nprefix, big) for i in range(nsh)]
    res = Result()
    for r in pmap('harness.props.c07', 'shard', args):
        res.merge(r)
    L = ctx.n(3, 4)
    for r in pmap('harness.props.c07', 'exhaustive_shard', [(i, nsh, L) for i in range(nsh)]):
        res.merge(r)
    process(FIXED + load_corpus(), res)
    # report a failing input of the real tokenizers before one of the scripted ones
    prio = {'html': 0, 'xml-text': 0, 'xml-tree': 1, 'html-bytes': 1, 'raw': 1, 'syn-html': 2, 'syn-xml': 2}
    res.failures.sort(key=lambda f: (prio.get(f['case'].get('kind'), 3), len(json.dumps(f['case']))))
    res.rule = ('HTML tag soup (mismatched / void / raw-text / mixed-case tags, broken attributes, entities in and out of range, '
                'control characters, declarations, marked sections), truncations and every prefix of valid documents, random bytes '
                'under four codecs, documents longer than the 4 KiB buffer read in 1/7/4095/4096/4097 chunks and random schedules; '
                'XML documents written from generated trees (namespaces, re-declarations, internal and HTML entities, CDATA, PIs, '
                'comments, doctype, declaration), mutated / truncated XML; scripted callback sequences for both layers, random and '
                'exhaustive up to length %d over a 13/12-letter alphabet in every two-batch cutting. ' % L +
                
                'non-trivial = the real parser delivered at least 3 events; distinct by canonical JSON of the case')
    res.samples = res.samples[:6]
    return res


def load_corpus():
    import glob, os
    out = []
    here = os.path.dirname(os.path.dirname(os.path.dirname(os.path.abspath(__file__))))
    for p in sorted(glob.glob(os.path.join(here, 'corpus', 'C07', '*.json'))):
        with open(p) as f:
            d = json.load(f)
        out.extend(d if isinstance(d, list) else [d])
    return [c for c in out if c.get('kind') not in ('syn-html', 'syn-xml')
            or valid_script(c.get('script'), HTML_ARITY if c['kind'] == 'syn-html' else XML_ARITY)]


def search(ctx, res, broken):
    found = []
    for d in res.disagreements[:300]:
        f = oracle_case(d['case'])
        if f:
            found.append(f)
    if found:
        return found
    args = [(ctx.seed + 1000 + i, i, 1500, 4, 2) for i in range(16)]
    for r in pmap('harness.props.c07', 'shard', args):
        found.extend(r.failures)
    return found


def replay(ctx, case):
    return oracle_case(case)

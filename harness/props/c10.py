"""C10 -- rendering never modifies a template; renders are independent of one another.

Oracle on the real code (independent of the Lean model): every observation made on ONE shared
template object -- after any sequence of API calls, in any interleaving of next() over several
open output streams, next to renders that fail, from two threads under a deterministic
line-granularity scheduler -- must equal the same observation made on a FRESH template object
built from the same source and touched by nothing else.

Correspondence with the Lean model (Genshi.Heap.*):
  * footprints: deep structural snapshots of template._stream (list identities, directive object
    identity / order / slots, Attrs, expression sources) and of every other open render's Context
    around each API call and each next(); the set of changed locations must be the model's
    footprint (nothing in the template once it is prepared; only the stepping render's context);
  * steps: for templates of the modelled fragment the prepared stream of the REAL template is
    shipped to gdrv as a heap image and the model's coroutine is stepped along the same schedule;
    the event and the context shape after every next() are compared.
"""
import copy, json, os, pickle, sys, threading
from harness import proto
from harness.framework import Result, pmap
from harness.proto import Atom
from harness import gen_c10 as G

PROP = 'C10'
TRUSTED = [
    'modelled, not verified: genshi/template/base.py (Context, _apply_directives, Template.stream/_prepare_self/'
    'generate/_flatten/__getstate__/__setstate__), directives.py (if/for/with/choose/when/otherwise/strip), '
    'filters/i18n.py (Translator.__call__ / extract SUB handling, i18n:domain/comment/ctxt) as a hand-written Lean heap '
    'machine; tied by footprint snapshots and step-by-step comparison on generated templates',
    'the step model covers a fragment (py:match by one element name only, no select(), no i18n:msg/choose, no inlined includes, '
    'no <?python ?> other than one generator function, identity catalogue; interpolated attribute values, py:attrs and lazily '
    'evaluated nested scopes -- generator expression / map(lambda) consumed by py:for or ${...}, generator function of a code '
    'block, lambda bound by py:with -- are inside); outside it only the footprint claim and the oracle on the real code are checked',
    'thread part: interleaving model at next() granularity (theorems) and line granularity (prepare race, settrace '
    'scheduler); byte-code level preemption, the GIL and atomicity of built-in container operations are assumed',
    'pickle, CPython generators, list iterators, dict ordering: exercised, not modelled',
    'state outside the template object and the contexts: the globals dict eval/exec hand to nested scopes is not an object of '
    'the model -- what lazily running code reads through it (the render\'s own Context at that next()) is, hand-written, tied '
    'by the step comparison on interleaved renders suspended inside such scopes (counters model:lazy-suspended-*); the closure '
    'state of path tests of multi-step / positional py:match paths is not modelled (`other` directive), judged by the oracle '
    'alone (interleaved, threaded and repeated renders against the render alone)',
]
ASSUMPTIONS = [
    'context data objects are not shared between renders (each render gets fresh objects built from the same spec)',
    'a template is prepared (first .stream access) by one thread at a time (known finding C10-prepare-race otherwise)',
    'i18n:singular / i18n:plural store their parameter list on the shared directive object at every render '
    '(write-before-read inside one next(); counted as benign-write, see notes/C10.md)',
]


# --------------------------------------------------------------------------
# building the real objects from a template spec

class Catalog(object):
    """a translations object with every method the filter may ask for; marks what it translated"""
    def __init__(self, mark='~'):
        self.mark = mark

    def _t(self, s, tag=''):
        return s if not self.mark else s + self.mark + tag

    def gettext(self, s):
        return self._t(s)

    def ngettext(self, s, p, n):
        return s if n == 1 else p

    def dgettext(self, d, s):
        return self._t(s, d)

    def dngettext(self, d, s, p, n):
        return s if n == 1 else p

    def pgettext(self, c, s):
        return self._t(s, '^' + c)

    def npgettext(self, c, s, p, n):
        return s if n == 1 else p

    def dpgettext(self, d, c, s):
        return self._t(s, d + '^' + c)

    def dnpgettext(self, d, c, s, p, n):
        return s if n == 1 else p


class Built(object):
    pass


def build(tspec, mark='~'):
    """a fresh template object (and loader / translator) for the spec"""
    from genshi.template import MarkupTemplate, TemplateLoader
    from genshi.filters.i18n import Translator
    from io import StringIO
    b = Built()
    b.translator = Translator(Catalog(mark)) if tspec.get('translator') else None
    b.loader = None
    files = tspec.get('files') or {}
    if files:
        allf = dict(files)
        allf['main.html'] = tspec['src']

        def memload(filename):
            if filename in allf:
                return filename, filename, StringIO(allf[filename]), lambda: True
            raise IOError(filename)

        def cb(t):
            if b.translator is not None:
                b.translator.setup(t)
        b.loader = TemplateLoader([memload], auto_reload=tspec.get('auto_reload', True), callback=cb)
        b.tmpl = b.loader.load('main.html')
    else:
        b.tmpl = MarkupTemplate(tspec['src'])
        if b.translator is not None:
            b.translator.setup(b.tmpl)
    return b


class Hang(BaseException):
    """raised by the watchdog (SIGALRM) inside code that does not come back"""


def _on_alarm(*a):
    raise Hang()


class watchdog(object):
    """with watchdog(seconds): ...   -- main thread of a process only; no-op elsewhere"""

    def __init__(self, seconds):
        self.seconds = seconds
        self.armed = False

    def __enter__(self):
        import signal
        if threading.current_thread() is threading.main_thread():
            self.old = signal.signal(signal.SIGALRM, _on_alarm)
            signal.alarm(self.seconds)
            self.armed = True
        return self

    def __exit__(self, *a):
        import signal
        if self.armed:
            signal.alarm(0)
            signal.signal(signal.SIGALRM, self.old)
        return False


def canon_val(v, depth=0):
    """JSON-able canonical form of event data / context values (no identities)"""
    from genshi.core import Markup, Attrs, QName
    if depth > 6:
        return '<deep>'
    if v is None or isinstance(v, (bool, int)):
        return v
    if isinstance(v, Markup):
        return ['M', str(v)]
    if isinstance(v, str):
        return str(v)
    if isinstance(v, float):
        return ['float', repr(v)]
    if isinstance(v, (tuple, list)):
        return [canon_val(x, depth + 1) for x in v]
    if isinstance(v, dict):
        return ['dict'] + sorted([[str(k), canon_val(x, depth + 1)] for k, x in v.items()], key=lambda p: p[0])
    if isinstance(v, (set, frozenset)):
        return ['set'] + sorted(str(x) for x in v)
    name = getattr(v, '__name__', None)
    if callable(v) and name:
        return '<fn %s>' % name
    return '<%s>' % type(v).__name__


def canon_event(ev):
    kind, data, pos = ev
    return [str(kind), canon_val(data)]


def errname(e):
    return 'err:' + type(e).__name__


def drain(stream, limit=None):
    """pull events until exhaustion / exception / limit -> (events, terminal)"""
    out = []
    it = iter(stream)
    while limit is None or len(out) < limit:
        if len(out) > 20000:
            return out, 'err:EndlessOutput'
        try:
            with watchdog(10):
                ev = next(it)
        except Hang:
            return out, 'err:Hang'
        except StopIteration:
            return out, 'done'
        except RecursionError:
            return out, 'err:RecursionError'
        except Exception as e:  # noqa
            return out, errname(e)
        out.append(canon_event(ev))
    return out, 'open'


def solo(tspec, dspec, limit=None):
    """the reference: a fresh template object rendered alone with fresh data"""
    try:
        b = build(tspec)
    except Exception as e:  # noqa
        return [], 'build-' + errname(e)
    try:
        s = b.tmpl.generate(**G.build_data(dspec))
    except Exception as e:  # noqa
        return [], 'generate-' + errname(e)
    return drain(s, limit)


def solo_extract(tspec):
    b = build(tspec)
    return run_extract(b)


def run_extract(b):
    from genshi.filters.i18n import Translator
    tr = b.translator or Translator()
    try:
        msgs = [canon_val(m) for m in tr.extract(b.tmpl.stream)]
        return msgs, 'done'
    except Exception as e:  # noqa
        return [], errname(e)


# --------------------------------------------------------------------------
# structural snapshots (footprints)

def _slots(obj):
    names = []
    for cls in type(obj).__mro__:
        for n in getattr(cls, '__slots__', ()) or ():
            if n not in names:
                names.append(n)
    d = getattr(obj, '__dict__', None)
    if d:
        names.extend(sorted(k for k in d if k not in names))
    return names


def _deep(v, depth=0, seen=None):
    """structural value of an arbitrary object graph (wave 4: Path objects with their strategy objects, closure
    cells of path tests, class attributes, module-level containers): containers and plain objects with the
    identity of every mutable node, functions with their closure cells; depth-limited, cycle-safe; never calls
    anything but getattr"""
    import types
    if v is None or isinstance(v, (bool, int, float, str, bytes)):
        return repr(v)
    if depth > 7:
        return ('...', type(v).__name__)
    seen = seen if seen is not None else set()
    if isinstance(v, type):
        return ('class', v.__module__ + '.' + v.__qualname__)
    if isinstance(v, types.ModuleType):
        return ('module', v.__name__)
    if isinstance(v, tuple):
        return ('tuple', tuple(_deep(x, depth + 1, seen) for x in v))
    if isinstance(v, (types.GeneratorType, types.FrameType, types.CodeType)):
        return (type(v).__name__, id(v))
    k = id(v)
    if k in seen:
        return ('cycle', type(v).__name__)
    seen = seen | {k}
    if isinstance(v, list):
        return ('list', k, tuple(_deep(x, depth + 1, seen) for x in v))
    if isinstance(v, dict):
        return ('dict', k, tuple(sorted(((repr(kk) if not isinstance(kk, str) else kk), _deep(x, depth + 1, seen))
                                        for kk, x in v.items())))
    if isinstance(v, (set, frozenset)):
        return ('set', k, tuple(sorted(repr(x) for x in v)))
    if isinstance(v, (types.FunctionType, types.MethodType, types.BuiltinFunctionType)) or \
            (callable(v) and not hasattr(v, '__dict__') and not getattr(type(v), '__slots__', None)):
        fn = getattr(v, '__func__', v)
        cells = []
        for c in getattr(fn, '__closure__', None) or ():
            try:
                cells.append(_deep(c.cell_contents, depth + 1, seen))
            except ValueError:
                cells.append('<empty cell>')
        return ('fn', getattr(fn, '__qualname__', getattr(fn, '__name__', '?')), tuple(cells))
    mod = getattr(type(v), '__module__', '') or ''
    if not mod.startswith('genshi'):
        # data objects, Context values of foreign types: by canonical value only
        return ('v', repr(canon_val(v)))
    out = []
    for n in _slots(v):
        try:
            out.append((n, _deep(getattr(v, n), depth + 1, seen)))
        except AttributeError:
            out.append((n, '<unset>'))
    return ('obj', type(v).__name__, k, tuple(out))


def _class_state(cls):
    """the non-callable, non-descriptor entries of a class dict (mutable state kept on a class)"""
    import types
    out = []
    for n, x in sorted(vars(cls).items()):
        if n.startswith('__') and n.endswith('__'):
            continue
        if isinstance(x, (types.FunctionType, classmethod, staticmethod, property, types.MemberDescriptorType,
                          types.GetSetDescriptorType, types.WrapperDescriptorType, types.MethodDescriptorType, type)):
            continue
        out.append((n, _deep(x, 2)))
    return tuple(out)


STATE_MODULES = ('genshi.template.eval', 'genshi.template.base', 'genshi.template.markup', 'genshi.template.directives',
                 'genshi.template.loader', 'genshi.template.interpolation', 'genshi.path', 'genshi.filters.i18n',
                 'genshi.core', 'genshi.util')


def snap_code_state(out):
    """state OUTSIDE the template object graph that its code runs against (wave 4): for the genshi modules the
    render executes, every class's own non-callable attributes and every module-level mutable container (a big
    table by size and key digest).  A cache that a render fills or rebinds shows up here as a changed location."""
    import types
    for mn in STATE_MODULES:
        m = sys.modules.get(mn)
        if m is None:
            continue
        for n, x in sorted(vars(m).items()):
            if isinstance(x, type) and getattr(x, '__module__', None) == mn:
                st = _class_state(x)
                if st:
                    out[('class', mn, n)] = st
            elif isinstance(x, (dict, list, set)) and not n.startswith('__'):
                if len(x) > 40:
                    out[('module', mn, n)] = (type(x).__name__, id(x), len(x),
                                              hash(tuple(sorted(repr(k) for k in x))) if not isinstance(x, list) else len(x))
                else:
                    out[('module', mn, n)] = _deep(x, 3)
    return out


def _snap_field(v, depth=0):
    from genshi.template.eval import Code
    from genshi.path import Path
    if isinstance(v, Code):
        g = getattr(v, '_globals', None)
        cls = getattr(g, '__self__', None)
        return ('code', id(v), v.source, id(v.code), _deep(cls) if cls is not None else _deep(g, 4))
    if isinstance(v, Path):
        # the parsed steps and the strategy objects with every attribute (a strategy that caches something between
        # calls of test() changes here)
        return ('path', id(v), v.source, _deep(getattr(v, 'paths', None), 1), _deep(getattr(v, 'strategies', None), 1))
    if isinstance(v, (list, tuple)) and depth < 4:
        return (type(v).__name__, id(v) if isinstance(v, list) else 0, tuple(_snap_field(x, depth + 1) for x in v))
    if isinstance(v, dict) and depth < 4:
        return ('dict', id(v), tuple(sorted((str(k), _snap_field(x, depth + 1)) for k, x in v.items())))
    if callable(v):
        return ('fn', getattr(v, '__name__', '?'))
    return ('v', repr(canon_val(v)))


def snap_directive(d, out, path):
    if isinstance(d, tuple):            # unprepared: (index, cls, value, namespaces, pos)
        out[path] = ('rawdir', d[0], d[1].__name__, repr(canon_val(d[2])))
        return
    out[path] = ('dir', id(d), type(d).__name__)
    for n in _slots(d):
        try:
            v = getattr(d, n)
        except AttributeError:
            out[path + ('.' + n,)] = ('unset',)
            continue
        out[path + ('.' + n,)] = _snap_field(v)


def snap_events(events, out, path):
    """flat map location -> value for a list of template events (recursively through SUB tuples,
    interpolated attribute values, include fallbacks)"""
    from genshi.core import START
    from genshi.template.base import EXPR, SUB, INCLUDE, EXEC
    if not isinstance(events, (list, tuple)):
        # not a list (e.g. a generator): it must not be consumed by looking at it
        out[path] = ('not-a-list', type(events).__name__, id(events))
        return
    out[path] = ('list', id(events), len(events))
    for i, ev in enumerate(events):
        p = path + (i,)
        kind, data = ev[0], ev[1]
        if kind is SUB:
            dirs, sub = data
            out[p] = ('SUB', id(ev))
            out[p + ('dirs',)] = ('list', id(dirs), len(dirs))
            for j, d in enumerate(dirs):
                snap_directive(d, out, p + ('dirs', j))
            snap_events(sub, out, p + ('body',))
        elif kind is START:
            tag, attrs = data
            out[p] = ('START', str(tag), id(attrs), len(attrs))
            for j, (n, v) in enumerate(attrs):
                if type(v) is list:
                    out[p + ('attr', j)] = ('interp', str(n))
                    snap_events(v, out, p + ('attr', j, 'v'))
                else:
                    out[p + ('attr', j)] = ('plain', str(n), None if v is None else str(v))
        elif kind is EXPR or kind is EXEC:
            out[p] = (str(kind), id(data), data.source)
        elif kind is INCLUDE:
            href, cls, fb = data
            out[p] = ('INCLUDE', cls.__name__ if cls else None, href if isinstance(href, str) else None)
            if not isinstance(href, str):
                snap_events(href, out, p + ('href',))
            if fb is not None:
                snap_events(fb, out, p + ('fallback',))
        else:
            out[p] = (str(kind), repr(canon_val(data)))


def snap_template(t, out=None, path=('tmpl',)):
    out = {} if out is None else out
    out[path + ('_prepared',)] = t._prepared
    out[path + ('filters',)] = tuple((type(f).__name__ if not hasattr(f, '__func__') else f.__func__.__name__,
                                      id(getattr(f, '__self__', f))) for f in t.filters)
    out[path + ('dict',)] = tuple(sorted(k for k in t.__dict__))
    snap_events(t._stream, out, path + ('_stream',))
    if path == ('tmpl',):
        snap_code_state(out)
    return out


def snap_built(b):
    out = snap_template(b.tmpl)
    if b.loader is not None:
        # every other template registered in the loader is shared state as well
        items = b.loader._cache._dict        # read without touching the LRU order
        keys = sorted(items)
        out[('loader', 'keys')] = tuple(keys)
        for k in keys:
            t = items[k].value
            if t is not b.tmpl:
                snap_template(t, out, ('loader', k))
    return out


def _choice(x):
    """(matched, has_test, value) of a choice-stack entry; the code keeps a 3-item list, but a change of
    representation must show up as a disagreement or an oracle failure, never as a harness crash"""
    try:
        return (x[0], x[1], x[2])
    except Exception:
        return (getattr(x, 'matched', None), getattr(x, 'expr', None) is not None, getattr(x, 'value', None))


def snap_ctx(ctxt):
    out = {}
    out[('frames',)] = tuple(id(f) for f in ctxt.frames)
    for i, f in enumerate(ctxt.frames):
        out[('frame', i)] = tuple((str(k), repr(canon_val(f[k]))) for k in f)
    out[('choice',)] = repr([canon_val(list(_choice(x))) for x in ctxt._choice_stack])
    out[('match',)] = tuple((mt[1].source, tuple(sorted(mt[3])), len(mt[2])) for mt in ctxt._match_templates)
    # wave 4: the whole entry -- the test function with its closure cells (the per-render state of the path's
    # strategies: stacks, position counters), the Path object, the buffered events, the directives
    for i, mt in enumerate(ctxt._match_templates):
        try:
            out[('match', i, 'test')] = _deep(mt[0], 1)
            out[('match', i, 'path')] = _snap_field(mt[1])
            out[('match', i, 'ns')] = _deep(mt[4], 3)
            out[('match', i, 'dirs')] = tuple((id(d), type(d).__name__) for d in mt[5])
            snap_events(mt[2], out, ('match', i, 'body'))
        except Exception as e:  # noqa: a changed representation must not crash the harness
            out[('match', i)] = ('unreadable', type(e).__name__)
    return out


def diff(a, b):
    """locations whose value changed / appeared / disappeared"""
    ks = set(a) | set(b)
    return sorted((k for k in ks if a.get(k, '<absent>') != b.get(k, '<absent>')), key=repr)


def classify_tmpl_diff(before, after, locs):
    """-> (benign, other) : the one write to shared state the model declares for a prepared template is
    i18n:singular / i18n:plural storing its parameter list on the directive object (ASSUMPTIONS)"""
    benign, other = [], []
    for k in locs:
        if k and k[-1] == '.params':
            owner = before.get(k[:-1]) or after.get(k[:-1])
            if owner and owner[0] == 'dir' and owner[2] in ('SingularDirective', 'PluralDirective'):
                va, vb = before.get(k), after.get(k)
                # list identity differs at every render, content must not (unset -> list, or same content)
                ca = va[2] if va and va[0] == 'list' else None
                cb = vb[2] if vb and vb[0] == 'list' else None
                if vb and vb[0] == 'list' and (va == ('unset',) or ca == cb):
                    benign.append(k)
                    continue
        other.append(k)
    return benign, other


# --------------------------------------------------------------------------
# the oracle: one case on the real code

def fail(case, what, expected, observed):
    return {'case': case, 'what': what, 'expected': expected, 'observed': observed}


def trunc(x, n=600):
    s = json.dumps(x, sort_keys=True, default=str)
    return s if len(s) <= n else s[:n] + '...'


def first_diff(a, b):
    for i, (x, y) in enumerate(zip(a, b)):
        if x != y:
            return i
    return min(len(a), len(b))


def cmp_render(case, what, got, exp, fails):
    """got/exp = (events, terminal); got may be a prefix observation (terminal 'open')"""
    gev, gt = got
    eev, et = exp
    if gt == 'open':
        ok = gev == eev[:len(gev)] and len(gev) <= len(eev)
    elif gt == et == 'err:RecursionError':
        # where the interpreter's recursion limit strikes depends on the caller's stack depth
        m = min(len(gev), len(eev))
        ok = gev[:m] == eev[:m]
    else:
        ok = gev == eev and gt == et
    if not ok:
        i = first_diff(gev, eev)
        fails.append(fail(case, what,
                          {'terminal': et, 'n': len(eev), 'at': i, 'event': eev[i] if i < len(eev) else None},
                          {'terminal': gt, 'n': len(gev), 'at': i, 'event': gev[i] if i < len(gev) else None}))
    return ok


def oracle_seq(case, res=None):
    """API operation sequence on one template object; every render / extraction must equal the one of a
    fresh object.  Also records footprints (template snapshot around each operation)."""
    tspec, datas, ops = case['tmpl'], case['data'], case['ops']
    fails, foot = [], []
    try:
        b = build(tspec)
    except Exception as e:  # noqa
        if res is not None:
            res.count('build-' + errname(e))
        return fails, foot
    exp = {}

    def expected(k):
        if k not in exp:
            exp[k] = solo(tspec, datas[k])
        return exp[k]
    exp_extract = None
    for n, op in enumerate(ops):
        before = snap_built(b)
        was_prepared = b.tmpl._prepared
        name = op[0]
        if name == 'render':
            try:
                s = b.tmpl.generate(**G.build_data(datas[op[1]]))
                got = drain(s)
            except Exception as e:  # noqa
                got = ([], 'generate-' + errname(e))
            cmp_render(case, 'op %d %s: render on the shared object equals the render of a fresh object' % (n, op),
                       got, expected(op[1]), fails)
        elif name == 'partial':
            try:
                s = b.tmpl.generate(**G.build_data(datas[op[1]]))
                got = drain(s, op[2])
                if got[1] == 'open':
                    del s
            except Exception as e:  # noqa
                got = ([], 'generate-' + errname(e))
            cmp_render(case, 'op %d %s: partially consumed render equals the fresh prefix' % (n, op),
                       got, expected(op[1]), fails)
        elif name == 'extract':
            got = run_extract(b)
            if exp_extract is None:
                exp_extract = solo_extract(tspec)
            if got != exp_extract:
                fails.append(fail(case, 'op %d extract: messages equal those extracted from a fresh object' % n,
                                  trunc(exp_extract), trunc(got)))
        elif name == 'stream':
            try:
                b.tmpl.stream
            except Exception as e:  # noqa
                pass
        elif name == 'pickle':
            try:
                blob = pickle.dumps(b.tmpl, 2)
            except Exception as e:  # noqa
                blob = None
                if res is not None:
                    res.count('pickle-' + errname(e))
            if blob is not None and not tspec.get('translator') and not tspec.get('files'):
                # the copy has the default filters again (__setstate__): it must render like the original
                try:
                    t2 = pickle.loads(blob)
                except Exception as e:  # noqa
                    t2 = None
                    got = ([], 'unpickle-' + errname(e))
                if t2 is not None:
                    try:
                        got = drain(t2.generate(**G.build_data(datas[0])))
                    except Exception as e:  # noqa
                        got = ([], 'generate-' + errname(e))
                cmp_render(case, 'op %d pickle: the unpickled copy renders like a fresh object' % n, got, expected(0), fails)
        elif name == 'load':
            if b.loader is not None:
                try:
                    t2 = b.loader.load('main.html')
                except Exception as e:  # noqa
                    t2 = b.tmpl
                    fails.append(fail(case, 'op %d load: the loader serves the registered object' % n, 'same object', errname(e)))
                if t2 is not b.tmpl:
                    fails.append(fail(case, 'op %d load: the loader serves the registered object' % n, 'same object', 'another object'))
                for fn in sorted(tspec.get('files') or {}):
                    try:
                        drain(b.loader.load(fn).generate(**G.build_data(datas[0])))
                    except Exception:  # noqa
                        pass
        else:
            raise ValueError(op)
        after = snap_built(b)
        locs = diff(before, after)
        foot.append({'op': op, 'was_prepared': was_prepared, 'changed': locs, 'before': before, 'after': after})
    return fails, foot


def oracle_interleave(case, res=None, with_foot=True):
    """k renders of one template object opened together and advanced along a schedule of next() calls;
    each must see exactly what a render alone on a fresh object sees (same events, same failure point)"""
    from genshi.template.base import Context
    tspec, datas, sched = case['tmpl'], case['data'], case['schedule']
    fails, foot = [], []
    try:
        b = build(tspec)
    except Exception as e:  # noqa
        if res is not None:
            res.count('build-' + errname(e))
        return fails, foot
    k = len(datas)
    ctxs, its, got, term = [], [], [], []
    gen_err = False
    for i in range(k):
        c = Context(**G.build_data(datas[i]))
        ctxs.append(c)
        try:
            its.append(iter(b.tmpl.generate(c)))
            term.append('open')
        except Exception as e:  # noqa
            its.append(None)
            term.append('generate-' + errname(e))
        got.append([])
    tb = snap_built(b) if with_foot else None
    for step_no, i in enumerate(sched):
        if term[i] != 'open':
            continue
        if with_foot:
            cb = [snap_ctx(c) for c in ctxs]
        try:
            with watchdog(10):
                ev = next(its[i])
            got[i].append(canon_event(ev))
        except Hang:
            term[i] = 'err:Hang'
        except StopIteration:
            term[i] = 'done'
        except RecursionError:
            term[i] = 'err:RecursionError'
        except Exception as e:  # noqa
            term[i] = errname(e)
        if with_foot:
            ta = snap_built(b)
            ca = [snap_ctx(c) for c in ctxs]
            foot.append({'step': step_no, 'render': i, 'tmpl_changed': diff(tb, ta), 'before': tb, 'after': ta,
                         'others_changed': [j for j in range(k) if j != i and cb[j] != ca[j]]})
            tb = ta
    for i in range(k):
        exp = solo(tspec, datas[i])
        cmp_render(case, 'render %d of %d interleaved along the schedule equals the render alone' % (i, k),
                   (got[i], term[i]), exp, fails)
    return fails, foot


# --------------------------------------------------------------------------
# deterministic thread scheduler (line granularity, sys.settrace)

class Sched(object):
    """runs n functions in n threads, one at a time; control is handed over at `line` trace events inside
    files whose name contains one of `where`, following `schedule` (list of thread indices: who executes
    the next line).  When the schedule is used up the running thread continues, then the others in order.

    preempt: symbolic preemption points [thread, function name, n]: when `thread` is about to execute its
    n-th line inside frames of that function (counted over the whole run) every other thread runs to
    completion first.  Independent of line numbers, so a recorded finding stays replayable."""

    def __init__(self, fns, schedule, where=('genshi/template/', 'genshi/filters/i18n'), preempt=()):
        self.fns = fns
        self.schedule = list(schedule)
        self.pos = 0
        self.where = where
        self.n = len(fns)
        self.sems = [threading.Semaphore(0) for _ in fns]
        self.done = [False] * self.n
        self.results = [None] * self.n
        self.steps = 0
        self.preempt = [list(p) for p in preempt]
        self.fcount = {}
        self.forced = []          # threads that must finish before `forced_back` continues
        self.forced_back = None

    def _pick(self, cur):
        if self.forced_back is not None:
            for t in self.forced:
                if not self.done[t]:
                    return t
            back, self.forced_back, self.forced = self.forced_back, None, []
            if not self.done[back]:
                return back
        while self.pos < len(self.schedule):
            t = self.schedule[self.pos]
            self.pos += 1
            if 0 <= t < self.n and not self.done[t]:
                return t
        if cur is not None and not self.done[cur]:
            return cur
        for t in range(self.n):
            if not self.done[t]:
                return t
        return None

    def _handover(self, cur):
        nxt = self._pick(cur)
        if nxt is None or nxt == cur:
            return
        self.sems[nxt].release()
        self.sems[cur].acquire()

    def _tracer(self, idx):
        where = self.where

        def local(frame, event, arg):
            if event == 'line':
                self.steps += 1
                if self.preempt and self.forced_back is None:
                    key = (idx, frame.f_code.co_name)
                    self.fcount[key] = self.fcount.get(key, 0) + 1
                    if [idx, key[1], self.fcount[key]] in self.preempt:
                        self.forced = [t for t in range(self.n) if t != idx]
                        self.forced_back = idx
                self._handover(idx)
            return local

        def glob(frame, event, arg):
            fn = frame.f_code.co_filename
            for w in where:
                if w in fn:
                    return local
            return None
        return glob

    def _run(self, idx):
        self.sems[idx].acquire()
        sys.settrace(self._tracer(idx))
        try:
            self.results[idx] = ('ok', self.fns[idx]())
        except BaseException as e:  # noqa
            self.results[idx] = ('exc', type(e).__name__, str(e)[:200])
        finally:
            sys.settrace(None)
            self.done[idx] = True
            nxt = self._pick(None)
            if nxt is not None:
                self.sems[nxt].release()

    def run(self):
        ths = [threading.Thread(target=self._run, args=(i,), daemon=True) for i in range(self.n)]
        for t in ths:
            t.start()
        first = self._pick(None)
        self.sems[first].release()
        for t in ths:
            t.join(60)
            if t.is_alive():
                raise RuntimeError('scheduler: thread did not finish (deadlock?)')
        return self.results


class PointSched(object):
    """threads advance from one named program point to the next, strictly in schedule order.  A point is
    a `line` trace event selected by `classify(frame) -> name | None`; schedule entry t = "thread t runs
    until its next point (or its end)".  Used to replay schedules of the Lean line model (`raceStep`)."""

    def __init__(self, fns, schedule, classify):
        self.fns, self.schedule, self.classify = fns, list(schedule), classify
        self.n = len(fns)
        self.sems = [threading.Semaphore(0) for _ in fns]
        self.main = threading.Semaphore(0)
        self.done = [False] * self.n
        self.results = [None] * self.n
        self.trace = []

    def _tracer(self, idx):
        def local(frame, event, arg):
            if event == 'line':
                name = self.classify(idx, frame)
                if name is not None:
                    self.trace.append((idx, name))
                    self.main.release()          # give control back to the driver
                    self.sems[idx].acquire()     # wait for the next turn
            return local

        def glob(frame, event, arg):
            if 'genshi/template/' in frame.f_code.co_filename:
                return local
            return None
        return glob

    def _run(self, idx):
        self.sems[idx].acquire()
        sys.settrace(self._tracer(idx))
        try:
            self.results[idx] = ('ok', self.fns[idx]())
        except BaseException as e:  # noqa
            self.results[idx] = ('exc', type(e).__name__)
        finally:
            sys.settrace(None)
            self.done[idx] = True
            self.main.release()

    def run(self):
        ths = [threading.Thread(target=self._run, args=(i,), daemon=True) for i in range(self.n)]
        for t in ths:
            t.start()
        # every thread first runs up to its first point (the model's initial state), then the schedule
        for t in list(range(self.n)) + self.schedule + [i for i in range(self.n) for _ in range(64)]:
            if all(self.done):
                break
            if self.done[t]:
                continue
            self.sems[t].release()
            if not self.main.acquire(timeout=30):
                raise RuntimeError('point scheduler: thread %d does not come back' % t)
        for t in ths:
            t.join(30)
        return self.results


def _race_points():
    """program points of Template.stream / _prepare_self, recognised by function name and source text
    (independent of line numbers); returns classify(thread, frame) with per-thread state"""
    import linecache
    state = {}

    def classify(idx, frame):
        fn = frame.f_code.co_name
        st = state.setdefault(idx, {'in475': False})
        text = linecache.getline(frame.f_code.co_filename, frame.f_lineno).strip()
        if fn == 'stream' and text.startswith('if not self._prepared'):
            return 'l455'
        if fn == '_prepare_self':
            if text.startswith('if not self._prepared'):
                return 'l474'
            if text.startswith('self._stream ='):
                st['in475'] = True
                return 'l475'
            if text.startswith('self._prepared = True'):
                st['in475'] = False
                return 'l476'
        if fn == '_prepare' and st['in475']:
            st['in475'] = False           # first line inside _prepare: the argument self._stream has been read
            return 'l475run'
        return None
    return classify


def race_corr(rng, n_cases, res):
    """the line model of Template.stream/_prepare_self against the real code: random schedules of 2-3 threads
    over the five program points; per thread finished / raised and the final flags must agree"""
    from genshi.template import MarkupTemplate
    src = G.HEAD + '<p py:if="a">x</p>' + G.TAIL
    lines, cases = [], []
    for _ in range(n_cases):
        k = rng.choice([2, 2, 3])
        sched = [rng.randrange(k) for _ in range(rng.choice([4, 8, 12, 16]))]
        cases.append((k, sched))
        full = sched + [t for t in range(k) for _ in range(6)]
        lines.append(proto.line(Atom('C10'), Atom('race'), k, full))
    answers = proto.run_lines(lines)
    for (k, sched), ans in zip(cases, answers):
        model = proto.dec(ans)
        t = MarkupTemplate(src)

        def mk():
            def run():
                t.stream
                return 'finished'
            return run
        try:
            ps = PointSched([mk() for _ in range(k)], sched, _race_points())
            results = ps.run()
        except RuntimeError as e:
            res.count('race:sched-' + str(e)[:20])
            continue
        names = [p for _, p in ps.trace]
        if not {'l455', 'l474', 'l475', 'l475run', 'l476'} <= set(names):
            res.count('race:points-not-recognised')        # the function was rewritten: nothing to align
            continue
        real = [proto.B(_stream_prepared(t)), proto.B(bool(t._prepared)),
                [Atom('finished') if r[0] == 'ok' else Atom('raised') for r in results]]
        real = proto.dec(proto.enc(real))
        res.streams['race'] = res.streams.get('race', 0) + 1
        res.count('race:raised=%d' % sum(1 for r in results if r[0] != 'ok'))
        if model != real:
            res.disagreements.append({'stream': 'race', 'case': {'kind': 'race', 'threads': k, 'schedule': sched},
                                      'model': trunc(model), 'real': trunc(real)})


def oracle_threads(case, res=None):
    """two (or three) threads render one template object with different data under the scheduler;
    each must produce the solo output.  case['prepared']: whether .stream is accessed before the threads start"""
    tspec, datas, sched = case['tmpl'], case['data'], case['schedule']
    fails = []
    try:
        b = build(tspec)
        if case.get('prepared', True):
            b.tmpl.stream
    except Exception as e:  # noqa
        return fails

    def mk(i):
        def run():
            try:
                s = b.tmpl.generate(**G.build_data(datas[i]))
            except Exception as e:  # noqa
                return ([], 'generate-' + errname(e))
            return drain(s)
        return run
    try:
        results = Sched([mk(i) for i in range(len(datas))], sched, preempt=case.get('preempt') or ()).run()
    except RuntimeError as e:
        return [fail(case, 'both threads finish', 'two finished renders', str(e))]
    for i, r in enumerate(results):
        got = r[1] if r[0] == 'ok' else ([], 'thread-err:' + r[1])
        cmp_render(case, 'thread %d of %d under the line scheduler renders what a render alone renders' % (i, len(datas)),
                   got, solo(tspec, datas[i]), fails)
    return fails


SYSTEMATIC = [
    {'src': G.HEAD + '<ul><li py:for="x in xs" py:if="x">$x<b py:with="w=x">$w</b></li></ul>'
                     '<p py:choose="a"><i py:when="1">one</i><i py:otherwise="">other</i></p>' + G.TAIL,
     'files': {}, 'translator': False, 'auto_reload': True},
    {'src': G.HEAD + '<py:def function="f(p)"><em>$p</em></py:def><span py:match="q">[${select("text()")}]</span>'
                     '${f(a)}<q>$a</q><p i18n:msg="a" i18n:domain="foo">Hello $a</p>'
                     '<div i18n:choose="n; n"><p i18n:singular="">One $n</p><p i18n:plural="">Many $n</p></div>' + G.TAIL,
     'files': {}, 'translator': True, 'auto_reload': True},
    # lazily evaluated nested scopes (wave 4): a thread preempted while a generator is suspended between two items /
    # between the definition and the call of a lambda, the other thread evaluating the same expressions meanwhile
    {'src': G.HEAD + '<?python\ndef gen1():\n    for x in xs:\n        yield (x, a)\n?>'
                     '<p py:with="g=lambda x: (x, a)">${g(0)}<li py:for="v in (\'%s:%s;\' % (x, a) for x in xs)">$v${g(1)}</li>'
                     '${map(lambda x: x == a, xs)}<i py:for="w in gen1()">$w</i></p>' + G.TAIL,
     'files': {}, 'translator': False, 'auto_reload': True},
]
SYSTEMATIC_DATA = [{'a': 1, 'n': 1, 'xs': [1, 0, 2]}, {'a': 'z', 'n': 3, 'xs': ['u']}]


def threads_systematic(res, stride):
    """preemption bound 2 over two rendering threads: thread 0 runs i lines, thread 1 runs j lines, then
    thread 0 to its end, then thread 1 -- for a grid of (i, j); every run must render what a render alone renders"""
    fails = []
    for tspec in SYSTEMATIC:
        n = 0
        for i in range(0, 400, stride):
            for j in range(0, 400, stride):
                case = {'kind': 'threads', 'tmpl': tspec, 'data': SYSTEMATIC_DATA, 'prepared': True,
                        'schedule': [0] * i + [1] * j + [0] * 4000}
                f = oracle_threads(case, res)
                n += 1
                res.evaluations += 1
                if f:
                    fails.append(f[0])
                    break
            if fails:
                break
        res.count('kind:threads-systematic', n)
    return fails


def oracle_case(case, res=None):
    kind = case['kind']
    if kind == 'seq':
        fails, foot = oracle_seq(case, res)
        if case.get('footprint'):
            # regression form of a repaired defect that is a write to shared state without an output-level
            # symptom at next() granularity: the template's own lists must be left as they are
            r2 = Result()
            check_footprints(case, foot, r2, 'seq')
            for d in r2.disagreements:
                fails.append(fail(case, 'operation leaves the lists of the template (shared by all renders and threads) untouched',
                                  d['model'], d['real']))
        return fails
    if kind == 'interleave':
        return oracle_interleave(case, res, with_foot=False)[0]
    if kind == 'pristine':
        return oracle_pristine(case, res)
    if kind == 'threads':
        if case.get('preempt_scan'):
            # "some preemption point inside this function breaks it": try each line of the function as the
            # point where the other threads run to completion (robust against edits that move lines)
            th, fn, maxn = case['preempt_scan']
            for n in range(1, maxn + 1):
                c2 = dict(case)
                c2['preempt'] = [[th, fn, n]]
                f = oracle_threads(c2, res)
                if f:
                    for x in f:
                        x['case'] = case
                        x['what'] += ' (preempted before line %d of %s)' % (n, fn)
                    return f
            return []
        return oracle_threads(case, res)
    raise ValueError(kind)


# --------------------------------------------------------------------------
# correspondence with the Lean heap machine (gdrv verb `C10 run`)

FUEL = 20000


def wire_val(v, key=None):
    if v is None:
        return proto.N
    if isinstance(v, bool):
        return proto.B(v)
    if isinstance(v, int):
        return v
    if isinstance(v, str):
        return str(v)
    if isinstance(v, list) and all(x is None or isinstance(x, (bool, int, str)) for x in v):
        return [Atom('L')] + [wire_val(x) for x in v]
    if callable(v) and key is not None:
        return [Atom('F'), key]
    return Atom('Z')


def _fmt_pieces(fmt, n):
    """the literal pieces of a format string that has exactly n `%s` and no other conversion"""
    pieces = fmt.split('%s')
    if len(pieces) != n + 1 or any('%' in p for p in pieces):
        return None
    return pieces


def wire_expr(node, top=False):
    """python ast of an expression -> wire, or None outside the modelled fragment.  `top`: the expression is the
    iterable of py:for or a whole EXPR event -- the places where a generator object is consumed on the spot (a
    generator expression / `map(lambda …)` anywhere else is outside the model: the object could be reached from
    two places)"""
    import ast
    if isinstance(node, ast.Expression):
        node = node.body
    if top and isinstance(node, ast.GeneratorExp) and len(node.generators) == 1:
        g = node.generators[0]
        if not g.ifs and not g.is_async and isinstance(g.target, ast.Name):
            body, src = wire_expr(node.elt), wire_expr(g.iter)
            if body is not None and src is not None:
                return [Atom('gen'), body, g.target.id, src]
        return None
    if top and isinstance(node, ast.Call) and isinstance(node.func, ast.Name) and node.func.id == 'map' \
            and len(node.args) == 2 and not node.keywords and isinstance(node.args[0], ast.Lambda):
        # map() is lazy: the lambda's body runs item by item, like the body of a generator expression
        a = node.args[0].args
        if len(a.args) == 1 and not (a.posonlyargs or a.kwonlyargs or a.vararg or a.kwarg or a.defaults):
            body, src = wire_expr(node.args[0].body), wire_expr(node.args[1])
            if body is not None and src is not None:
                return [Atom('gen'), body, a.args[0].arg, src]
        return None
    if isinstance(node, ast.Lambda):
        a = node.args
        if len(a.args) == 1 and not (a.posonlyargs or a.kwonlyargs or a.vararg or a.kwarg or a.defaults):
            body = wire_expr(node.body)
            if body is not None:
                return [Atom('lam'), a.args[0].arg, body]
        return None
    if isinstance(node, ast.BinOp) and isinstance(node.op, ast.Mod) and isinstance(node.left, ast.Constant) \
            and isinstance(node.left.value, str):
        if isinstance(node.right, ast.Tuple):
            if len(node.right.elts) != 2:
                return None
            ps = _fmt_pieces(node.left.value, 2)
            a, b = wire_expr(node.right.elts[0]), wire_expr(node.right.elts[1])
            if ps is None or a is None or b is None:
                return None
            return [Atom('fmt2'), ps[0], a, ps[1], b, ps[2]]
        ps = _fmt_pieces(node.left.value, 1)
        a = wire_expr(node.right)
        if ps is None or a is None:
            return None
        return [Atom('fmt1'), ps[0], a, ps[1]]
    if isinstance(node, ast.Name):
        return [Atom('v'), node.id]
    if isinstance(node, ast.Constant) and (node.value is None or isinstance(node.value, (bool, int, str))):
        return [Atom('l'), wire_val(node.value)]
    if isinstance(node, ast.Compare) and len(node.ops) == 1 and isinstance(node.ops[0], ast.Eq):
        a, b = wire_expr(node.left), wire_expr(node.comparators[0])
        if a is None or b is None:
            return None
        return [Atom('eq'), a, b]
    if isinstance(node, ast.UnaryOp) and isinstance(node.op, ast.Not):
        a = wire_expr(node.operand)
        return None if a is None else [Atom('not'), a]
    if isinstance(node, ast.Call) and isinstance(node.func, ast.Name) and not node.keywords and len(node.args) <= 1 \
            and not any(isinstance(a, ast.Starred) for a in node.args):
        if not node.args:
            return [Atom('call'), node.func.id]
        a = wire_expr(node.args[0])
        return None if a is None else [Atom('call'), node.func.id, a]
    return None


def wire_suite(node):
    """the suite of an EXEC event -> wire, for the one shape the model has: a module that is one generator function
    `def name():` / `for x in src:` / `yield body` (no arguments, no decorators); None otherwise"""
    import ast
    if not (isinstance(node, ast.Module) and len(node.body) == 1 and isinstance(node.body[0], ast.FunctionDef)):
        return None
    f = node.body[0]
    a = f.args
    if f.decorator_list or a.args or a.posonlyargs or a.kwonlyargs or a.vararg or a.kwarg or len(f.body) != 1:
        return None
    loop = f.body[0]
    if not (isinstance(loop, ast.For) and isinstance(loop.target, ast.Name) and not loop.orelse and len(loop.body) == 1):
        return None
    y = loop.body[0]
    if not (isinstance(y, ast.Expr) and isinstance(y.value, ast.Yield) and y.value.value is not None):
        return None
    src, body = wire_expr(loop.iter), wire_expr(y.value.value)
    if src is None or body is None:
        return None
    return [Atom('G'), f.name, loop.target.id, src, body]


def wire_attrs_spec(node):
    """the expression of py:attrs: a dict display with string keys, a list display of (string, value) pairs, or
    an expression of the fragment; None outside"""
    import ast
    if isinstance(node, ast.Expression):
        node = node.body

    def entries(pairs):
        out = []
        for k, v in pairs:
            if not (isinstance(k, ast.Constant) and isinstance(k.value, str)):
                return None
            w = wire_expr(v)
            if w is None:
                return None
            out.append([str(k.value), w])
        return out
    if isinstance(node, ast.Dict):
        if any(k is None for k in node.keys):
            return None
        e = entries(zip(node.keys, node.values))
        return None if e is None else [Atom('D')] + e
    if isinstance(node, ast.List):
        if not all(isinstance(t, ast.Tuple) and len(t.elts) == 2 for t in node.elts):
            return None
        e = entries((t.elts[0], t.elts[1]) for t in node.elts)
        return None if e is None else [Atom('P')] + e
    w = wire_expr(node)
    return None if w is None else [Atom('X'), w]


def _assign_name(fn):
    d = getattr(fn, '__defaults__', None)
    if d and isinstance(d[0], str):
        return d[0]
    return None


def wire_dir(d, num):
    import ast
    name = type(d).__name__
    mod = type(d).__module__
    other = [num, Atom('other')]
    if isinstance(d, tuple):
        return other
    i18n = mod.endswith('i18n')

    def optexpr(e):
        if e is None:
            return proto.N
        return wire_expr(e.ast)
    if not i18n:
        if name == 'IfDirective':
            e = d.expr and wire_expr(d.expr.ast)
            return [num, Atom('if'), e] if e else other
        if name == 'ForDirective':
            var = _assign_name(d.assign)
            body = d.expr.ast.body
            if var and isinstance(body, ast.Call) and getattr(body.func, 'id', None) == 'iter' and len(body.args) == 1:
                e = wire_expr(body.args[0], top=True)
                if e:
                    return [num, Atom('for'), var, e]
            return other
        if name == 'WithDirective':
            bs = []
            for targets, e in d.vars:
                if len(targets) != 1 or _assign_name(targets[0]) is None:
                    return other
                w = wire_expr(e.ast)
                if w is None:
                    return other
                bs.append([_assign_name(targets[0]), w])
            return [num, Atom('with'), bs]
        if name in ('ChooseDirective', 'WhenDirective', 'StripDirective'):
            e = optexpr(d.expr)
            if e is None:
                return other
            return [num, Atom({'ChooseDirective': 'choose', 'WhenDirective': 'when', 'StripDirective': 'unwrap'}[name]), e]
        if name == 'OtherwiseDirective':
            return [num, Atom('otherwise')]
        if name == 'AttrsDirective':
            a = d.expr is not None and wire_attrs_spec(d.expr.ast)
            return [num, Atom('attrs'), a] if a else other
        if name == 'MatchDirective':
            import re as _re
            if _re.match(r'^[a-z]+$', d.path.source) and set(d.hints) <= {'match_once'}:
                return [num, Atom('match'), d.path.source, proto.B('match_once' in d.hints)]
            return other
        if name == 'DefDirective':
            if d.star_args is not None or d.dstar_args is not None:
                return other
            ps = []
            for a in d.args:
                if a in d.defaults:
                    w = wire_expr(d.defaults[a].ast)
                    if w is None:
                        return other
                    ps.append([a, w])
                else:
                    ps.append([a, proto.N])
            return [num, Atom('def'), d.name, ps]
        return other
    if name == 'DomainDirective':
        return [num, Atom('domain'), d.domain]
    if name == 'CommentDirective':
        return [num, Atom('comment'), d.comment]
    if name == 'ContextDirective':
        return [num, Atom('ctxt'), d.context]
    if name == 'MsgDirective':
        return [num, Atom('msg')]
    if name == 'ChooseDirective':
        return [num, Atom('ichoose')]
    if name in ('SingularDirective', 'PluralDirective'):
        return [num, Atom('branch')]
    return other


class Image(object):
    """the prepared streams of the real templates of one loader as the model's heap.  Addresses are
    absolute: the templates are laid out one after the other in canonical order (the template itself,
    then the other files by name), inside a template directive lists and sub-stream lists get addresses in
    depth-first order.  Directive objects are numbered by identity, per template.  `layout` (from the twin
    that prepared everything) fixes where each template starts, so that a template prepared later lands at
    the same addresses."""

    def __init__(self, names, dirnum=None, layout=None):
        self.names = list(names)
        self.cells = {}           # address -> wire cell
        self.addr = {}            # id(python list) -> address
        self.dirnum = dirnum if dirnum is not None else {}
        self.keep = []
        self.layout = dict(layout) if layout else None
        self.ranges = {}
        self.roots = {}
        self.next = 0
        self.cur = 0
        self.count = {}

    def num(self, d):
        k = id(d)
        if k not in self.dirnum:
            n = self.count.get(self.cur, sum(1 for v in self.dirnum.values() if v // 1000 == self.cur))
            self.count[self.cur] = n + 1
            self.dirnum[k] = self.cur * 1000 + n
            self.keep.append(d)
        return self.dirnum[k]

    def add_template(self, idx, name, tmpl):
        if self.layout is not None:
            self.next = self.layout[name][0]
        start = self.next
        self.cur = idx
        self.roots[name] = self.add_evs(tmpl._stream)
        self.ranges[name] = (start, self.next - start)

    def add_evs(self, events):
        from harness import evwire
        from genshi.core import START
        from genshi.template.base import EXPR, SUB, INCLUDE, EXEC
        if id(events) in self.addr:
            return self.addr[id(events)]
        a = self.next
        self.next += 1
        self.addr[id(events)] = a
        out = [Atom('E')]
        for ev in events:
            kind, data = ev[0], ev[1]
            if kind is SUB:
                dirs, sub = data
                if id(dirs) in self.addr:
                    da = self.addr[id(dirs)]
                else:
                    da = self.next
                    self.next += 1
                    self.addr[id(dirs)] = da
                    self.cells[da] = [Atom('D')] + [wire_dir(d, self.num(d)) for d in dirs]
                ba = self.add_evs(sub)
                out.append([Atom('S'), [Atom('t'), da], [Atom('t'), ba]])
            elif kind is EXPR:
                e = wire_expr(data.ast, top=True)
                out.append([Atom('X'), e] if e else Atom('U'))
            elif kind is INCLUDE:
                href, cls, fb = data
                if isinstance(href, str) and cls in (None, type(None)) or (isinstance(href, str) and getattr(cls, '__name__', '') == 'MarkupTemplate'):
                    t = self.names.index(href) if href in self.names else None
                    fba = self.add_evs(fb) if fb is not None else None
                    out.append([Atom('I'), proto.N if t is None else t, proto.N if fba is None else [Atom('t'), fba]])
                else:
                    out.append(Atom('U'))
            elif kind is EXEC:
                out.append(wire_suite(data.ast) or Atom('U'))
            elif kind is START:
                if all(isinstance(v, str) for _, v in data[1]):
                    out.append([Atom('O'), evwire.ev(ev)])
                elif all(isinstance(v, str) or type(v) is list for _, v in data[1]):
                    # interpolated values: each is a list of TEXT / EXPR events owned by the template -> a cell
                    out.append([Atom('A'), evwire.qn(data[0]),
                                [[evwire.qn(n), str(v)] if isinstance(v, str) else [evwire.qn(n), [Atom('t'), self.add_evs(v)]]
                                 for n, v in data[1]]])
                else:
                    out.append(Atom('U'))
            else:
                out.append([Atom('O'), evwire.ev(ev)])
        self.cells[a] = out
        return a

    def cell_list(self):
        return [self.cells[i] for i in range(self.next)]


def template_names(tspec):
    files = tspec.get('files') or {}
    return ['main.html'] + sorted(files) if files else ['<string>']


def loaded_templates(b, names):
    """(index, name, template object or None) in canonical order; only what the loader already holds"""
    out = [(0, names[0], b.tmpl)]
    for i, n in enumerate(names[1:], 1):
        item = b.loader._cache._dict.get(n) if b.loader is not None else None
        out.append((i, n, item.value if item is not None else None))
    return out


def twin_image(tspec):
    """everything loaded and prepared, on an object of its own: the heap image and the layout"""
    twin = build(tspec, mark='')
    names = template_names(tspec)
    for n in names[1:]:
        twin.loader.load(n)
    im = Image(names)
    for i, n, t in loaded_templates(twin, names):
        t.stream
        im.add_template(i, n, t)
    return im


def wire_ctx(ctxt):
    frames = [[[str(k), wire_val(f[k], str(k))] for k in f] for f in ctxt.frames]
    choice = [[proto.B(bool(c[0])), proto.B(bool(c[1])), wire_val(c[2])] for c in map(_choice, reversed(ctxt._choice_stack))]
    mts = [[mt[1].source, proto.B('match_once' in mt[3])] for mt in ctxt._match_templates]
    return [frames, choice, mts]


def changed_cells(a, b):
    """addresses present before and after whose cell differs (a template prepared in between is new, not changed)"""
    return sorted(i for i in a if i in b and a[i] != b[i])


def wire_actions(case):
    out = []
    for act in case['actions']:
        k = act[0]
        if k == 'o':
            d = case['data'][act[1]]
            out.append([Atom('o'), [[key, wire_val(v)] for key, v in d.items()]])
        elif k == 's':
            out.append([Atom('n'), act[1]])
        else:
            out.append(Atom(k))
    return out


def model_request(case, variant, im=None, verb='run'):
    """the request line for gdrv; the heap image comes from a twin loader that prepared everything"""
    im = im or twin_image(case['tmpl'])
    names = template_names(case['tmpl'])
    return proto.line(Atom('C10'), Atom(verb), proto.B(variant[0]), proto.B(variant[1]),
                      proto.B(bool(case['tmpl'].get('translator'))), FUEL, [im.roots[n] for n in names],
                      im.cell_list(), wire_actions(case))


def real_run(case, layout=None):
    """perform the actions on the real object; observations in the model's output vocabulary"""
    from harness import evwire
    from genshi.template.base import Context
    from genshi.filters.i18n import Translator
    b = build(case['tmpl'], mark='')
    names = template_names(case['tmpl'])
    if layout is None:
        layout = twin_image(case['tmpl']).ranges
    dirnum = {}
    keep = []

    def cells_now():
        im = Image(names, dirnum, layout)
        for i, n, t in loaded_templates(b, names):
            if t is not None and t._prepared:
                im.add_template(i, n, t)
        keep.append(im)
        return im.cells, im

    def flags():
        out = []
        for i, n, t in loaded_templates(b, names):
            out.append([proto.F, proto.F] if t is None else [proto.B(_stream_prepared(t)), proto.B(t._prepared)])
        return out
    ctxs, its, term = [], [], []
    out = []
    for act in case['actions']:
        before, _ = cells_now()
        k = act[0]
        if k == 'a':
            try:
                b.tmpl.stream
                after, _ = cells_now()
                out.append([Atom('unit'), changed_cells(before, after), flags()])
            except Exception as e:  # noqa
                out.append([Atom('raised'), Atom(type(e).__name__)])
        elif k == 'o':
            c = Context(**G.build_data(case['data'][act[1]]))
            try:
                it = iter(b.tmpl.generate(c))
                ctxs.append(c)
                its.append(it)
                term.append(None)
                after, _ = cells_now()
                out.append([Atom('opened'), len(its) - 1, changed_cells(before, after), flags()])
            except Exception as e:  # noqa
                out.append([Atom('raised'), Atom(type(e).__name__)])
        elif k == 's':
            i = act[1]
            if i >= len(its):
                out.append([Atom('out'), i, Atom('halted'), proto.N, [], proto.N, flags()])
                continue
            if term[i] is not None:
                so = Atom('halted')
            else:
                try:
                    with watchdog(10):
                        ev = next(its[i])
                    so = [Atom('ev'), evwire.ev(ev)]
                except StopIteration:
                    so = Atom('done')
                    term[i] = 'done'
                except Hang:
                    so = [Atom('err'), Atom('fuel')]      # the model reports a step that never ends as out of fuel
                    term[i] = 'err'
                except Exception as e:  # noqa
                    so = [Atom('err'), Atom(type(e).__name__)]
                    term[i] = 'err'
            after, _ = cells_now()
            out.append([Atom('out'), i, so, wire_ctx(ctxs[i]), changed_cells(before, after), flatten_depth(its[i]), flags()])
        elif k == 'x':
            tr = b.translator or Translator()
            code = Translator.extract.__code__
            calls = []
            frames = []          # a generator frame is "called" at every resumption: count it once

            def prof(frame, event, arg):
                if event == 'call' and frame.f_code is code and not any(f is frame for f in frames):
                    frames.append(frame)
                    st = frame.f_locals.get('stream')
                    if type(st) is list:
                        calls.append(st)
            err = Atom('ok')
            try:
                stream = b.tmpl.stream
                sys.setprofile(prof)
                try:
                    for _ in tr.extract(stream):
                        pass
                finally:
                    sys.setprofile(None)
            except Exception as e:  # noqa
                err = Atom(type(e).__name__)
            after, im = cells_now()
            trace = [im.addr.get(id(st), -1) for st in calls]
            out.append([Atom('extracted'), trace, err, changed_cells(before, after), flags()])
        elif k == 'p':
            try:
                pickle.dumps(b.tmpl, 2)
            except Exception:  # noqa
                pass
            after, _ = cells_now()
            out.append([Atom('unit'), changed_cells(before, after), flags()])
        elif k == 'r':
            registry = {'x': b.tmpl}   # noqa: what a loader cache does with the object
            after, _ = cells_now()
            out.append([Atom('unit'), changed_cells(before, after), flags()])
        else:
            raise ValueError(act)
    return out


def flatten_depth(it):
    """len(stack) inside the suspended `_flatten` generator of an output stream (walk the filter chain
    `_include` <- `_match` <- `_flatten` through the generators' frames); N once it has finished"""
    g = it
    for _ in range(8):
        code = getattr(g, 'gi_code', None)
        if code is None:
            return proto.N
        fr = g.gi_frame
        if fr is None:
            return proto.N
        if code.co_name == '_flatten':
            return len(fr.f_locals.get('stack', ()))
        g = fr.f_locals.get('stream')
    return proto.N


def _stream_prepared(t):
    """does `_stream` hold prepared events (directive objects) rather than the parsed ones (tuples)"""
    from genshi.template.base import SUB

    def walk(evs):
        for ev in evs:
            if ev[0] is SUB:
                for d in ev[1][0]:
                    return not isinstance(d, tuple)
                r = walk(ev[1][1])
                if r is not None:
                    return r
        return None
    r = walk(t._stream)
    return t._prepared if r is None else r


def _is_unmodelled(x):
    if isinstance(x, list):
        return any(_is_unmodelled(y) for y in x)
    return isinstance(x, Atom) and x in ('unmodelled', 'fuel')


def compare_model(cases, res, variant, stream='steps'):
    """run the cases through gdrv and through the real code, compare observation by observation (up to
    the first observation the model does not cover, which ends the comparison of that case)"""
    twins = [twin_image(c['tmpl']) for c in cases]
    lines = [model_request(c, variant, im) for c, im in zip(cases, twins)]
    answers = proto.run_lines(lines)
    # distribution only: in how many steps of the cases with a lazily evaluated scope is the stepped render left
    # suspended INSIDE the scope (generator object with items left) -- the window in which another render's
    # evaluations come between two runs of one body.  Model-side measurement (verb `runlazy`).
    lz = [(c, im) for c, im in zip(cases, twins) if c.get('lazy')]
    if lz:
        for (c, im), ans in zip(lz, proto.run_lines([model_request(c, variant, im, 'runlazy') for c, im in lz])):
            if ans in ('bad-op', 'bad-line'):
                res.disagreements.append({'stream': stream, 'case': c, 'model': ans, 'real': 'runlazy request not understood'})
                continue
            flags = proto.dec(ans)
            n = sum(1 for f in flags if f in (True, 'T'))
            owners = set(a[1] for a, f in zip(c['actions'], flags) if f in (True, 'T'))
            res.count('model:lazy-suspended-steps', n)
            if n:
                res.count('model:lazy-suspended-cases')
            if len(owners) >= 2:
                res.count('model:lazy-suspended-in-2+-renders')
    for c, ans, im in zip(cases, answers, twins):
        if ans in ('bad-op', 'bad-line'):
            res.disagreements.append({'stream': stream, 'case': c, 'model': ans, 'real': 'request not understood'})
            continue
        model = proto.dec(ans)
        if model == []:
            model = []
        real = proto.dec(proto.enc(real_run(c, im.ranges)))      # same vocabulary as the decoded answer
        if len(model) != len(real):
            res.disagreements.append({'stream': stream, 'case': c, 'model': '%d observations' % len(model),
                                      'real': '%d observations' % len(real)})
            continue
        dead = set()
        for n, (m, r) in enumerate(zip(model, real)):
            act = c['actions'][n]
            if act[0] == 's' and act[1] in dead:
                continue
            if _is_unmodelled(m):
                # the case left the modelled fragment: what the real step did to shared state (a template
                # prepared by an include inside matched content, ...) is not in the model from here on
                res.count('model:unmodelled')
                for ft in c.get('lazy') or ():
                    res.count('model:unmodelled:' + ft)
                if os.environ.get('C10_DEBUG_UNMODELLED') and c.get('lazy'):
                    sys.stderr.write('UNMODELLED %s at %d: %s\n' % (c['lazy'], n, c['tmpl']['src']))
                break
            res.streams[stream] = res.streams.get(stream, 0) + 1
            if act[0] == 's' and isinstance(m, list) and len(m) > 2 and isinstance(m[2], list) and m[2] and m[2][0] == 'err':
                # after an exception the context is whatever the unwinding left; compare the exception only
                m, r = m[:3] + m[4:5] + m[6:], r[:3] + r[4:5] + r[6:]
                res.count('model:err:' + str(m[2][1]))
            elif act[0] == 's' and isinstance(m, list) and len(m) > 2 and m[2] == 'halted':
                m, r = m[:3] + m[4:5] + m[6:], r[:3] + r[4:5] + r[6:]
            elif act[0] == 's' and isinstance(m, list) and len(m) > 2 and m[2] == 'done':
                m, r = m[:5] + m[6:], r[:5] + r[6:]          # the finished generator has no frame to look into
            if m != r:
                res.disagreements.append({'stream': stream, 'case': c, 'model': 'action %d %s: %s' % (n, act, trunc(m, 700)),
                                          'real': trunc(r, 700)})
                break
            if act[0] == 's':
                res.count('model:step-ok')
        else:
            # the whole case stayed inside the model and agreed: say so per lazily evaluated construct
            for ft in c.get('lazy') or ():
                res.count('model:covered:' + ft)


def gen_model_case(rng):
    # now and then a lazily evaluated nested scope (generator expression, lambda under map(), generator function
    # of a code block): the step model has no counterpart and must say so (`unmodelled`, counted), the oracle
    # judges these cases
    lazy = rng.random() < 0.15
    t = G.rand_template(rng, modelled=True, focus='lazy' if lazy else None)
    tspec = {'src': t['src'], 'files': t['files'], 'translator': t['translator'], 'auto_reload': True}
    k = rng.choice([1, 2, 2, 3]) if not lazy else rng.choice([2, 2, 3])
    datas = [G.healthy_data(rng) if lazy else G.rand_data(rng, True, fail_bias=0.15 if rng.random() < 0.3 else 0.0)
             for _ in range(k)]
    acts = []
    pre = rng.random()
    if pre < 0.3:
        acts.append([rng.choice(['a', 'x', 'p', 'r'])])
    for i in range(k):
        acts.append(['o', i])
    # with a lazily evaluated scope in focus: long enough to get into it, half of the schedules in lock step (each
    # render is suspended inside its generator while the others run the same body with their data)
    sched = G.rand_schedule(rng, k, rng.choice([50, 90]), lockstep=0.5) if lazy else \
        G.rand_schedule(rng, k, rng.choice([10, 25, 50, 90]))
    for i in sched:
        acts.append(['s', i])
        if rng.random() < 0.06:
            acts.append([rng.choice(['x', 'a', 'p', 'r'])])
    case = {'kind': 'model', 'tmpl': tspec, 'data': datas, 'actions': acts}
    if lazy or any(f in G.LAZY_FEATURES for f in t['features']):
        case['lazy'] = [f for f in t['features'] if f in G.LAZY_FEATURES]
    return case, t['features']


# --------------------------------------------------------------------------
# generation + shards

def gen_case(rng, kind, modelled=False):
    focus = None if modelled else 'auto'
    t = G.rand_template(rng, modelled, focus)
    while kind == 'threads' and t['files']:
        # the loader serialises loads with an RLock; the line scheduler would park a thread inside it
        t = G.rand_template(rng, modelled, focus)
    t0 = t
    t = {'src': t['src'], 'files': t['files'], 'translator': t['translator'], 'auto_reload': t['auto_reload']}, t['features']
    tspec, feats = t
    focus = t0['focus']

    def data(**kw):
        # with a construct in focus the renders must get to it and past it: healthy data (one data set may still fail)
        return G.healthy_data(rng) if focus and rng.random() < 0.85 else G.rand_data(rng, modelled, **kw)
    if kind == 'seq':
        nd = rng.choice([1, 2, 2, 3])
        datas = [data() for _ in range(nd - 1)] + [data(fail_bias=0.25)]
        return {'kind': 'seq', 'tmpl': tspec, 'data': datas, 'ops': G.rand_ops(rng, nd, rng.choice([3, 4, 5, 6]))}, feats
    if kind == 'interleave':
        k = rng.choice([2, 2, 3])
        datas = [data(fail_bias=0.25 if rng.random() < 0.3 else 0.0) for _ in range(k)]
        if focus:
            sched = G.rand_schedule(rng, k, rng.choice([60, 120]), lockstep=0.5)
        else:
            sched = G.rand_schedule(rng, k, rng.choice([10, 30, 60, 120]))
        return {'kind': 'interleave', 'tmpl': tspec, 'data': datas, 'schedule': sched}, feats
    if kind == 'threads':
        datas = [data() for _ in range(2)]
        if focus:
            # long enough for both threads to be inside the construct at the same time (a line at a time)
            sched = []
            while len(sched) < 3000:
                sched.extend([rng.randrange(2)] * rng.choice([1, 3, 10, 40, 150]))
        else:
            sched = G.rand_schedule(rng, 2, rng.choice([20, 60, 200]))
        return {'kind': 'threads', 'tmpl': tspec, 'data': datas, 'prepared': True, 'schedule': sched}, feats
    raise ValueError(kind)


def check_footprints(case, foot, res, kind):
    """the footprint half of the correspondence: changed locations of the shared state must be the model's"""
    for f in foot:
        res.streams['footprint'] = res.streams.get('footprint', 0) + 1
        if kind == 'seq':
            locs = f['changed']
            op = f['op'][0]
            if not f['was_prepared'] and op in ('render', 'partial', 'extract', 'stream', 'load'):
                # model: first .stream access writes _stream and _prepared (Heap.access); everything under
                # tmpl._stream is new, so only the other templates of the loader are compared
                locs = [k for k in locs if not (k[0] == 'tmpl' and (k[1] == '_prepared' or k[1] == '_stream'))]
                locs = [k for k in locs if k[0] != 'loader']   # includes are loaded / prepared on demand
                res.count('footprint:prepare')
            benign, other = classify_tmpl_diff(f['before'], f['after'], locs)
            other = [k for k in other if not (k[0] == 'loader' and _fresh_loader_entry(f, k))]
        else:
            benign, other = classify_tmpl_diff(f['before'], f['after'], f['tmpl_changed'])
            other = [k for k in other if not (k[0] == 'loader' and _fresh_loader_entry(f, k))]
            if f['others_changed']:
                res.disagreements.append({'stream': 'footprint', 'case': case,
                                          'model': 'next() of render %d writes only its own context' % f['render'],
                                          'real': 'contexts of renders %s changed at step %d' % (f['others_changed'], f['step'])})
        if benign:
            res.count('footprint:benign-write:branch-params', len(benign))
        if other:
            res.disagreements.append({'stream': 'footprint', 'case': case,
                                      'model': 'template footprint of %s is empty' % (f.get('op') or ('next(%d)' % f['render'])),
                                      'real': 'changed: %s' % trunc([list(map(str, k)) for k in other[:6]], 500)})


def _fresh_loader_entry(f, k):
    """a template that entered the loader cache, or was prepared, during the operation (run-time include)"""
    name = k[1]
    if name == 'keys':
        return True
    b, a = f['before'], f['after']
    if ('loader', name, '_prepared') not in b:
        return True
    if b[('loader', name, '_prepared')] is False:
        return True
    return False


def ref_main():
    """entry point of the pristine reference process: solo renders of the cases on stdin, each computed
    in an interpreter in which nothing else was ever rendered"""
    from harness import stage
    stage.stage('c')
    req = json.load(sys.stdin)
    out = [list(solo(req['tmpl'], d)) for d in req['data']]
    json.dump(out, sys.stdout)


def pristine_solo(case):
    import os, subprocess
    root = os.path.dirname(os.path.dirname(os.path.dirname(os.path.abspath(__file__))))
    code = 'import sys; sys.path.insert(0, %r); from harness.props import c10; c10.ref_main()' % root
    p = subprocess.run([sys.executable, '-B', '-c', code], input=json.dumps({'tmpl': case['tmpl'], 'data': case['data']}).encode(),
                       stdout=subprocess.PIPE, stderr=subprocess.PIPE, timeout=120)
    if p.returncode != 0:
        raise RuntimeError('reference process failed: ' + p.stderr.decode()[-300:])
    return [(ev, term) for ev, term in json.loads(p.stdout.decode())]


def oracle_pristine(case, res=None):
    """"rendering alone" taken literally: the render of a fresh object in this worker process -- in which
    hundreds of other renders already happened -- must equal the render in a pristine interpreter
    (state that outlives a render anywhere outside the template object: module globals, class attributes,
    default arguments)"""
    fails = []
    here = [solo(case['tmpl'], d) for d in case['data']]
    there = pristine_solo(case)
    for k, (a, b) in enumerate(zip(here, there)):
        a = json.loads(json.dumps(a))
        cmp_render(case, 'data set %d: a fresh object renders in this (used) process what it renders in a pristine process' % k,
                   (a[0], a[1]), (b[0], b[1]), fails)
    return fails


def shard(arg):
    import random
    seed, idx, n, tier = arg
    rng = random.Random('%s/%s/C10' % (seed, idx))
    res = Result()
    recent = []
    for j in range(n):
        kind = ['seq', 'interleave', 'seq', 'interleave', 'threads'][j % 5] if j % 10 == 9 or j % 5 != 4 else 'interleave'
        case, feats = gen_case(rng, kind)
        res.evaluations += 1
        res.count('kind:' + kind)
        for ft in feats:
            res.count('feature:' + ft)
            if ft in G.LAZY_FEATURES or ft == 'match-stateful':
                # the constructs whose state outlives one next() outside the context: per oracle kind
                res.count('%s:%s' % (ft, kind))
        try:
            with watchdog(120):
                if kind == 'seq':
                    fails, foot = oracle_seq(case, res)
                elif kind == 'interleave':
                    fails, foot = oracle_interleave(case, res)
                else:
                    fails, foot = oracle_threads(case, res), []
        except RecursionError:
            res.count('harness-recursion')
            continue
        except Hang:
            res.count('case-timeout')      # load, not a verdict: a render that does not come back is caught per next()
            continue
        check_footprints(case, foot, res, kind)
        if fails:
            res.failures.append(fails[0])
        if len(feats) >= 2:
            res.nontrivial.add(json.dumps([kind, case['tmpl']['src'][:300], len(case['data'])], sort_keys=True)[:400])
        if j < 2:
            res.samples.append(case)
        if not case['tmpl'].get('files') and len(feats) >= 3:
            recent.append(case)
    # a few of the cases once more against a pristine interpreter (at the end: this process has history now)
    for case in recent[-(4 if tier != 'thorough' else 12):]:
        res.count('kind:pristine')
        try:
            f = oracle_pristine({'kind': 'pristine', 'tmpl': case['tmpl'], 'data': case['data']}, res)
        except Exception as e:  # noqa
            res.count('pristine-infra-' + type(e).__name__)
            continue
        res.evaluations += 1
        if f:
            res.failures.append(f[0])
    return res


def model_shard(arg):
    import random
    seed, idx, n, variant = arg
    rng = random.Random('%s/%s/C10/model' % (seed, idx))
    res = Result()
    cases = []
    for j in range(n):
        case, feats = gen_model_case(rng)
        cases.append(case)
        res.evaluations += 1
        res.count('kind:model')
        for ft in feats:
            res.count('mfeature:' + ft)
        res.nontrivial.add(json.dumps(['model', case['tmpl']['src'][:300], len(case['data'])])[:400])
    compare_model(cases, res, variant)
    # the same cases through the oracle: the schedule part as an interleaving, the operations as a sequence
    for case in cases[: max(1, n // 3)]:
        sched = [a[1] for a in case['actions'] if a[0] == 's']
        ic = {'kind': 'interleave', 'tmpl': case['tmpl'], 'data': case['data'], 'schedule': sched}
        fails, foot = oracle_interleave(ic, res)
        check_footprints(ic, foot, res, 'interleave')
        if fails:
            res.failures.append(fails[0])
    res.samples = cases[:1]
    return res


def code_variant():
    """the variant the translator probed (same probes as harness/extract_heap.py)"""
    from harness import extract_heap
    return extract_heap._probe_variant()


def run(ctx):
    nsh = 16
    per = ctx.n(60, 1500)
    res = Result()
    for r in pmap('harness.props.c10', 'shard', [(ctx.seed, i, per, ctx.tier) for i in range(nsh)]):
        res.merge(r)
    variant = tuple(code_variant())
    # corpus first: minimised past disagreements between the model and the code
    import glob, os
    root = os.path.dirname(os.path.dirname(os.path.dirname(os.path.abspath(__file__))))
    corpus = []
    for f in sorted(glob.glob(os.path.join(root, 'corpus', 'C10', '*.json'))):
        with open(f) as fh:
            c = json.load(fh)
        c.pop('why', None)
        corpus.append(c)
    if corpus:
        compare_model(corpus, res, variant, stream='corpus')
    res.notes.append('code variant probed: callCopies=%s extractCopies=%s' % variant)
    mper = ctx.n(40, 600)
    for r in pmap('harness.props.c10', 'model_shard', [(ctx.seed, i, mper, variant) for i in range(nsh)]):
        res.merge(r)
    race_corr(ctx.rng('race'), ctx.n(150, 3000), res)
    res.failures.extend(threads_systematic(res, ctx.n(40, 8)))
    res.rule = ('generated markup templates (py: directives in attribute and element form, macros, match templates '
                'incl. multi-step / positional paths next to a fragment on which they fire, lazily evaluated nested scopes '
                '(generator expressions, lambdas under map(), generator functions of code blocks) reading context variables, '
                'interpolated attributes and py:attrs, includes through a loader, i18n directives) x API operation sequences / next() schedules over 2-3 open '
                'renders / 2 threads under the line scheduler; model cases: templates of the modelled fragment x '
                'schedules of open / next / extract / stream / pickle / register compared step by step with gdrv; '
                'race cases: random schedules of 2-3 threads over the program points of Template.stream/_prepare_self '
                'replayed on the real code by a point scheduler and compared with raceStep; '
                'non-trivial = at least two distinct constructs; distinct by (kind, source, number of data sets)')
    res.samples = res.samples[:6]
    return res


def search(ctx, res, broken):
    found = []
    for d in res.disagreements[:100]:
        try:
            f = oracle_case(d['case'])
        except Exception:  # noqa
            f = None
        if f:
            found.extend(f[:1])
    if found:
        return found
    for r in pmap('harness.props.c10', 'shard', [(ctx.seed + 1000 + i, i, 300, ctx.tier) for i in range(16)]):
        found.extend(r.failures)
    return found


def replay(ctx, case):
    f = oracle_case(case)
    return f[0] if f else None

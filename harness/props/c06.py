"""C06 — the HTML sanitizer emits only whitelisted, script-free markup and never fails.

Oracle on the real code (independent of the Lean model and of genshi's regular expressions):
whitelist check, nesting / dropped-subtree check by event positions, a browser-like scheme
reader and CSS reader written here, and the same checks on the re-parse of the HTML and XHTML
serialisations.  Correspondence: the same cases through `gdrv` (Lean model of the sanitizer,
stripentities, is_safe_uri, sanitize_css) and the real functions.
"""
import hashlib, json, random, re, unicodedata
from harness import proto, gen_soup
from harness.framework import Result, pmap, Hang, deadline
from harness.proto import Atom, B, N

PROP = 'C06'
TRUSTED = [
    'modelled, not verified: genshi/filters/html.py HTMLSanitizer (__call__, is_safe_elem, is_safe_uri, is_safe_css, '
    'sanitize_css, _replace_unicode_escapes, _strip_css_comments) and genshi/util.py stripentities: hand-written Lean '
    'model tied by correspondence on tag soup, raw event streams, CSS texts, URIs and entity texts, each helper also by '
    'itself, and at depths beyond the recursion limit of the interpreter (stream deep)',
    'not modelled: the `re` engine (the five regular expressions are re-implemented as list scanners), html.parser and '
    'the serializers (exercised by the re-parse oracle only), str.lower beyond the generated per-character table '
    '(final-sigma context)',
    'the browser-like readers (scheme, CSS escapes/comments) are a specification chosen here, not a browser',
]
ASSUMPTIONS = [
    'event streams are well typed (QName tags, str attribute values, str TEXT) and namespace prefixes in START_NS events are XML names (no parser yields anything else; a prefix with blanks would be written into the start tag by the XHTML serializer); TEXT that is a Markup instance is trusted by construction',
    'nesting and dropped-subtree guarantees are claimed for well-nested input streams (every parser produces those)',
    'strings are sequences of Unicode scalar values on the model side (lone surrogates only occur via &#xD800;-style references, which the repaired stripentities maps to U+FFFD)',
]

# ---------------------------------------------------------------------------------------
# configurations

def resolve_cfg(cfg):
    """canonical cfg (None or dict of add/remove/set) -> dict of five sorted lists (None kept out:
    'no scheme' is always accepted by the code)"""
    from genshi.filters.html import HTMLSanitizer as S
    base = {'safe_tags': S.SAFE_TAGS, 'safe_attrs': S.SAFE_ATTRS, 'safe_schemes': S.SAFE_SCHEMES,
            'uri_attrs': S.URI_ATTRS, 'safe_css': S.SAFE_CSS}
    out = {}
    for k, v in base.items():
        cur = set(x for x in v if x is not None)
        spec = (cfg or {}).get(k)
        if spec:
            if 'set' in spec:
                cur = set(spec['set'])
            cur |= set(spec.get('add', []))
            cur -= set(spec.get('remove', []))
        out[k] = sorted(str(x) for x in cur)
    return out


def make_sanitizer(cfg):
    from genshi.filters.html import HTMLSanitizer
    r = resolve_cfg(cfg)
    return HTMLSanitizer(safe_tags=frozenset(r['safe_tags']), safe_attrs=frozenset(r['safe_attrs']),
                         safe_schemes=frozenset(r['safe_schemes'] + [None]), uri_attrs=frozenset(r['uri_attrs']),
                         safe_css=frozenset(r['safe_css'])), r


# ---------------------------------------------------------------------------------------
# events as JSON <-> genshi

def jev_to_genshi(e, pos):
    from genshi.core import (START, END, TEXT, COMMENT, PI, DOCTYPE, XML_DECL, START_NS, END_NS,
                             START_CDATA, END_CDATA, QName, Attrs, Markup)
    k = e[0]
    q = lambda p: QName('{%s}%s' % (p[0], p[1]) if p[0] else p[1])
    if k == 'S':
        return (START, (q(e[1]), Attrs([(q(a), v) for a, v in e[2]])), pos)
    if k == 'E':
        return (END, q(e[1]), pos)
    if k == 'T':
        return (TEXT, Markup(e[1]) if e[2] else e[1], pos)
    if k == 'C':
        return (COMMENT, e[1], pos)
    if k == 'PI':
        return (PI, (e[1], e[2]), pos)
    if k == 'DT':
        return (DOCTYPE, (e[1], e[2], e[3]), pos)
    if k == 'XD':
        return (XML_DECL, (e[1], e[2], e[3]), pos)
    if k == 'NS':
        return (START_NS, (e[1], e[2]), pos)
    if k == 'ENS':
        return (END_NS, e[1], pos)
    if k == 'SC':
        return (START_CDATA, None, pos)
    if k == 'EC':
        return (END_CDATA, None, pos)
    raise ValueError(e)


def genshi_to_jev(ev):
    from genshi.core import (START, END, TEXT, COMMENT, PI, DOCTYPE, XML_DECL, START_NS, END_NS,
                             START_CDATA, END_CDATA, Markup)
    kind, data = ev[0], ev[1]

    def q(name):
        # A QName *is* its string value; the pair form is [ns, local] for '{ns}local' with a
        # non-empty namespace and ['', value] otherwise.  The namespace of QName('}x') (html.parser
        # yields such attribute names) is the EMPTY string, not None: its value is '{}x', which is
        # what the safe sets, `waiting_for` and Attrs.get compare -- never the local name 'x'.
        ns = getattr(name, 'namespace', None)
        if ns:
            return [str(ns), str(name.localname)]
        return ['', str(name)]
    if kind is START:
        return ['S', q(data[0]), [[q(a), str(v)] for a, v in data[1]]]
    if kind is END:
        return ['E', q(data)]
    if kind is TEXT:
        return ['T', str(data), isinstance(data, Markup)]
    if kind is COMMENT:
        return ['C', str(data)]
    if kind is PI:
        return ['PI', str(data[0]), str(data[1])]
    if kind is DOCTYPE:
        return ['DT', str(data[0]), data[1], data[2]]
    if kind is XML_DECL:
        return ['XD', str(data[0]), data[1], int(data[2])]
    if kind is START_NS:
        return ['NS', str(data[0]), str(data[1])]
    if kind is END_NS:
        return ['ENS', str(data)]
    if kind is START_CDATA:
        return ['SC']
    if kind is END_CDATA:
        return ['EC']
    return ['OTHER', str(kind)]


def tuple_ev_to_jev(t):
    """gen_soup tuple form -> JSON form"""
    k = t[0]
    if k == 'S':
        return ['S', list(t[1]), [[list(a), v] for a, v in t[2]]]
    if k == 'E':
        return ['E', list(t[1])]
    return list(t)


def qtext(p):
    return '{%s}%s' % (p[0], p[1]) if p[0] else p[1]


# ---------------------------------------------------------------------------------------
# the browser-like readers (specification side of the oracle)

def is_ws_ctl(c):
    """whitespace and control characters a browser discards when it looks for the scheme"""
    return c.isspace() or unicodedata.category(c) == 'Cc'


_SCHEME = re.compile(r'[A-Za-z][A-Za-z0-9+.\-]*\Z')


def browser_scheme(v):
    """the scheme of a URI value as a browser reads it: whitespace and control characters removed,
    the text before the first ':' if it has the syntax of a scheme, ASCII case folded; else None"""
    s = ''.join(c for c in v if not is_ws_ctl(c))
    i = s.find(':')
    if i < 0:
        return None
    p = s[:i]
    if _SCHEME.match(p):
        return p.lower()
    return None


_HEX = '0123456789abcdefABCDEF'
_KEEP_ESCAPED = '\'"{};:()#*'   # an escaped delimiter is not a delimiter: it stays escaped


def css_unescape_once(t):
    out = []
    i, n = 0, len(t)
    while i < n:
        c = t[i]
        if c != '\\' or i + 1 >= n:
            out.append(c)
            i += 1
            continue
        j = i + 1
        k = j
        while k < n and k - j < 6 and t[k] in _HEX:
            k += 1
        if k > j:
            cp = int(t[j:k], 16)
            out.append(chr(cp) if cp < 0x110000 and not 0xd800 <= cp <= 0xdfff else '�')
            if t[k:k + 2] == '\r\n':
                k += 2
            elif k < n and t[k] in ' \t\n\r\x0c':
                k += 1
            i = k
            continue
        d = t[j]
        if d in '\n\r\x0c':
            out.append(c)
            i += 1
        elif d == '\\' or d in _KEEP_ESCAPED:
            out.append(c + d)
            i += 2
        else:
            out.append(d)
            i += 2
    return ''.join(out)


def css_strip_comments_once(t):
    out = []
    i, n = 0, len(t)
    while i < n:
        if t[i:i + 2] == '/*':
            j = t.find('*/', i + 2)
            if j >= 0:
                i = j + 2
                continue
        out.append(t[i])
        i += 1
    return ''.join(out)


def css_decode(t):
    """escape decoding and comment removal, repeated until nothing changes"""
    for _ in range(len(t) + 2):
        n = css_strip_comments_once(css_unescape_once(t))
        if n == t:
            return t
        t = n
    return t


_FOLD = {0x280: 'r', 0x26a: 'i', 0x274: 'n', 0x29f: 'l'}


def css_fold(t, wide):
    out = []
    for c in t:
        o = ord(c)
        if o in _FOLD:
            c = _FOLD[o]
        elif wide and 0xff21 <= o <= 0xff5a:
            c = chr(o - 0xfee0)
        out.append(chr(ord(c) + 32) if 'A' <= c <= 'Z' else c)
    return ''.join(out)


_URL_OPEN = re.compile(r'url\s*\(')


def css_url_args(d):
    """the arguments of the url( tokens of a decoded style text, left to right: an argument runs to
    the closing parenthesis (or the end) and is skipped as a whole; url() holds no URI"""
    f = css_fold(d, False)
    out = []
    i = 0
    while i < len(f):
        m = _URL_OPEN.match(f, i)
        if not m:
            i += 1
            continue
        j = d.find(')', m.end())
        arg = d[m.end():] if j < 0 else d[m.end():j]
        if not arg:
            i += 1
            continue
        out.append(arg)
        i = m.end() + len(arg)
    return out


def css_problems(style, schemes):
    """what a browser would find objectionable in the text of a style attribute"""
    d = css_decode(style)
    probs = []
    if re.search(r'expression\s*\(', css_fold(d, True)):
        probs.append('expression(')
    for arg in css_url_args(d):
        arg = arg.strip().strip('"\'').strip()
        sch = browser_scheme(arg)
        if sch is not None and sch not in schemes:
            probs.append('url( with scheme %r' % sch)
    return probs


# ---------------------------------------------------------------------------------------
# the guarantees on one output stream

def check_events(out, r, where, wellnested_expected):
    """out: JSON events. Returns a list of (what, observed)"""
    bad = []
    stack = []
    nest_ok = True
    for e in out:
        k = e[0]
        if k == 'S':
            tag = qtext(e[1])
            if tag not in r['safe_tags']:
                bad.append(('%s: element not in the safe set' % where, tag))
            for a, v in e[2]:
                an = qtext(a)
                if an not in r['safe_attrs']:
                    bad.append(('%s: attribute not in the safe set' % where, an))
                    continue
                if an in r['uri_attrs']:
                    sch = browser_scheme(v)
                    if sch is not None and sch not in r['safe_schemes']:
                        bad.append(('%s: URI attribute with unsafe scheme' % where, [an, v, sch]))
                if an == 'style':
                    for p in css_problems(v, r['safe_schemes']):
                        bad.append(('%s: style attribute with %s' % (where, p), v))
            stack.append(tag)
        elif k == 'E':
            tag = qtext(e[1])
            if stack and stack[-1] == tag:
                stack.pop()
            else:
                nest_ok = False
            if wellnested_expected and tag not in r['safe_tags']:
                bad.append(('%s: end tag of an element not in the safe set' % where, tag))
        elif k == 'C':
            bad.append(('%s: comment in the output' % where, e[1]))
    if wellnested_expected and (not nest_ok or stack):
        bad.append(('%s: output is not well nested' % where, 'open=%r' % stack))
    return bad


def is_wellnested(evs):
    stack = []
    for e in evs:
        if e[0] == 'S':
            stack.append(e[1])
        elif e[0] == 'E':
            if not stack or stack[-1] != e[1]:
                return False
            stack.pop()
    return not stack


def check_dropped(inp, kept_idx, where):
    """well-nested input, `kept_idx` = indexes of the input events that were emitted: everything
    inside an element whose START was not emitted must be absent, and the END of an emitted START
    must be emitted"""
    bad = []
    kept = set(kept_idx)
    stack = []     # (index of START, kept?, inside_dropped?)
    for i, e in enumerate(inp):
        inside = bool(stack) and (stack[-1][2] or not stack[-1][1])
        if e[0] == 'S':
            if inside and i in kept:
                bad.append(('%s: START inside a dropped element is emitted' % where, i))
            stack.append((i, i in kept, inside))
        elif e[0] == 'E':
            s = stack.pop()
            if (i in kept) != (s[1] and not s[2]):
                bad.append(('%s: END emitted iff its START was emitted' % where, i))
        else:
            if inside and i in kept:
                bad.append(('%s: event inside a dropped element is emitted' % where, [i, e]))
    return bad


class _Reader(object):
    """the serialised output read again by html.parser itself (character references in attribute
    values decoded exactly once, as a browser does; genshi's HTMLParser would decode twice)"""

    def __init__(self):
        import html.parser

        outer = self
        self.events = []

        class P(html.parser.HTMLParser):
            def handle_starttag(self, tag, attrs):
                outer.events.append(['S', ['', tag], [[['', k], k if v is None else v] for k, v in attrs]])

            def handle_endtag(self, tag):
                outer.events.append(['E', ['', tag]])

            def handle_comment(self, data):
                outer.events.append(['C', data])

        self.p = P(convert_charrefs=True)

    def read(self, text):
        self.p.feed(text)
        self.p.close()
        return self.events


def reparse_checks(out_events, r, res=None):
    """serialise the sanitized stream as HTML and XHTML, parse again: the same guarantees on
    elements, attributes, comments, URIs and styles (namespace declarations written by the
    serializer for START_NS events are not attributes of the stream and are skipped)"""
    from genshi.core import Stream
    bad = []
    for method in ('html', 'xhtml'):
        try:
            text = Stream(out_events).render(method, encoding=None)
        except Exception as ex:
            if res is not None:
                res.count('render-%s-raised:%s' % (method, type(ex).__name__))
            continue
        try:
            j = _Reader().read(text)
        except Exception as ex:
            if res is not None:
                res.count('reparse-%s-raised:%s' % (method, type(ex).__name__))
            continue
        for e in j:
            if e[0] == 'S':
                e[2] = [a for a in e[2] if not (a[0][1] == 'xmlns' or a[0][1].startswith('xmlns:'))]
        for what, obs in check_events(j, r, 're-parse of %s output' % method, False):
            bad.append((what, [obs, text[:300]]))
        if method == 'html':
            # ... and by genshi's own HTML parser, which decodes attribute values once more
            try:
                from genshi.input import HTML, ParseError
                g = [genshi_to_jev(e) for e in HTML(text)]
            except Exception as ex:
                if res is not None:
                    res.count('reparse-genshi-raised:%s' % type(ex).__name__)
                continue
            for what, obs in check_events(g, r, 're-parse of html output by genshi.input.HTML', False):
                bad.append((what, [obs, text[:300]]))
    return bad


# ---------------------------------------------------------------------------------------
# the oracle on one case

def exc_name(ex):
    return type(ex).__name__


_HUNG = False


def run_real(case):
    """-> dict(status='ok'|'parse-error'|'raised', inp=[jev], out=[jev], kept=[idx], exc=...)"""
    from genshi.input import HTML, ParseError
    san, r = make_sanitizer(case.get('cfg'))
    if case['kind'] == 'html':
        try:
            evs = list(HTML(case['text']))
        except ParseError as ex:
            return {'status': 'parse-error', 'exc': str(ex)[:100], 'r': r}
        evs = [(k, d, (None, i, 0)) for i, (k, d, _) in enumerate(evs)]
    else:
        evs = [jev_to_genshi(e, (None, i, 0)) for i, e in enumerate(case['events'])]
    inp = [genshi_to_jev(e) for e in evs]
    global _HUNG
    try:
        # termination is part of the property: a call that does not come back is a failure with this input
        # (after the first one the limit drops, so that a change that hangs on everything still ends the check)
        with deadline(5 if _HUNG else 120):
            out = list(san(iter(evs)))
    except Hang as ex:
        _HUNG = True
        return {'status': 'raised', 'exc': 'does not terminate: %s' % ex, 'inp': inp, 'r': r}
    except Exception as ex:   # noqa: totality is the property
        return {'status': 'raised', 'exc': '%s: %s' % (exc_name(ex), str(ex)[:120]), 'inp': inp, 'r': r}
    return {'status': 'ok', 'inp': inp, 'out_events': out, 'out': [genshi_to_jev(e) for e in out],
            'kept': [e[2][1] for e in out], 'r': r}


def oracle_case(case, res=None, real=None):
    """the one judge of a case: the run, the search, the shrinker and --replay all come through
    here, so a case is judged the same way everywhere (a case outside the ASSUMPTIONS is counted
    and not judged)"""
    if not in_domain(case):
        if res is not None:
            res.count('outside-assumptions')
        return None
    kind = case['kind']
    if kind == 'deep':
        # a depth-parameterised case is judged as the concrete case it stands for (same clauses:
        # the call returns without an exception of any type, whitelist, nesting, re-parse); the
        # report keeps the compact form
        f = oracle_case(expand_deep(case), res, real)
        if f:
            f = {'case': case, 'what': 'at depth %d (%s via %s): %s' % (case['depth'], case['shape'], case['via'], f['what']),
                 'expected': f['expected'], 'observed': _short(f['observed'])}
        return f
    fails = []

    def bad(what, expected, observed):
        fails.append({'case': case, 'what': what, 'expected': expected, 'observed': observed})

    if kind in ('html', 'raw'):
        rr = real or run_real(case)
        if res is not None:
            res.count('status:' + rr['status'])
        if rr['status'] == 'parse-error':
            return None
        if rr['status'] == 'raised':
            bad('the sanitizer terminates without raising', 'a stream', rr['exc'])
            return fails[0]
        r = rr['r']
        wn = is_wellnested(rr['inp'])
        if res is not None:
            res.count('input-wellnested:%s' % wn)
        for what, obs in check_events(rr['out'], r, 'output', wn):
            bad(what, 'guarantee holds', obs)
        if wn:
            for what, obs in check_dropped(rr['inp'], rr['kept'], 'output'):
                bad(what, 'absent', obs)
            for what, obs in reparse_checks(rr['out_events'], r, res):
                bad(what, 'guarantee holds', obs)
    elif kind == 'css':
        san, r = make_sanitizer(case.get('cfg'))
        try:
            decls = san.sanitize_css(case['text'])
        except Exception as ex:  # noqa
            bad('sanitize_css terminates without raising', 'a list', '%s: %s' % (exc_name(ex), str(ex)[:120]))
            return fails[0]
        for p in css_problems('; '.join(decls), r['safe_schemes']):
            bad('sanitize_css result has no %s' % p, 'absent', decls)
    elif kind == 'uri':
        san, r = make_sanitizer(case.get('cfg'))
        try:
            ok = san.is_safe_uri(case['text'])
        except Exception as ex:  # noqa
            bad('is_safe_uri terminates without raising', 'a bool', '%s: %s' % (exc_name(ex), str(ex)[:120]))
            return fails[0]
        sch = browser_scheme(case['text'])
        if ok and sch is not None and sch not in r['safe_schemes']:
            bad('an accepted URI has a safe scheme (as a browser reads it)', 'scheme in %r or none' % r['safe_schemes'], sch)
    elif kind == 'ent':
        from genshi.util import stripentities
        try:
            stripentities(case['text'])
        except Exception as ex:  # noqa
            bad('stripentities terminates without raising', 'a str', '%s: %s' % (exc_name(ex), str(ex)[:120]))
    else:
        raise ValueError(kind)
    return fails[0] if fails else None


# ---------------------------------------------------------------------------------------
# generation

def gen_cases(rng, n):
    cases = []
    for _ in range(n):
        r = rng.random()
        cfg = gen_soup.config(rng)
        if r < 0.40:
            allow_style = True
            cases.append({'kind': 'html', 'text': gen_soup.soup_text(rng, allow_style), 'cfg': cfg})
        elif r < 0.65:
            evs, _ = gen_soup.raw_stream(rng)
            cases.append({'kind': 'raw', 'events': [tuple_ev_to_jev(e) for e in evs], 'cfg': cfg})
        elif r < 0.83:
            cases.append({'kind': 'css', 'text': gen_soup.css_payload(rng), 'cfg': cfg})
        elif r < 0.94:
            cases.append({'kind': 'uri', 'text': gen_soup.uri_payload(rng, css=rng.random() < 0.3), 'cfg': cfg})
        else:
            t = ''.join(rng.choice([gen_soup.bad_refs(rng), gen_soup.ent(rng.choice('j:<&a'), rng), 'x', ' '])
                        for _ in range(rng.randrange(1, 5)))
            cases.append({'kind': 'ent', 'text': t})
    return cases


# ---------------------------------------------------------------------------------------
# correspondence with the Lean model (and of the Lean spec with the oracle's readers)

def has_surrogate(x):
    if isinstance(x, str):
        return any(0xD800 <= ord(c) <= 0xDFFF for c in x)
    if isinstance(x, (list, tuple)):
        return any(has_surrogate(y) for y in x)
    return False


def wire_cfg(cfg):
    if cfg is None:
        return Atom('D')
    r = resolve_cfg(cfg)
    return [r['safe_tags'], r['safe_attrs'], r['safe_schemes'], r['uri_attrs'], r['safe_css']]


def wire_ev(e):
    k = e[0]
    opt = lambda x: N if x is None else x
    if k == 'S':
        return [Atom('S'), list(e[1]), [[list(a), v] for a, v in e[2]]]
    if k == 'E':
        return [Atom('E'), list(e[1])]
    if k == 'T':
        return [Atom('T'), e[1], B(e[2])]
    if k == 'C':
        return [Atom('C'), e[1]]
    if k == 'PI':
        return [Atom('PI'), e[1], e[2]]
    if k == 'DT':
        return [Atom('DT'), e[1], opt(e[2]), opt(e[3])]
    if k == 'XD':
        return [Atom('XD'), e[1], opt(e[2]), Atom(str(int(e[3])))]
    if k == 'NS':
        return [Atom('NS'), e[1], e[2]]
    if k == 'ENS':
        return [Atom('ENS'), e[1]]
    if k in ('SC', 'EC'):
        return Atom(k)
    raise ValueError(e)


def model_requests(case, real):
    """-> list of (stream name, request line, expected answer as a decoded wire value)"""
    k = case['kind']
    cfgw = wire_cfg(case.get('cfg'))
    out = []
    if k in ('html', 'raw'):
        if real['status'] == 'parse-error':
            return out
        if real['status'] == 'ok':
            exp = [Atom('ok'), [wire_ev(e) for e in real['out']]]
        else:
            exp = [Atom('err'), Atom(real['exc'].split(':')[0])]
        out.append(('sanitize', proto.line(Atom('C06'), Atom('filter'), cfgw, [wire_ev(e) for e in real['inp']]), exp))
        # is_safe_elem by itself, also under a configuration that holds the tag's own string value
        # (so that the password rule -- which looks at QName.localname -- is reached for names with
        # a namespace, an EMPTY namespace ('{}input') or braces too)
        starts = [e for e in real['inp'] if e[0] == 'S']
        odd = [e for e in starts if 'input' in e[1][1].lower() or '}' in qtext(e[1])]
        for e in (odd or starts)[:1]:     # one element per case keeps the stream cheap
            tag = jev_to_genshi(e, None)[1]
            for extra in ((True,) if len(starts) % 2 else (False, True)):
                cfg2 = case.get('cfg')
                if extra:
                    cfg2 = dict(cfg2 or {})
                    st = dict(cfg2.get('safe_tags') or {})
                    st['add'] = sorted(set(st.get('add', [])) | {qtext(e[1])})
                    st['remove'] = sorted(set(st.get('remove', [])) - {qtext(e[1])})
                    cfg2['safe_tags'] = st
                san2, _r2 = make_sanitizer(cfg2)
                try:
                    expb = B(bool(san2.is_safe_elem(tag[0], tag[1])))
                except Exception as ex:  # noqa
                    expb = [Atom('err'), Atom(exc_name(ex))]
                out.append(('is_safe_elem', proto.line(Atom('C06'), Atom('elem'), wire_cfg(cfg2), list(e[1]),
                                                       [[list(a), v] for a, v in e[2]]), expb))
        if real['status'] == 'ok':
            # a DOCTYPE the filter keeps (no '>' in it, any quotes), as the HTML serializer writes it
            # and html.parser reads it back, against the html-mode reader of the re-parse theorems
            # (`feed_doctype_html`: read back whole whatever the quotes)
            for e in [e for e in real['out'] if e[0] == 'DT'][:1]:
                rq = doctype_reader_request(e)
                if rq:
                    out.append(rq)
            r = real['r']
            for e in real['out']:
                if e[0] != 'S':
                    continue
                for a, v in e[2]:
                    if qtext(a) in r['uri_attrs']:
                        out.append(('spec-scheme', proto.line(Atom('C06'), Atom('bscheme'), v), N if browser_scheme(v) is None else browser_scheme(v)))
                    if qtext(a) == 'style':
                        out.append(('spec-cssok', proto.line(Atom('C06'), Atom('cssok'), r['safe_schemes'], v),
                                    B(not css_problems(v, r['safe_schemes']))))
    elif k == 'css':
        san, r = make_sanitizer(case.get('cfg'))
        try:
            exp = [Atom('ok'), list(san.sanitize_css(case['text']))]
        except Exception as ex:  # noqa
            exp = [Atom('err'), Atom(exc_name(ex))]
        out.append(('sanitize_css', proto.line(Atom('C06'), Atom('css'), cfgw, case['text']), exp))
        # the helpers one by one (wave 4): escape decoding, comment removal (on the text as given and
        # on the decoded text), is_safe_css on the pieces the loop of sanitize_css would hand it
        def call(f, *a):
            try:
                return [Atom('ok'), str(f(*a))]
            except Exception as ex:  # noqa
                return [Atom('err'), Atom(exc_name(ex))]
        un = call(san._replace_unicode_escapes, case['text'])
        out.append(('_replace_unicode_escapes', proto.line(Atom('C06'), Atom('unesc'), case['text']), un))
        for t in [case['text']] + ([un[1]] if un[0] == 'ok' and un[1] != case['text'] else []):
            out.append(('_strip_css_comments', proto.line(Atom('C06'), Atom('nocomm'), t), str(san._strip_css_comments(t))))
        if un[0] == 'ok':
            pieces = [d for d in san._strip_css_comments(un[1]).split(';') if ':' in d][:3]
            for d in pieces:
                pn, v = d.strip().split(':', 1)
                pn, v = pn.strip().lower(), v.strip()
                out.append(('is_safe_css', proto.line(Atom('C06'), Atom('propok'), cfgw, pn, v), B(bool(san.is_safe_css(pn, v)))))
        out.append(('spec-cssdecode', proto.line(Atom('C06'), Atom('cssdecode'), case['text']), css_decode(case['text'])))
        out.append(('spec-cssok', proto.line(Atom('C06'), Atom('cssok'), r['safe_schemes'], case['text']),
                    B(not css_problems(case['text'], r['safe_schemes']))))
    elif k == 'uri':
        san, r = make_sanitizer(case.get('cfg'))
        try:
            exp = B(san.is_safe_uri(case['text']))
        except Exception as ex:  # noqa
            exp = [Atom('err'), Atom(exc_name(ex))]
        out.append(('is_safe_uri', proto.line(Atom('C06'), Atom('uri'), cfgw, case['text']), exp))
        sch = browser_scheme(case['text'])
        out.append(('spec-scheme', proto.line(Atom('C06'), Atom('bscheme'), case['text']), N if sch is None else sch))
    elif k == 'ent':
        from genshi.util import stripentities
        try:
            exp = [Atom('ok'), str(stripentities(case['text']))]
        except Exception as ex:  # noqa
            exp = [Atom('err'), Atom(exc_name(ex))]
        out.append(('stripentities', proto.line(Atom('C06'), Atom('ent'), case['text']), exp))
        # the decoding loop of the attribute loop by itself: the value of a kept attribute
        from genshi.core import Attrs, QName, START
        from genshi.filters.html import HTMLSanitizer
        try:
            evs = list(HTMLSanitizer()(iter([(START, (QName('p'), Attrs([(QName('title'), case['text'])])), (None, 1, 0))])))
            exp2 = [Atom('ok'), str(evs[0][1][1].get('title'))]
        except Exception as ex:  # noqa
            exp2 = [Atom('err'), Atom(exc_name(ex))]
        out.append(('decode-loop', proto.line(Atom('C06'), Atom('refs'), case['text']), exp2))
    return out


def doctype_reader_request(e):
    from genshi.core import Stream, QName, Attrs, START, END, TEXT, DOCTYPE
    from harness import outlib
    pos = (None, 1, 0)
    try:
        text = Stream([(DOCTYPE, (e[1], e[2], e[3]), pos), (START, (QName('p'), Attrs()), pos), (TEXT, 'x', pos),
                       (END, QName('p'), pos)]).render('html', encoding=None, strip_whitespace=False)
    except Exception:   # a DOCTYPE event without a name: the serializer's business (C08)
        return None
    exp = []
    for t in outlib.html_tokens(text):
        if t[0] == 'decl':
            exp.append([Atom('DT'), t[1][8:]] if t[1].startswith('DOCTYPE ') else [Atom('OTHER'), t[1]])
        elif t[0] == 'start':
            exp.append([Atom('S'), t[1], [[a, N if v is None else v] for a, v in t[2]], B(False)])
        elif t[0] == 'startend':
            exp.append([Atom('S'), t[1], [[a, N if v is None else v] for a, v in t[2]], B(True)])
        elif t[0] == 'end':
            exp.append([Atom('E'), t[1]])
        elif t[0] == 'text':
            exp.append([Atom('T'), t[1]])
        elif t[0] == 'comment':
            exp.append([Atom('C'), t[1]])
        elif t[0] == 'pi':
            exp.append([Atom('PI'), t[1]])
        else:
            exp.append([Atom('OTHER'), str(t[1])])
    return ('reader-doctype-html', proto.line(Atom('C06'), Atom('htoks'), text), exp)


def compare(cases, reals, res, labels=None):
    """`labels`: what to report instead of the (large) concrete case"""
    reqs = []
    labels = labels or cases
    for i, c in enumerate(cases):
        if has_surrogate(json.loads(json.dumps(c))):
            res.count('model:skipped-surrogate-input')
            continue
        try:
            rs = model_requests(c, reals[i])
        except Exception as ex:  # noqa
            res.disagreements.append({'stream': 'harness', 'case': labels[i], 'model': None,
                                      'real': 'building the request raised %s: %s' % (exc_name(ex), ex)})
            continue
        for name, line, exp in rs:
            if has_surrogate(exp):
                res.count('model:skipped-surrogate-output')
                continue
            reqs.append((i, name, line, exp))
    answers = proto.run_lines([r[2] for r in reqs])
    for (i, name, _line, exp), ans in zip(reqs, answers):
        if ans == 'unmodelled':
            res.count('model:unmodelled')
            continue
        try:
            model = proto.dec(ans)
        except Exception:
            model = Atom(ans)
        if isinstance(exp, list) and len(exp) == 2 and exp[0] == 'ok' and exp[1] == [] and model == [Atom('ok')]:
            pass
        res.streams[name] = res.streams.get(name, 0) + 1
        if norm(model) != norm(exp):
            res.disagreements.append({'stream': name, 'case': labels[i], 'model': _diff_window(repr(model), repr(exp))[0],
                                      'real': _diff_window(repr(model), repr(exp))[1]})


def norm(x):
    """decoded wire values: an empty list decodes as [] either way; keep Atom/str distinct"""
    if isinstance(x, Atom):
        return ('A', str(x))
    if isinstance(x, str):
        return ('S', x)
    if isinstance(x, (list, tuple)):
        return [norm(y) for y in x]
    return x


def nontrivial_key(case, real):
    """a case is non-trivial when the sanitizer had to act: it dropped or rewrote something, or a
    text-level function met an escape / reference / scheme"""
    k = case['kind']
    if k in ('html', 'raw'):
        if real is None or real.get('status') != 'ok' or real['inp'] == real['out']:
            return None
    elif k == 'css':
        if not any(ch in case['text'] for ch in '\\/('):
            return None
    elif k == 'uri':
        if ':' not in case['text'] and '&' not in case['text']:
            return None
    elif k == 'ent':
        if '&' not in case['text']:
            return None
    txt = json.dumps(case, sort_keys=True)
    return txt if len(txt) < 600 else hashlib.sha1(txt.encode('utf-8', 'surrogatepass')).hexdigest()


def count_branches(real, res):
    """which parts of the filter a case reached (measured on the real run)"""
    r = real['r']
    kept = {}
    for e in real['out']:
        if e[0] == 'S':
            for a, v in e[2]:
                kept[qtext(a)] = kept.get(qtext(a), 0) + 1
    open_tags = []
    for e in real['inp']:
        if e[0] == 'S':
            tag = qtext(e[1])
            if tag not in r['safe_tags'] and tag in open_tags:
                res.count('branch:unsafe-element-nested-in-itself')
            open_tags.append(tag)
            for a, v in e[2]:
                an = qtext(a)
                if an == 'type' and '&' in v and 'input' in tag.lower():
                    res.count('branch:input-type-with-reference')
                    if '&amp;' in v:
                        res.count('branch:input-type-with-nested-reference')
                if an in r['safe_attrs'] and an in r['uri_attrs']:
                    res.count('branch:uri-attribute-seen')
                    if ':' in v:
                        res.count('branch:uri-attribute-with-colon')
                        head = v.split(':', 1)[0]
                        if '\n' in head or '\r' in head or '&#10' in head or 'NewLine' in head:
                            res.count('branch:uri-line-break-before-colon')
                        if any(ch in head for ch in '+-.'):
                            res.count('branch:uri-scheme-punctuation')
                if an in r['safe_attrs'] and an == 'style':
                    res.count('branch:style-attribute-seen')
                    if '\\' in v:
                        res.count('branch:style-with-escape')
                    if '/*' in v:
                        res.count('branch:style-with-comment')
        elif e[0] == 'E' and open_tags:
            open_tags.pop()
        elif e[0] == 'PI' and ('>' in e[1] or '>' in e[2]):
            res.count('branch:pi-with-gt')
        elif e[0] in ('SC', 'EC'):
            res.count('branch:cdata-marker')
        elif e[0] == 'DT':
            res.count('branch:doctype-with-gt' if any(x and '>' in x for x in e[1:4]) else 'branch:doctype-plain')
        if e[0] == 'S':
            for nm in [e[1]] + [a for a, _v in e[2]]:
                t = qtext(nm)
                if '{' in t or '}' in t:
                    res.count('branch:name-with-brace')
                if not nm[0] and t.startswith('{}'):
                    res.count('branch:name-in-empty-namespace')
    for e in real['out']:
        if e[0] == 'DT' and any(x and ('"' in x or "'" in x) for x in e[1:4]):
            res.count('branch:doctype-kept-with-quote')
    for an, n in kept.items():
        if an in r['uri_attrs']:
            res.count('branch:uri-attribute-kept', n)
        if an == 'style':
            res.count('branch:style-attribute-kept', n)


def shard(arg):
    seed, idx, n = arg
    rng = random.Random('%s/%s/C06' % (seed, idx))
    res = Result()
    cases = gen_cases(rng, n)
    reals = []
    for c in cases:
        res.evaluations += 1
        res.count('kind:' + c['kind'])
        real = run_real(c) if c['kind'] in ('html', 'raw') else None
        reals.append(real)
        f = oracle_case(c, res, real)
        if f:
            res.failures.append(f)
        key = nontrivial_key(c, real)
        if key:
            res.nontrivial.add(key)
        if real and real.get('status') == 'ok':
            ins = sum(1 for e in real['inp'] if e[0] == 'S')
            outs = sum(1 for e in real['out'] if e[0] == 'S')
            res.count('elements-dropped' if outs < ins else 'elements-all-kept')
            res.count('events-in', len(real['inp']))
            res.count('events-out', len(real['out']))
            count_branches(real, res)
    compare(cases, reals, res)
    res.samples = cases[:2]
    return res


def spelling_cases():
    """every single-letter respelling of the two CSS keywords (capital, full-width forms, small
    capital), as a declaration of its own: deterministic, so that a spelling dropped from one of
    the regular expressions is met on every run"""
    cases = []
    cfg = {'safe_attrs': {'add': ['style']}}
    smallcap = {'r': '\u0280', 'i': '\u026a', 'n': '\u0274', 'l': '\u029f'}
    for word, wide, tail in (('expression', True, '(alert(1))'), ('url', False, '(javascript:alert(1))')):
        for i, ch in enumerate(word):
            vs = [ch.upper()]
            if ch in smallcap:
                vs.append(smallcap[ch])
            if wide:
                vs += [chr(ord(ch) + 0xfee0), chr(ord(ch.upper()) + 0xfee0)]
            for v in vs:
                text = 'background: ' + word[:i] + v + word[i + 1:] + tail
                cases.append({'kind': 'css', 'text': text, 'cfg': cfg})
                cases.append({'kind': 'raw', 'cfg': cfg,
                              'events': [['S', ['', 'p'], [[['', 'style'], text]]], ['E', ['', 'p']]]})
    return cases


def corpus_cases():
    """hand-made edge cases of the theorems' hypotheses and of past disagreements (corpus/C06/*.json)"""
    import glob, os
    here = os.path.dirname(os.path.dirname(os.path.dirname(os.path.abspath(__file__))))
    out = []
    for path in sorted(glob.glob(os.path.join(here, 'corpus', 'C06', '*.json'))):
        with open(path) as f:
            out.extend(json.load(f))
    return out


def fixed_shard(arg):
    res = Result()
    cases = corpus_cases() + spelling_cases()
    reals = []
    for c in cases:
        res.evaluations += 1
        res.count('kind:spelling')
        real = run_real(c) if c['kind'] in ('html', 'raw') else None
        reals.append(real)
        f = oracle_case(c, res, real)
        if f:
            res.failures.append(f)
        res.nontrivial.add(json.dumps(c, sort_keys=True))
    compare(cases, reals, res)
    return res


CSS_ALPHA = ['\\', '5', 'c', '/', '*', ';', ':', '(', ')', 'u', ' ', '\n', 'a']
ENT_ALPHA = ['&', '#', 'x', 'X', '1', 'a', ';', 'm', 'p', '\u0663', 'g']
URI_ALPHA = ['#', ':', 'a', 'A', '-', ' ', '\n', '\u212a', '.', '&', '"']


def exhaustive_shard(arg):
    """all strings up to a length over three critical alphabets through the text-level functions
    (oracle + model): `color:` + s for sanitize_css, s for stripentities, `htt` + s + `p:x` and s
    for is_safe_uri"""
    import itertools
    idx, nshards, L = arg
    res = Result()
    cases = []
    cfg = {'safe_attrs': {'add': ['style']}}
    i = 0
    for n in range(L + 1):
        for tup in itertools.product(range(len(CSS_ALPHA)), repeat=n):
            if i % nshards == idx:
                cases.append({'kind': 'css', 'text': 'color:' + ''.join(CSS_ALPHA[k] for k in tup), 'cfg': cfg})
                if n <= L - 1:
                    cases.append({'kind': 'ent', 'text': ''.join(ENT_ALPHA[k % len(ENT_ALPHA)] for k in tup) + '1;'})
                    u = ''.join(URI_ALPHA[k % len(URI_ALPHA)] for k in tup)
                    cases.append({'kind': 'uri', 'text': 'f' + u + 'tp:x', 'cfg': None})
            i += 1
    for c in cases:
        res.evaluations += 1
        f = oracle_case(c, res)
        if f:
            res.failures.append(f)
    compare(cases, [None] * len(cases), res)
    res.count('exhaustive-strings', len(cases))
    res.streams = dict(('exhaustive-' + k, v) for k, v in res.streams.items())
    return res


# ---------------------------------------------------------------------------------------
# the `deep` stream: every iterated construct of the sanitizer at depths beyond the interpreter's
# recursion limit (few cases, each large; both tiers).  The clause "never fails" must hold at
# DEPTH too: a repeat-until-stable loop written recursively, a recursive descent over nested
# elements, a regular expression that backtracks per layer -- none shows on small inputs.

def _short(x, n=300):
    t = x if isinstance(x, str) else json.dumps(x, sort_keys=True, default=repr)
    return t if len(t) <= n else t[:n] + '... (%d characters)' % len(t)


def _diff_window(a, b, n=300):
    """two long texts: the windows around their first difference"""
    if len(a) <= 2 * n and len(b) <= 2 * n:
        return a, b
    i = 0
    m = min(len(a), len(b))
    while i < m and a[i] == b[i]:
        i += 1
    lo = max(0, i - n // 2)
    return ('@%d:' % lo) + a[lo:lo + n], ('@%d:' % lo) + b[lo:lo + n]


def comment_layers(k):
    """a text from which `k` successive passes of comment removal each remove something: removing
    the comments of `t.replace('/*', '//**/*')` gives back `t` (every `/*` is split by a comment that
    the scan meets first).  The length doubles per layer -- no text of feasible size needs more
    than ~20 passes (unlike reference decoding, where one layer costs four characters)."""
    t = '/**/'
    for _ in range(k - 1):
        t = t.replace('/*', '//**/*')
    return t


DEEP_SHAPES = {
    # shape: vias
    'amp-layers-href': ('html', 'raw'),          # '&' 'amp;'*D '#106;avascript:alert(1)' in a URI attribute
    'amp-layers-title': ('html', 'raw'),         # ... in an attribute that is kept
    'amp-layers-style': ('html', 'raw'),         # ... inside url( ) of a style attribute
    'amp-layers-unsafe-attr': ('raw',),          # ... in an attribute that is dropped (decoded before the test)
    'many-refs': ('html', 'raw'),                # D separate references in one value (one pass, long)
    'comment-layers': ('css', 'raw'),            # `depth` = number of passes (text length 2^(depth+1))
    'comment-layers-expression': ('css', 'raw'),  # the keyword is assembled by the last pass
    'css-escape-chain': ('css', 'raw'),          # D escapes in a row, `\5c ` chains in front of `75 rl(`
    'css-many-decls': ('css', 'raw'),            # D declarations, every third one unsafe
    'css-many-urls': ('css', 'raw'),             # D url( ) tokens in one declaration, the last one unsafe
    'nested-safe': ('html', 'raw'),              # D nested safe elements
    'nested-unsafe-same': ('html', 'raw'),       # D nested unsafe elements of one name: the depth counter
    'nested-mixed': ('html', 'raw'),             # safe and unsafe elements alternating
    'nested-unsafe-by-attr': ('raw',),           # input type=password holding D safe inputs
    'many-attrs': ('html', 'raw'),               # one element, D attributes (safe, unsafe, URI, style)
    'long-value': ('html', 'raw'),               # values / text of 40*D characters, blanks inside a scheme
    'many-siblings': ('html', 'raw'),            # a flat stream of 2*D elements
    'stray-ends': ('raw',),                      # D END events without START, then D STARTs never closed
    'uri-long': ('uri',),                        # is_safe_uri by itself: noise of 40*D characters inside and in front of a scheme
    'ent-many': ('ent',),                        # stripentities by itself: D references of every kind, D unterminated ones
}
DEEP_LOG = ('comment-layers', 'comment-layers-expression')


def deep_specs(seed, thorough):
    """the cases of the deep stream: every shape x via at a depth just beyond the recursion limit
    (seed-dependent) and, for half of them by rotation, at a second larger depth"""
    import sys
    rng = random.Random('%s/deep/C06' % (seed,))
    limit = max(1000, sys.getrecursionlimit())
    specs = []
    style = {'safe_attrs': {'add': ['style']}}
    names = sorted(DEEP_SHAPES)
    for i, shape in enumerate(names):
        for via in DEEP_SHAPES[shape]:
            if shape in DEEP_LOG:
                depths = [rng.randrange(9, 12)] + ([14] if thorough else [])
            else:
                depths = [limit + 60 + rng.randrange(0, 400)]
                if thorough or (i + seed) % 2 == 0:
                    depths.append(2 * limit + 500 + rng.randrange(0, 300))
                if thorough and shape.startswith(('amp-layers', 'nested')):
                    depths.append(6 * limit)
            for d in depths:
                cfg = style if ('style' in shape or 'css' in shape or 'comment' in shape or shape == 'many-attrs'
                                or rng.random() < 0.3) else None
                specs.append({'kind': 'deep', 'shape': shape, 'via': via, 'depth': d, 'cfg': cfg})
    return specs


def expand_deep(case):
    """the concrete case (kind html / raw / css) a deep case stands for"""
    shape, via, D, cfg = case['shape'], case['via'], case['depth'], case.get('cfg')
    q = lambda n: ['', n]
    layers = '&' + 'amp;' * D + '#106;avascript:alert(1)'

    def elem_case(tag, attrs, inner_text='x'):
        """one element with the attributes, by the parser or as events"""
        if via == 'html':
            esc = lambda v: v.replace('&', '&amp;').replace('"', '&quot;').replace('<', '&lt;')
            # through the parser the text is what an author would write: the layers themselves
            # are the escaping (html.parser and genshi's HTMLParser each take one off)
            raw = lambda v: v.replace('"', '&quot;')
            text = '<%s %s>%s</%s>' % (tag, ' '.join('%s="%s"' % (n, raw(v)) for n, v in attrs), inner_text, tag)
            return {'kind': 'html', 'text': text, 'cfg': cfg}
        return {'kind': 'raw', 'cfg': cfg,
                'events': [['S', q(tag), [[q(n), v] for n, v in attrs]], ['T', inner_text, False], ['E', q(tag)]]}

    def css_case(text):
        if via == 'css':
            return {'kind': 'css', 'text': text, 'cfg': cfg}
        return {'kind': 'raw', 'cfg': cfg, 'events': [['S', q('p'), [[q('style'), text]]], ['T', 'x', False], ['E', q('p')]]}

    def nest_case(tags, attrs_of=lambda i: [], tail=True):
        """tags[0] > tags[1] > ... with a text in the innermost and after every END"""
        if via == 'html':
            parts = []
            for i, t in enumerate(tags):
                parts.append('<%s%s>' % (t, ''.join(' %s="%s"' % (n, v) for n, v in attrs_of(i))))
            parts.append('in')
            for t in reversed(tags):
                parts.append('</%s>%s' % (t, 'a' if tail else ''))
            return {'kind': 'html', 'text': '<div>' + ''.join(parts) + '</div>', 'cfg': cfg}
        evs = [['S', q('div'), []]]
        for i, t in enumerate(tags):
            evs.append(['S', q(t), [[q(n), v] for n, v in attrs_of(i)]])
        evs.append(['T', 'in', False])
        for t in reversed(tags):
            evs.append(['E', q(t)])
            if tail:
                evs.append(['T', 'a', False])
        evs.append(['E', q('div')])
        return {'kind': 'raw', 'events': evs, 'cfg': cfg}

    if shape == 'amp-layers-href':
        return elem_case('a', [('href', layers), ('title', 't')])
    if shape == 'amp-layers-title':
        return elem_case('p', [('title', layers)])
    if shape == 'amp-layers-style':
        return elem_case('p', [('style', 'color: red; background: url(' + layers + ')')])
    if shape == 'amp-layers-unsafe-attr':
        return elem_case('p', [('onclick', layers), ('class', 'c')])
    if shape == 'many-refs':
        return elem_case('a', [('href', '&#106;&#x61;&#118;&#97;' * D + 'script:alert(1)'), ('title', '&lt;&amp;' * D)])
    if shape == 'comment-layers':
        return css_case('color: red' + comment_layers(D) + '; width: 1px')
    if shape == 'comment-layers-expression':
        return css_case('width: e' + comment_layers(D) + 'xpression(alert(1)); color: u' + comment_layers(D - 1) + 'rl(javascript:x)')
    if shape == 'css-escape-chain':
        return css_case('color: ' + '\\5c ' * D + '75 rl(javascript:x); background: ' + '\\75 \\72 \\6c ' * (D // 3) + '(javascript:x); top: '
                        + '\\65 ' * D)
    if shape == 'css-many-decls':
        return css_case(';'.join(('color: red', 'position: fixed', 'background: url(javascript:%d)' % i)[i % 3] for i in range(D)))
    if shape == 'css-many-urls':
        return css_case('background: ' + ' '.join('url(http://x/%d)' % i for i in range(D)) + ' url(javascript:x)')
    if shape == 'nested-safe':
        return nest_case(['div', 'span', 'b', 'em'] * (D // 4 + 1))
    if shape == 'nested-unsafe-same':
        return nest_case(['object'] * D)
    if shape == 'nested-mixed':
        # D nested safe elements, each holding a dropped subtree (an unsafe element with the same
        # unsafe element and a safe one inside) in front of the next level
        if via == 'html':
            return {'kind': 'html', 'cfg': cfg,
                    'text': '<div><object>o<object>p</object><b>x</b></object>' * D + 'in' + '</div>t' * D}
        evs = []
        for _ in range(D):
            evs += [['S', q('div'), []], ['S', q('object'), []], ['T', 'o', False], ['S', q('object'), []], ['T', 'p', False],
                    ['E', q('object')], ['S', q('b'), []], ['T', 'x', False], ['E', q('b')], ['E', q('object')]]
        evs.append(['T', 'in', False])
        for _ in range(D):
            evs += [['E', q('div')], ['T', 't', False]]
        return {'kind': 'raw', 'events': evs, 'cfg': cfg}
    if shape == 'nested-unsafe-by-attr':
        return nest_case(['input'] * D, attrs_of=lambda i: [('type', 'password' if i == 0 else 'text')])
    if shape == 'many-attrs':
        from genshi.filters.html import HTMLSanitizer as S
        safe = sorted(str(x) for x in S.SAFE_ATTRS)
        attrs = []
        for i in range(D):
            k = i % 4
            if k == 0:
                attrs.append((safe[(i // 4) % len(safe)] if via == 'raw' else 'data-%d' % i, 'v%d' % i))
            elif k == 1:
                attrs.append(('on%d' % i, 'alert(%d)' % i))
            elif k == 2:
                attrs.append(('href' if via == 'raw' or i == 2 else 'x%d' % i, ('javascript:alert(%d)' if i % 8 == 2 else 'http://x/%d') % i))
            else:
                attrs.append(('style' if via == 'raw' or i == 3 else 'y%d' % i, 'color: red; width: expression(%d)' % i))
        return elem_case('a', attrs)
    if shape == 'long-value':
        return elem_case('a', [('href', 'java' + '\t \n' * D + 'script:alert(1)'), ('title', 'a&amp;b ' * (5 * D)),
                               ('src', 'http://x/' + 'a' * (40 * D))], inner_text='t' * (40 * D))
    if shape == 'many-siblings':
        tags = ['b', 'script', 'i', 'object']
        if via == 'html':
            return {'kind': 'html', 'cfg': cfg, 'text': ''.join('<%s>%d</%s>' % (tags[i % 4], i, tags[i % 4]) for i in range(2 * D))}
        evs = []
        for i in range(2 * D):
            evs += [['S', q(tags[i % 4]), []], ['T', str(i), False], ['E', q(tags[i % 4])]]
        return {'kind': 'raw', 'events': evs, 'cfg': cfg}
    if shape == 'uri-long':
        return {'kind': 'uri', 'cfg': cfg, 'text': ' \t' * (10 * D) + 'j' + '\x00a\n' * 0 + 'ava' + '&#9;' * D + 'scr\tipt' + ' ' * (10 * D) + ':alert(1)#' + ':' * D}
    if shape == 'ent-many':
        return {'kind': 'ent', 'text': '&amp;&#106;&#x6A;&#X6a;&lt;&bogus;&#;&#1114112;' * D + '&' * D + '&#106' * D + '&amp' * D}
    if shape == 'stray-ends':
        return {'kind': 'raw', 'cfg': cfg,
                'events': [['E', q(('b', 'object')[i % 2])] for i in range(D)] + [['S', q(('object', 'b', 'object')[i % 3]), []] for i in range(D)]}
    raise ValueError(shape)


def deep_shard(arg):
    seed, idx, thorough = arg
    res = Result()
    case = deep_specs(seed, thorough)[idx]
    conc = expand_deep(case)
    res.evaluations += 1
    res.count('kind:deep')
    res.count('deep:%s/%s' % (case['shape'], case['via']))
    res.count('deep-depth-total', case['depth'])
    real = run_real(conc) if conc['kind'] in ('html', 'raw') else None
    f = oracle_case(case, res, real)
    if f:
        res.failures.append(f)
    res.nontrivial.add(json.dumps(case, sort_keys=True))
    if real and real.get('status') == 'ok':
        res.count('deep-events-in', len(real['inp']))
        res.count('deep-events-out', len(real['out']))
    compare([conc], [real], res, labels=[case])
    res.streams = dict(('deep-' + k, v) for k, v in res.streams.items())
    for d in res.disagreements:
        d['stream'] = 'deep-' + d['stream']
    return res


def run(ctx):
    nsh = 16
    per = ctx.n(2000, 18000)
    res = Result()
    for r in pmap('harness.props.c06', 'shard', [(ctx.seed, i, per) for i in range(nsh)]):
        res.merge(r)
    for r in pmap('harness.props.c06', 'fixed_shard', [0]):
        res.merge(r)
    L = ctx.n(3, 4)
    for r in pmap('harness.props.c06', 'exhaustive_shard', [(i, nsh, L) for i in range(nsh)]):
        res.merge(r)
    ndeep = len(deep_specs(ctx.seed, ctx.thorough))
    for r in pmap('harness.props.c06', 'deep_shard', [(ctx.seed, i, ctx.thorough) for i in range(ndeep)]):
        res.merge(r)
    res.rule = ('tag soup, raw event streams (a third ill nested), style texts, URIs and reference texts from an XSS '
                'payload vocabulary, default / style-allowing / custom configurations; non-trivial = the filter changed '
                'the stream (or the text holds an escape, reference or scheme); distinct by canonical JSON')
    return res


def search(ctx, res, broken):
    found = []
    for d in res.disagreements[:200]:
        f = oracle_case(d['case'])
        if f:
            found.append(f)
    if found:
        return found
    for r in pmap('harness.props.c06', 'shard', [(ctx.seed + 1000 + i, i, 4000) for i in range(16)]):
        found.extend(r.failures)
    return found


_PREFIX = re.compile(r'[A-Za-z_][A-Za-z0-9_.\-]*\Z')


def in_domain(case):
    """the hypotheses of the generators (ASSUMPTIONS): shrinking must not leave them, or a shrunk
    input would 'fail' on the clean tree too"""
    try:
        if case.get('kind') == 'deep':
            return (case.get('shape') in DEEP_SHAPES and case.get('via') in DEEP_SHAPES[case['shape']]
                    and isinstance(case.get('depth'), int) and 1 <= case['depth'] <= (16 if case['shape'] in DEEP_LOG else 20000))
        if case.get('kind') not in ('html', 'raw', 'css', 'uri', 'ent'):
            return False
        if case['kind'] != 'raw':
            return isinstance(case.get('text'), str)
        for e in case['events']:
            k = e[0]
            if k == 'T' and e[2]:
                return False            # Markup TEXT is trusted by construction
            if k == 'NS' and e[1] and not _PREFIX.match(e[1]):
                return False            # namespace prefixes are XML names
        # START_CDATA / END_CDATA events are inside the domain in any arrangement (unclosed, stray,
        # with elements between them): the repaired filter passes none of them on
        return True
    except Exception:
        return False


def replay(ctx, case):
    return oracle_case(case)

"""C19 — identity translation is transparent and message extraction is complete.

Oracle on the real code (never uses the Lean model):
  (1) identity: the event stream generated with the Translator under a recording identity
      catalogue equals the stream generated from the reference template (the same document with
      the i18n markup removed and the edge white space of message contents trimmed);
  (2) excluded: under a scrambling catalogue, sub-trees of ignored tags / literal xml:lang,
      attributes outside include_attrs and (extract_text=False) all plain text and attributes
      are what the reference template gives;
  (3) placeholders: under placeholder-permuting / part-dropping catalogues the stream equals the
      reference template whose message contents are rebuilt from the catalogue's answer
      (original elements, each once, in the translator's order);
  (4) every message id containing a letter that was looked up while rendering is among the
      messages `Translator.extract` reports for a fresh copy of the template.
  (5) code: a generated Python expression / suite is evaluated by CPython with recording stand-ins
      for the gettext functions; every call `f('literal', ...)` of the source (CPython's `ast`) that
      evaluation performs is among what `extract_from_code` reports for genshi's `Code` object.
Correspondence: the same template streams are sent to the Lean model (`gdrv`) and compared; stream
`pycode`: the model's `extractFromCode` on the tree genshi built (`code.ast`) against
`extract_from_code`.
"""
import hashlib, json
from harness import proto, gen_i18n as G
from harness.framework import Result, pmap
from harness.proto import Atom, B

PROP = 'C19'
TRUSTED = [
    'modelled, not verified: genshi/filters/i18n.py (Translator.__call__/extract/_extract_attrs, MessageBuffer, parse_msg, MsgDirective, ChooseDirective and its branches: __call__ and extract) - hand-written Lean model tied by differential correspondence on generated template streams',
    'not modelled: the template engine around the filter (parsing, _flatten, expression evaluation, non-i18n directives are opaque in the model); `re` (the two regular expressions are re-implemented as list functions); str.strip/str.isalpha (character classes generated from the running interpreter); gettext',
    'the reference template construction in harness/gen_i18n.py (i18n markup removed, message contents rebuilt from the documented [n:...] / %(name)s format)',
    'modelled, not verified: extract_from_code/_walk (Lean: extractFromCode over PyExpr, Genshi/Model/I18nPyExpr.lean), tied by the correspondence stream `pycode` on the syntax trees genshi builds (code.ast, converted generically by py_wire: calls, str/bytes constants, names; every other node by its AST children in _fields order)',
    'the composition of the two models (Genshi/Model/I18nPyStream.lean: template streams whose code is a PyExpr, lowered by extractFromCode with the gettext_functions argument) is tied by the correspondence stream `extractp` (py_wire of every expression of the template stream); Translator.extract with search_text / comment_stack / context_stack given by the stream `extractw`',
    'oracle only, not modelled: the Babel entry point genshi.filters.i18n.extract (option parsing), Translator.setup, the application of the remaining directives at the end of MsgDirective.__call__ / ChooseDirective.__call__ (_apply_directives); harness: c19.project / in_hypotheses decide which generated templates reach the oracle',
    'not modelled: how genshi turns source text into code.ast (parsing, TemplateASTTransformer); covered only by the pycode oracle, which reads the call sites off CPython\'s own ast of the source text and evaluates the source with recording stand-ins (harness/gen_pycode.py)',
]
ASSUMPTIONS = [
    'message directives are used as documented: one parameter name per expression, i18n:choose holds only white space besides its singular/plural branches, no directive *elements* (py:if ...) and no comments directly inside a message',
    'message text contains no backslash, no literal "[<digits>:" and no literal "%(name)s" (known findings C19-backslash, C19-placeholder-text, C19-percent)',
    'template code: the Python 3.12 syntax tree (string and bytes literals are ast.Constant, a Call has no starargs/kwargs attributes); bytes literals passed to a gettext function are utf-8 (extract_from_code raises UnicodeDecodeError otherwise: the model answers unmodelled, the oracle leaves such sources alone)',
    'catalogues: identity, recording, letter-scrambling, sibling-placeholder permuting, dropping of text parts and of whole top-level placeholders; the catalogue object offers the full gettext API (without dgettext: known finding C19-domain-recursion)',
]

PROBE_S = u'O\x85\xbe\xa9\xa8az\xc3?\xe6\xa1\x02n\x84\x93'
PROBE_P = u'\xcc\xfb+\xd3Pn\x9d\tT\xec\x1d\xda\x1a\x88\x00'


class Catalogue(object):
    """recording catalogue answering f(msgid); plural forms: n == 1 -> singular"""

    def __init__(self, f, api='full'):
        self.log = []
        self.f = f
        if api == 'full':
            self.dgettext = self._dgettext
            self.dngettext = self._dngettext
            self.pgettext = self._pgettext
            self.npgettext = self._npgettext
            self.dpgettext = self._dpgettext
            self.dnpgettext = self._dnpgettext

    def _n(self, s, p, n):
        if s == PROBE_S and p == PROBE_P:
            return s if n == 1 else p
        return self.f(s if n == 1 else p)

    def gettext(self, s):
        self.log.append(['gettext', s]); return self.f(s)

    def ngettext(self, s, p, n):
        self.log.append(['ngettext', s, p]); return self._n(s, p, n)

    def _dgettext(self, d, s):
        self.log.append(['dgettext', d, s]); return self.f(s)

    def _dngettext(self, d, s, p, n):
        self.log.append(['dngettext', d, s, p]); return self._n(s, p, n)

    def _pgettext(self, c, s):
        self.log.append(['pgettext', c, s]); return self.f(s)

    def _npgettext(self, c, s, p, n):
        self.log.append(['npgettext', c, s, p]); return self._n(s, p, n)

    def _dpgettext(self, d, c, s):
        self.log.append(['dpgettext', d, c, s]); return self.f(s)

    def _dnpgettext(self, d, c, s, p, n):
        self.log.append(['dnpgettext', d, c, s, p]); return self._n(s, p, n)

    def ids(self, count_probe=False):
        out = []
        for e in self.log:
            k = e[0]
            if k in ('gettext',):
                out.append(e[1])
            elif k in ('dgettext', 'pgettext'):
                out.append(e[2])
            elif k == 'dpgettext':
                out.append(e[3])
            else:
                s, p = e[-2], e[-1]
                if s == PROBE_S and p == PROBE_P and not count_probe:
                    continue
                out.extend([s, p])
        return out


def has_letter(s):
    return any(ch.isalpha() for ch in s)


def canon_stream(events):
    """genshi events -> canonical list with adjacent TEXT merged and empty TEXT dropped"""
    from genshi.core import START, END, TEXT, COMMENT, PI, DOCTYPE, START_NS, END_NS, START_CDATA, END_CDATA, Markup
    out = []
    for kind, data, pos in events:
        if kind is TEXT:
            s = str(data)
            if not s:
                continue
            if out and out[-1][0] == 'T':
                out[-1][1] += s
            else:
                out.append(['T', s])
        elif kind is START:
            out.append(['S', str(data[0]), [[str(k), str(v)] for k, v in data[1]]])
        elif kind is END:
            out.append(['E', str(data)])
        elif kind is COMMENT:
            out.append(['C', str(data)])
        else:
            out.append(['O', str(kind)])
    return out


def match_edges(w, r):
    """does the canonical stream `w` equal the reference stream `r` in which every character
    preceded by G.OPT is optional (white space at the edges of message directives)"""
    import re
    if w[0] != 'ok' or r[0] != 'ok':
        return w == r
    toks = {}

    def tok(e):
        key = json.dumps(e, sort_keys=True)
        if key not in toks:
            toks[key] = chr(0xF0000 + len(toks))
        return toks[key]

    def enc(stream, pattern):
        out = []
        for e in stream:
            if e[0] == 'T':
                text = e[1]
                i = 0
                while i < len(text):
                    c = text[i]
                    if pattern and c == G.OPT and i + 1 < len(text):
                        out.append(re.escape(text[i + 1]) + '?')
                        i += 2
                        continue
                    out.append(re.escape(c) if pattern else c)
                    i += 1
            else:
                t = tok(e)
                out.append(re.escape(t) if pattern else t)
        return ''.join(out)
    pat = enc(r[1], True)
    return re.fullmatch(pat, enc(w[1], False), re.S) is not None


DIR_ATTRS = set(['i18n:msg', 'i18n:choose', 'i18n:singular', 'i18n:plural', 'i18n:domain', 'i18n:ctxt', 'i18n:comment',
                 'py:if', 'py:for', 'py:strip', 'py:with'])
DIR_ELEMS = set(['i18n:msg', 'i18n:choose', 'i18n:singular', 'i18n:plural', 'i18n:domain', 'i18n:ctxt', 'py:if'])


def cfg_args(cfg):
    """constructor arguments of the Translator; the library's own IGNORE_TAGS / INCLUDE_ATTRS are
    used (not passed) when the case has the default lists, other tag names are given with and
    without the XHTML namespace as the library's default does"""
    from genshi.core import QName
    args = dict(extract_text=cfg['extract_text'])
    if list(cfg['ignore_tags']) != list(G.IGNORED):
        args['ignore_tags'] = frozenset([QName(t) for t in cfg['ignore_tags']] +
                                        [QName('%s}%s' % (G.NS_XHTML, t)) for t in cfg['ignore_tags']])
    if list(cfg['include_attrs']) != list(G.INCL_ATTRS):
        args['include_attrs'] = frozenset(cfg['include_attrs'])
    return args


def src(case, **kw):
    return G.source(case['tmpl'], xhtml=bool(case.get('xhtml')), **kw)


def gen_with(case, f, api='full', func_api=False):
    """stream generated through the Translator with catalogue f; returns (outcome, catalogue)"""
    from genshi.template import MarkupTemplate
    from genshi.filters.i18n import Translator
    cat = Catalogue(f, api)
    try:
        tmpl = MarkupTemplate(src(case))
        tr = Translator(cat.gettext if func_api else cat, **cfg_args(case['cfg']))
        tr.setup(tmpl)
        data = dict(case['data'])
        data['_'] = cat.gettext
        data['ngettext'] = cat.ngettext
        return ['ok', canon_stream(tmpl.generate(**data))], cat
    except RecursionError:
        return ['err', 'RecursionError'], cat
    except Exception as e:  # noqa
        return ['err', type(e).__name__], cat


def gen_ref(case, f, identity=False, code_f=None):
    """`code_f`: what the gettext functions called from template code answer (default: f)"""
    from genshi.template import MarkupTemplate
    try:
        tree, ref = G.reference(case['tmpl'], f, case['cfg'], identity=identity)
    except (ValueError, KeyError) as e:
        return ['norefer', type(e).__name__]
    try:
        tmpl = MarkupTemplate(G.source(tree, i18n=False, xhtml=bool(case.get('xhtml'))))
        data = dict(case['data'])
        g = code_f or f
        data['_'] = g
        data['ngettext'] = lambda s, p, n: g(s if n == 1 else p)
        return ['ok', canon_stream(tmpl.generate(**data))]
    except Exception as e:  # noqa
        return ['err', type(e).__name__]


def extract_ids(case):
    """message ids reported by extraction from a fresh template"""
    from genshi.template import MarkupTemplate
    from genshi.filters.i18n import Translator
    tmpl = MarkupTemplate(src(case))
    tr = Translator(None, **cfg_args(case['cfg']))
    tmpl.add_directives(Translator.NAMESPACE, tr)
    ids = set()
    raw = []
    for lineno, func, msg, comments in tr.extract(tmpl.stream):
        raw.append([func, list(msg) if isinstance(msg, tuple) else msg, list(comments)])
        if isinstance(msg, tuple):
            parts = list(msg)
            if func in ('pgettext', 'pngettext', 'dpgettext', 'dnpgettext', 'npgettext'):
                parts = parts[1:]
            for p in parts:
                if isinstance(p, str):
                    ids.add(p)
        elif isinstance(msg, str):
            ids.add(msg)
    return ids, raw


def babel_options(cfg, variant):
    """the `options` dictionary of the Babel entry point for a configuration, written the way a
    mapping file delivers it (strings) or the way a program passes it (lists / bool)"""
    opts = {}
    if list(cfg['ignore_tags']) != list(G.IGNORED):
        opts['ignore_tags'] = ' '.join(cfg['ignore_tags']) if variant % 2 == 0 else list(cfg['ignore_tags'])
    if list(cfg['include_attrs']) != list(G.INCL_ATTRS):
        opts['include_attrs'] = ' '.join(cfg['include_attrs']) if variant % 2 == 0 else list(cfg['include_attrs'])
    if not cfg['extract_text'] or variant % 3 == 0:
        if variant % 2 == 0:
            opts['extract_text'] = (['yes', 'True', 'on', '1'] if cfg['extract_text'] else ['no', 'False', 'off', '0'])[variant % 4]
        else:
            opts['extract_text'] = bool(cfg['extract_text'])
    return opts


def extract_ids_babel(case, variant=0):
    """message ids reported by `genshi.filters.i18n.extract(fileobj, keywords, comment_tags, options)`,
    the entry point the Babel plugin calls (option parsing, template construction, directive
    registration and `Translator.extract` with `gettext_functions=keywords`)"""
    import io
    from genshi.filters import i18n
    ids = set()
    fileobj = io.BytesIO(src(case).encode('utf-8'))
    for lineno, func, msg, comments in i18n.extract(fileobj, i18n.GETTEXT_FUNCTIONS, [], babel_options(case['cfg'], variant)):
        if isinstance(msg, tuple):
            parts = list(msg)
            if func in ('pgettext', 'pngettext', 'dpgettext', 'dnpgettext', 'npgettext'):
                parts = parts[1:]
            ids.update(p for p in parts if isinstance(p, str))
        elif isinstance(msg, str):
            ids.add(msg)
    return ids


# --------------------------------------------------------------------------
# (2) excluded parts

def tree_info(tree):
    """markers of elements whose sub-tree is excluded by a literal xml:lang, and markers of the
    elements lying inside a message directive (or being one)"""
    lang, inmsg = set(), set()

    def marker(n):
        for name, parts in n[2]:
            if name == 'data-u':
                return parts[0][1]
        return None

    def walk(n, m):
        if n[0] == 'e':
            u = marker(n)
            here = m or G.dir_of(n, 'i18n:msg') is not None or G.dir_of(n, 'i18n:choose') is not None
            if here:
                inmsg.add(u)
            for name, parts in n[2]:
                if name == 'xml:lang' and all(p[0] == 't' for p in parts):
                    lang.add(u)
            for k in n[4]:
                walk(k, here)
        elif n[0] == 'd':
            here = m or n[1] in ('i18n:msg', 'i18n:choose')
            for k in n[3]:
                walk(k, here)
    for n in tree:
        walk(n, False)
    return lang, inmsg


def elements(stream):
    """[(marker, occurrence, start index, end index)] of a canonical stream"""
    out = []
    stack = []
    seen = {}
    for i, e in enumerate(stream):
        if e[0] == 'S':
            u = dict(e[2]).get('data-u')
            k = seen.get(u, 0)
            seen[u] = k + 1
            stack.append((u, k, i))
        elif e[0] == 'E':
            if not stack:
                continue          # an ill-nested stream (reported by the other clauses)
            u, k, j = stack.pop()
            out.append((u, k, j, i))
    return out


def check_excluded(case, w, r0):
    """w: stream under the scrambling catalogue, r0: reference stream without translation"""
    cfg = case['cfg']
    lang, inmsg = tree_info(case['tmpl'])
    ew = dict(((u, k), (a, b)) for u, k, a, b in elements(w))
    er = dict(((u, k), (a, b)) for u, k, a, b in elements(r0))
    for key in sorted(er, key=lambda x: (str(x[0]), x[1])):
        if key not in ew:
            continue      # a dropped element is judged by (3)
        a, b = er[key]
        c, d = ew[key]
        sr, sw = r0[a], w[c]
        incl = set(cfg['include_attrs']) if cfg['extract_text'] else set()
        ar = [p for p in sr[2] if p[0] not in incl]
        aw = [p for p in sw[2] if p[0] not in incl]
        if ar != aw:
            return {'what': 'attributes outside include_attrs are untouched', 'expected': ar, 'observed': aw}
        tag = sr[1].split('}')[-1]
        if tag in cfg['ignore_tags'] or key[0] in lang:
            if r0[a:b + 1] != w[c:d + 1]:
                return {'what': 'content of ignored tags / xml:lang elements is untouched',
                        'expected': r0[a:b + 1], 'observed': w[c:d + 1]}
        if not cfg['extract_text'] and key[0] not in inmsg:
            # direct text children
            def direct(s, lo, hi):
                depth, out = 0, []
                for e in s[lo + 1:hi]:
                    if e[0] == 'S':
                        depth += 1
                    elif e[0] == 'E':
                        depth -= 1
                    elif e[0] == 'T' and depth == 0:
                        out.append(e[1])
                return out
            if direct(r0, a, b) != direct(w, c, d) and key[0] not in msg_text_parents(case['tmpl']):
                return {'what': 'extract_text=False leaves plain text untouched',
                        'expected': direct(r0, a, b), 'observed': direct(w, c, d)}
    return None


def msg_text_parents(tree):
    """markers (None = the root element) of elements that get message text as *direct* text
    children: a message directive element, or a message/choose element that is stripped, among
    their children (looking through other stripped directive elements)"""
    out = set()

    def marker(n):
        for name, parts in n[2]:
            if name == 'data-u':
                return parts[0][1]
        return None

    def up(k):
        """does node k put message text directly into its parent"""
        if k[0] == 'd':
            if k[1] in ('i18n:msg', 'i18n:choose', 'i18n:singular', 'i18n:plural'):
                return True
            return any(up(c) for c in k[3])
        if k[0] == 'e' and any(d[0] == 'py:strip' for d in k[3]):
            if any(d[0] in ('i18n:msg', 'i18n:choose', 'i18n:singular', 'i18n:plural') for d in k[3]):
                return True
            return any(up(c) for c in k[4])
        return False

    def walk(n):
        if n[0] == 'e':
            if any(up(k) for k in n[4]):
                out.add(marker(n))
            for k in n[4]:
                walk(k)
        elif n[0] == 'd':
            for k in n[3]:
                walk(k)
    if any(up(k) for k in tree):
        out.add(None)
    for n in tree:
        walk(n)
    return out


# --------------------------------------------------------------------------
# the oracle for one case

def valid_case(case):
    """is this a well-formed case (the shrinker also produces garbage): the tree has the node
    shapes of gen_i18n and its source parses as a template"""
    import re
    expr_ok = re.compile(r"^(s[123]|f[12]|n[12]|l1|it|_\('\w+'\)|ngettext\('\w+', '\w+', (n[12]|[12]|len\(_\('\w+'\)\))\))$")

    def ok_parts(ps):
        return isinstance(ps, list) and all(isinstance(p, list) and len(p) == 2 and p[0] in ('t', 'x')
                                            and isinstance(p[1], str) and (p[0] == 't' or expr_ok.match(p[1])) for p in ps)

    def ok(n):
        if not isinstance(n, list) or not n:
            return False
        k = n[0]
        if k in ('t', 'c'):
            return len(n) == 2 and isinstance(n[1], str)
        if k == 'pi':
            return len(n) == 2 and isinstance(n[1], str) and bool(re.match(r"^v\d+ = _\('\w+'\)$", n[1]))
        if k == 'x':
            return len(n) == 2 and isinstance(n[1], str) and bool(expr_ok.match(n[1]))
        if k == 'e':
            return (len(n) == 5 and isinstance(n[1], str) and bool(n[1]) and isinstance(n[2], list)
                    and all(isinstance(a, list) and len(a) == 2 and isinstance(a[0], str)
                            and re.match(r'^(xml:)?[a-z][a-z-]*$', a[0]) and ok_parts(a[1]) for a in n[2])
                    and n[1].isalnum() and n[1][0].isalpha()
                    and isinstance(n[3], list) and all(isinstance(d, list) and len(d) == 2 and d[0] in DIR_ATTRS
                                                       and isinstance(d[1], str) for d in n[3])
                    and isinstance(n[4], list) and all(ok(c) for c in n[4]))
        if k == 'd':
            return (len(n) == 4 and n[1] in DIR_ELEMS and isinstance(n[2], list)
                    and all(isinstance(a, list) and len(a) == 2 and isinstance(a[0], str) and a[0] and isinstance(a[1], str) for a in n[2])
                    and isinstance(n[3], list) and all(ok(c) for c in n[3]))
        return False
    try:
        if not (isinstance(case, dict) and isinstance(case.get('tmpl'), list) and all(ok(n) for n in case['tmpl'])):
            return False
        cfg = case.get('cfg')
        if not (isinstance(cfg, dict) and isinstance(cfg.get('ignore_tags'), list) and isinstance(cfg.get('include_attrs'), list)
                and isinstance(cfg.get('extract_text'), bool)):
            return False
        if case.get('cat', 'id') not in ('id', 'scramble', 'perm', 'drop', 'permdrop', 'dropnested'):
            return False
        for v in G.STR_VARS + G.BOOL_VARS + G.NUM_VARS + G.LIST_VARS:
            if v not in case.get('data', {}):
                return False
        from genshi.template import MarkupTemplate
        MarkupTemplate(src(case)).stream
        return True
    except Exception:  # noqa
        return False


_PY_DIRS = ('py:if', 'py:for', 'py:strip')


def in_hypotheses(case):
    """does a (well-formed) case keep the hypotheses of the generator (`gen_i18n.Gen`)?  The
    shrinker only moves inside them: otherwise it wanders from the defect it started with into one
    of the recorded findings or into undocumented usage (an i18n:choose without branches ...)."""
    import re

    def has_empty_text(nodes):
        # the template parser never delivers an empty text node among the children of an element and the
        # generator writes none; a shrinking step that empties one would make "first child is text" true
        # of an element-first message (attribute values may be empty: they are not looked at here)
        prev = None
        for n in nodes or []:
            if n[0] == 't' and (n[1] == '' or prev == 't'):
                # ... nor two adjacent text nodes (the source text joins them, the reference
                # construction would translate them one by one)
                return True
            prev = n[0]
            if n[0] == 'e' and has_empty_text(n[4]):
                return True
            if n[0] == 'd' and has_empty_text(n[3]):
                return True
        return False
    if has_empty_text(case.get('tmpl')):
        return False
    cfg = case['cfg']
    ignore = set(cfg['ignore_tags'])
    incl = set(cfg['include_attrs'])
    checks = case.get('checks', ['identity', 'lookups', 'placeholders', 'excluded'])
    nofrag = case.get('cat', 'id') != 'id' or checks != ['identity']
    if case.get('api', 'full') != 'full' or case.get('count_probe'):
        return False
    if case.get('cat', 'id') not in ('id', 'scramble', 'perm', 'drop', 'permdrop'):
        return False
    name_ok = re.compile(r'^\w+$')

    def is_ws(n):
        return n[0] == 't' and n[1].strip() == ''

    def text_ok(t, letters):
        if '\\' in t or '%(' in t or re.search(r'\[\d+:', t):
            return False
        return letters or not any(ch.isalpha() for ch in t)

    def attrs_ok(n, lang_ok, plain):
        for name, parts in n[2]:
            if name == 'xml:lang' and not lang_ok:
                return False
            if name in incl:
                if plain:
                    return False
                if all(q[0] == 't' for q in parts):
                    v = ''.join(q[1] for q in parts)
                    if v.strip() not in ('', v):            # finding C19-attr-space
                        return False
            if plain and any(q[0] == 'x' and '(' in q[1] for q in parts):
                return False
        return True

    def excluded(n):
        return n[1] in ignore or any(name == 'xml:lang' and all(q[0] == 't' for q in parts) for name, parts in n[2])

    def params_ok(params, kids):
        nx = [0]

        def count(ks):
            for k in ks:
                if k[0] == 'x':
                    nx[0] += 1
                elif k[0] == 'e':
                    count(k[4])
        count(kids)
        return (all(name_ok.match(q) for q in params) and len(set(params)) == len(params) and nx[0] <= len(params))

    def content_ok(kids, lvl, in_sub, letters, plain):
        """content of a message / of a choose branch"""
        prev = None
        for k in kids:
            if k[0] == 't':
                if not text_ok(k[1], letters):
                    return False
            elif k[0] == 'x':
                if (in_sub or plain) and '(' in k[1]:
                    return False
            elif k[0] == 'e':
                if lvl > 0 and prev == 'e':
                    return False                            # finding C19-adjacent
                dirs = [d[0] for d in k[3]]
                if any(d not in _PY_DIRS for d in dirs) or len(dirs) > 1:
                    return False
                if dirs and in_sub:
                    return False                            # finding C19-nested-directives
                if k[1] in ignore:
                    return False
                sub = in_sub or bool(dirs)
                sub_plain = plain or (bool(dirs) and nofrag)
                if not attrs_ok(k, False, sub_plain):
                    return False
                if not content_ok(k[4], lvl + 1, sub, letters and not (bool(dirs) and nofrag), sub_plain):
                    return False
            else:
                return False                                # comments, PIs, directive elements
            prev = k[0]
        return True

    def ends_ok(kids):
        return bool(kids) and kids[0][0] in ('t', 'x') and kids[-1][0] in ('t', 'x')

    def branch_kind(n):
        return G.Ref.branch(n)

    def choose_ok(kids, numeral, params):
        if numeral not in G.NUM_VARS:
            return False
        inner = [k for k in kids if not is_ws(k)]
        if [branch_kind(k) for k in inner] != ['singular', 'plural']:
            return False
        for b in inner:
            if b[0] == 'e':
                dirs = [d[0] for d in b[3]]
                if dirs not in (['i18n:singular'], ['i18n:plural'], ['i18n:singular', 'py:strip'], ['i18n:plural', 'py:strip']):
                    return False
                if any(d[1] != '' for d in b[3]):
                    return False
                if b[1] in ignore or not attrs_ok(b, False, False):
                    return False
                content = b[4]
                if 'py:strip' in dirs and not ends_ok(content):
                    return False
            else:
                if b[2]:
                    return False
                content = b[3]
                if not ends_ok(content):
                    return False
            if not params_ok(params, content) or not content_ok(content, 0, False, not nofrag, False):
                return False
            if any(k[0] == 'e' and k[3] for k in content):
                return False                                # branches are generated without directives inside
        return True

    def node_ok(n, excl):
        k = n[0]
        if k == 't':
            return True
        if k == 'c':
            return '--' not in n[1] and not n[1].endswith('-')
        if k in ('x', 'pi'):
            return True
        if k == 'e':
            dirs = [d[0] for d in n[3]]
            msg = G.dir_of(n, 'i18n:msg')
            cho = G.dir_of(n, 'i18n:choose')
            if G.dir_of(n, 'i18n:singular') is not None or G.dir_of(n, 'i18n:plural') is not None:
                return False
            if len(set(dirs)) != len(dirs):
                return False
            if msg is not None:
                if excl or n[1] in ignore or cho is not None or not attrs_ok(n, False, False):
                    return False
                if any(d not in ('i18n:msg', 'i18n:comment', 'i18n:ctxt', 'i18n:domain', 'py:with') + _PY_DIRS for d in dirs):
                    return False
                if G.dir_of(n, 'i18n:ctxt') == '':
                    return False
                ps = G.split_params(msg)
                return params_ok(ps, n[4]) and content_ok(n[4], 0, False, True, False)
            if cho is not None:
                if excl or n[1] in ignore or not attrs_ok(n, False, False):
                    return False
                # the plural choice may share its element with the non-extracting i18n directives and
                # with control-flow directives (ChooseDirective.__call__ as repaired: it applies them)
                if any(d not in ('i18n:choose', 'i18n:comment', 'i18n:ctxt', 'i18n:domain', 'py:with') + _PY_DIRS for d in dirs):
                    return False
                if G.dir_of(n, 'i18n:ctxt') == '':
                    return False
                numeral, ps = G.choose_parts(cho)
                return choose_ok(n[4], numeral, ps)
            if not attrs_ok(n, True, False):
                return False
            if G.dir_of(n, 'i18n:ctxt') == '':
                return False
            ex = excl or excluded(n)
            return all(node_ok(c, ex) for c in n[4])
        if k == 'd':
            attrs = dict((a[0], a[1]) for a in n[2])
            if n[1] == 'i18n:msg':
                if excl or set(attrs) != set(['params']):
                    return False
                ps = G.split_params(attrs['params'])
                return ends_ok(n[3]) and params_ok(ps, n[3]) and content_ok(n[3], 0, False, True, False)
            if n[1] == 'i18n:choose':
                if excl or set(attrs) != set(['numeral', 'params']):
                    return False
                ps = [q.strip() for q in attrs['params'].split(',') if q.strip()]
                return choose_ok(n[3], attrs['numeral'], ps)
            if n[1] in ('i18n:domain', 'i18n:ctxt'):
                if set(attrs) != set(['name']) or (n[1] == 'i18n:ctxt' and not attrs['name']):
                    return False
                return all(node_ok(c, excl) for c in n[3])
            return False                                    # branches outside a choose, py:if elements
        return False
    try:
        return all(node_ok(n, False) for n in case['tmpl'])
    except Exception:  # noqa
        return False


_MSG_DIRS = ('i18n:msg', 'i18n:choose', 'i18n:singular', 'i18n:plural')


def project(case):
    """a case inside the hypotheses of the oracle made from an arbitrary well-formed case (a
    template of the `Rare` generator, a template on which model and code disagreed): plain
    elements and i18n:domain / i18n:ctxt elements keep the children that can be kept, message /
    choose nodes are kept whole or dropped, attributes that break a hypothesis (edge white space in
    an included attribute, xml:lang where it is not allowed) are repaired or dropped.  Uses
    `in_hypotheses` as the only judge, so whatever it returns is a case the oracle may be asked
    about; returns None when nothing is left.  The directive lists of the surviving elements are
    untouched: the combination of directives on one element is what the search is after."""
    base = dict(case)

    def inside(nodes):
        c = dict(base)
        c['tmpl'] = nodes
        return in_hypotheses(c)

    incl = set(case['cfg']['include_attrs'])

    def fix_attrs(n):
        out = []
        for name, parts in n[2]:
            if name == 'xml:lang':
                continue
            if name in incl and all(q[0] == 't' for q in parts):
                parts = [['t', ''.join(q[1] for q in parts).strip()]]
            out.append([name, parts])
        return [n[0], n[1], out, n[3], n[4]]

    def has_msg(n):
        if n[0] == 'e':
            return any(d[0] in _MSG_DIRS for d in n[3]) or any(has_msg(k) for k in n[4])
        if n[0] == 'd':
            return n[1] in _MSG_DIRS or any(has_msg(k) for k in n[3])
        return False

    def join(nodes):
        out = []
        for k in nodes:
            if k is None:
                continue
            if k[0] == 't' and out and out[-1][0] == 't':
                out[-1] = ['t', out[-1][1] + k[1]]      # what the source text says
            else:
                out.append(k)
        return out

    def prune(n):
        if n[0] == 't' and n[1] == '':
            return None
        if n[0] == 'e' and not any(d[0] in _MSG_DIRS for d in n[3]):
            kids = join(prune(k) for k in n[4])
            for attrs_fixed in (False, True):
                for ks in (kids, join(k for k in kids if not has_msg(k)), []):
                    m = [n[0], n[1], n[2], n[3], ks]
                    if attrs_fixed:
                        m = fix_attrs(m)
                    if inside([m]):
                        return m
            return None
        if n[0] == 'd' and n[1] in ('i18n:domain', 'i18n:ctxt'):
            kids = join(prune(k) for k in n[3])
            m = [n[0], n[1], n[2], kids]
            return m if inside([m]) else None
        if inside([n]):
            return n
        if n[0] == 'e':
            m = fix_attrs(n)
            if inside([m]):
                return m
        return None
    try:
        nodes = join(prune(n) for n in case['tmpl'])
        if not nodes or not inside(nodes):
            return None
        c = dict(base)
        c['tmpl'] = nodes
        return c
    except Exception:  # noqa
        return None


def oracle_case(case):
    if not valid_case(case):
        return None
    fails = []

    def bad(what, expected, observed):
        fails.append({'case': case, 'what': what, 'expected': expected, 'observed': observed})

    kind = case.get('cat', 'id')
    seed = case.get('catseed', 0)
    api = case.get('api', 'full')
    f = G.make_catalogue(kind, seed)
    w, cat = gen_with(case, f, api=api, func_api=(api == 'func'))
    r = gen_ref(case, f, identity=(kind == 'id'))
    if r[0] == 'norefer':
        return None          # the catalogue's answer is outside the stated family for this message
    if r[0] == 'err':
        bad('the reference template renders (harness self-check)', 'a stream', r)
    checks = case.get('checks', ['identity', 'lookups', 'placeholders', 'excluded'])
    if kind == 'id':
        if 'identity' in checks and not match_edges(w, r):
            bad('identity catalogue: output equals the output without the filter up to white space at the edges of messages '
                '(optional characters are preceded by U+E000 in the expected stream)', _clip(r), _clip(w))
        if w[0] == 'ok' and 'lookups' in checks:
            try:
                ids, raw = extract_ids(case)
            except Exception as e:  # noqa
                ids, raw = None, None
                bad('extraction succeeds on a template that renders', 'messages', 'raised ' + type(e).__name__)
            if ids is not None:
                missing = sorted(set(i for i in cat.ids(case.get('count_probe', False)) if has_letter(i) and i not in ids))
                if missing:
                    bad('every looked-up message id containing a letter is extracted', sorted(ids), missing)
                else:
                    # the same through the entry point of the Babel plugin, the configuration written as
                    # its `options` (strings as in a mapping file, or lists / bool)
                    try:
                        bids = extract_ids_babel(case, seed)
                    except Exception as e:  # noqa
                        bids = None
                        bad('extraction through the Babel entry point succeeds on a template that renders', 'messages',
                            'raised ' + type(e).__name__)
                    if bids is not None:
                        missing = sorted(set(i for i in cat.ids(case.get('count_probe', False)) if has_letter(i) and i not in bids))
                        if missing:
                            bad('every looked-up message id containing a letter is extracted through the Babel entry point '
                                '(options %r)' % (babel_options(case['cfg'], seed),), sorted(bids), missing)
    else:
        if 'placeholders' in checks and w != r:
            bad('catalogue %s: placeholders are replaced by the original elements, each once, in the translator\'s order' % kind,
                _clip(r), _clip(w))
    if kind != 'id' and 'excluded' in checks and w[0] == 'ok':
        r0 = gen_ref(_plain(case), G.cat_identity, identity=True, code_f=f)
        if r0[0] == 'ok':
            r0 = ['ok', [[e[0], e[1].replace(G.OPT, '')] + e[2:] if e[0] == 'T' else e for e in r0[1]]]
        if r0[0] == 'ok':
            e = check_excluded(case, w[1], r0[1])
            if e:
                bad(e['what'], e['expected'], e['observed'])
    return fails[0] if fails else None


def _plain(case):
    return case


def _clip(x):
    s = json.dumps(x, ensure_ascii=True)
    return x if len(s) < 3000 else s[:3000]


# --------------------------------------------------------------------------
# correspondence with the Lean model (gdrv): template streams on the wire

class Wire(object):
    """genshi template events -> wire values; expressions are numbered in order of appearance"""

    def __init__(self, py=False):
        self.ids = {}
        self.py = py        # the code travels as its syntax tree (verb `extractp`), not as the list extract_from_code finds

    def eid(self, obj):
        k = id(obj)
        if k not in self.ids:
            self.ids[k] = len(self.ids)
        return self.ids[k]

    @staticmethod
    def val(v):
        if isinstance(v, tuple):
            return [Atom('many')] + [proto.N if x is None else x for x in v]
        return [Atom('one'), proto.N if v is None else v]

    def code(self, expr):
        from genshi.filters.i18n import extract_from_code, GETTEXT_FUNCTIONS
        if self.py:
            return py_wire(expr.ast)
        return [[f, self.val(v)] for f, v in extract_from_code(expr, GETTEXT_FUNCTIONS)]

    def dir(self, d):
        from genshi.filters import i18n
        from genshi.template.directives import StripDirective
        if isinstance(d, i18n.DomainDirective):
            return [Atom('domain'), d.domain]
        if isinstance(d, i18n.CommentDirective):
            return [Atom('comment'), d.comment]
        if isinstance(d, i18n.ContextDirective):
            return [Atom('ctxt'), d.context]
        if isinstance(d, i18n.MsgDirective):
            return [Atom('msg')] + list(d.params)
        if isinstance(d, i18n.ChooseDirective):
            return [Atom('choose')] + list(d.params)
        if isinstance(d, i18n.SingularDirective):
            return Atom('Singular')
        if isinstance(d, i18n.PluralDirective):
            return Atom('Plural')
        if isinstance(d, StripDirective):
            # the model's `strip` is the unconditional py:strip=""
            return Atom('Strip') if d.expr is None else [Atom('other'), 'strip-if']
        return [Atom('other'), d.tagname]

    def aval(self, v):
        from genshi.core import TEXT
        from genshi.template.base import EXPR
        if isinstance(v, str):
            return [Atom('av'), str(v)]
        parts = []
        for ev in v:
            if ev[0] is TEXT:
                parts.append([Atom('t'), str(ev[1])])
            elif ev[0] is EXPR:
                parts.append([Atom('x'), self.code(ev[1])])
            else:
                raise ValueError('attribute part %r' % (ev[0],))
        return [Atom('ap'), parts]

    def ev(self, e):
        from genshi.core import START, END, TEXT
        from genshi.template.base import EXPR, SUB, EXEC
        from harness.evwire import qn
        kind, data = e[0], e[1]
        if kind is START:
            return [Atom('S'), qn(data[0]), [[qn(k), self.aval(v)] for k, v in data[1]]]
        if kind is END:
            return [Atom('E'), qn(data)]
        if kind is TEXT:
            return [Atom('T'), str(data)]
        if kind is EXPR:
            return [Atom('X'), Atom(str(self.eid(data))), self.code(data)]
        if kind is EXEC:
            return [Atom('XC'), self.code(data)]
        if kind is SUB:
            if data[1] is None:
                raise TypeError('SUB without sub-stream')
            return [Atom('SUB'), [self.dir(d) for d in data[0]], [self.ev(x) for x in data[1]]]
        return [Atom('O'), '%s:%r' % (kind, data)]

    def stream(self, events):
        return [self.ev(e) for e in events]


CATS = {
    'id': lambda d, c, s: s,
    'wrap': lambda d, c, s: '<%s|%s|%s>' % (d or '', c or '', s),
    'pad': lambda d, c, s: ' %s ' % s,
    'const': lambda d, c, s: 'X',
    'dup': lambda d, c, s: s + s,
}


class KeyedCatalogue(object):
    """catalogue whose answer depends on (domain, context, msgid); records the look-ups"""

    def __init__(self, g):
        self.g = g
        self.log = []

    def _l(self, d, c, s):
        self.log.append([proto.N if d is None else d, proto.N if c is None else c, s])
        return self.g(d, c, s)

    def gettext(self, s):
        return self._l(None, None, s)

    def dgettext(self, d, s):
        return self._l(d, None, s)

    def pgettext(self, c, s):
        return self._l(None, c, s)

    def dpgettext(self, d, c, s):
        return self._l(d, c, s)

    def ngettext(self, s, p, n):
        return s if n == 1 else p

    def dngettext(self, d, s, p, n):
        return s if n == 1 else p

    def npgettext(self, c, s, p, n):
        return s if n == 1 else p

    def dnpgettext(self, d, c, s, p, n):
        return s if n == 1 else p


def errname(e):
    if isinstance(e, RuntimeError) and 'StopIteration' in str(e):
        return 'RuntimeError'
    return type(e).__name__


def wire_cfg(tr):
    """the configuration the Translator instance really has (defaults included)"""
    return [sorted(str(t) for t in tr.ignore_tags), sorted(str(a) for a in tr.include_attrs), B(tr.extract_text)]


def fresh_template(case):
    from genshi.template import MarkupTemplate
    from genshi.filters.i18n import Translator
    tmpl = MarkupTemplate(src(case))
    tr = Translator(None, **cfg_args(case['cfg']))
    tmpl.add_directives(Translator.NAMESPACE, tr)
    return tmpl, tr


def model_branches(events, tr):
    """which branches of the model (lean/Genshi/Model/I18n*.lean) a template stream selects:
    keys for `res.dist` (`br:...`), computed from the stream the correspondence sends — the
    directive lists of SUB events decide the paths through `reorderGo`, `subLoop1` (the loop that
    pops under its own iterator) and `subLoop2`; the position inside an excluded element decides
    the `skip + 1` clauses; the shape of a message / choose body decides the clauses of
    `msgBuffer`, `msgExtract`, `branchExtract`, `chooseStep`"""
    from genshi.core import START, END, TEXT, XML_NAMESPACE
    from genshi.template.base import SUB, EXPR
    from genshi.filters import i18n
    from genshi.template.directives import StripDirective
    xml_lang = XML_NAMESPACE['lang']
    fs = set()

    def kind(d):
        for cls, k in ((i18n.DomainDirective, 'domain'), (i18n.CommentDirective, 'comment'), (i18n.ContextDirective, 'ctxt'),
                       (i18n.MsgDirective, 'msg'), (i18n.ChooseDirective, 'choose'), (i18n.SingularDirective, 'singular'),
                       (i18n.PluralDirective, 'plural')):
            if isinstance(d, cls):
                return k
        if isinstance(d, StripDirective):
            return 'strip'
        return 'other'

    def walk(evs, where):
        skip = 0
        for e in evs:
            k, data = e[0], e[1]
            if k is START:
                tag, attrs = data
                if skip:
                    skip += 1
                    fs.add('pass:start-while-skipping')
                elif tag in tr.ignore_tags or isinstance(attrs.get(xml_lang), str):
                    skip = 1
                    fs.add('pass:excluded-' + ('tag' if tag in tr.ignore_tags else 'lang') + '@' + where)
                for name, v in attrs:
                    if isinstance(v, str):
                        if name in tr.include_attrs:
                            fs.add('attr:included-blank' if not v.strip() else 'attr:included-skipped' if skip else 'attr:included')
                    else:
                        fs.add('attr:interpolated' + ('-while-skipping' if skip else ''))
            elif k is END:
                if skip:
                    skip -= 1
            elif k is TEXT:
                if not skip and where in ('singular', 'plural', 'msg-sub'):
                    fs.add('text:fragment@' + where + (':letter' if has_letter(data.strip()) else ':noletter' if data.strip() else ':blank'))
            elif k is SUB:
                ds, body = data
                ks = [kind(d) for d in ds]
                fs.add('sub:' + '+'.join(ks))
                if skip:
                    fs.add('pass:sub-while-skipping')
                # reorderGo: something is moved
                front = [x for x in ks if x == 'domain'] + [x for x in ks if x == 'ctxt']
                if front and ks[:len(front)] != front:
                    fs.add('reorder:moves')
                if 'domain' in ks and 'ctxt' in ks:
                    fs.add('reorder:domain+ctxt')
                # subLoop1: pops under the iterator
                i = 0
                cur = list(ks)
                skipped = False
                while i < len(cur):
                    if cur[i] in ('comment', 'ctxt') or cur[i] in ('strip', 'other'):
                        if cur[i] in ('comment', 'ctxt') and len(cur) == 1:
                            fs.add('x1:%s-alone' % cur[i])
                        cur.pop(i)
                        if i < len(cur):
                            skipped = True
                    i += 1
                if skipped:
                    fs.add('x1:pop-skips-a-directive')
                if not cur and not ('comment' in ks or 'ctxt' in ks):
                    fs.add('x1:all-popped-plain-extract')
                if [x for x in cur if x not in ('msg', 'choose')] and [x for x in cur if x in ('msg', 'choose')]:
                    fs.add('x2:extra-extract-next-to-message')
                body = list(body)
                if 'msg' in ks:
                    first_start = bool(body) and body[0][0] is START
                    fs.add('msg:attr-form' if first_start else 'msg:elem-form')
                    fs.add('msg:events=%s' % (len(body) if len(body) < 3 else '3+'))
                    if any(x[0] is SUB for x in body):
                        fs.add('msg:has-sub')
                    if body and body[-1][0] is not END:
                        fs.add('msg:last-not-end')
                    if sum(1 for x in body if x[0] is EXPR) > len([d for d in ds if isinstance(d, i18n.MsgDirective)][0].params):
                        fs.add('msg:more-exprs-than-params')
                    walk(body, 'msg')
                elif 'choose' in ks:
                    first_start = bool(body) and body[0][0] is START
                    fs.add('choose:attr-form' if first_start else 'choose:elem-form')
                    inner = body[1:-1] if first_start else body
                    for x in inner:
                        if x[0] is SUB:
                            xs = [kind(d) for d in x[1][0]]
                            if 'singular' in xs or 'plural' in xs:
                                b = list(x[1][1])
                                fs.add('choose:branch-' + ('attr' if b and b[0][0] is START else 'elem') + '-form')
                                if 'strip' in xs:
                                    fs.add('choose:branch+strip')
                                if [y for y in xs if y not in ('singular', 'plural', 'strip')]:
                                    fs.add('choose:branch+other-directive')
                            else:
                                fs.add('choose:sub-outside-branches')
                        elif x[0] is TEXT and x[1].strip():
                            fs.add('choose:text-outside-branches')
                    if body and body[-1][0] is SUB:
                        fs.add('choose:last-event-is-branch')
                    walk(body, 'choose')
                else:
                    w = where
                    if 'singular' in ks:
                        w = 'singular'
                    elif 'plural' in ks:
                        w = 'plural'
                    elif where in ('msg', 'msg-sub', 'singular', 'plural'):
                        w = 'msg-sub' if where in ('msg', 'msg-sub') else where
                    walk(body, w)
    walk(list(events), 'top')
    return fs


def MarkupTemplateCheck(case):
    from genshi.template import MarkupTemplate
    return MarkupTemplate(src(case)).stream


def corr_lines(case, rng):
    """[(stream name, request line, real answer)] for one template case; every real call works on
    a fresh template because both passes edit the directive lists in place (C10)"""
    from genshi.template.base import Context, SUB
    from genshi.filters import i18n
    out = []
    # --- Translator.__call__
    catkind = rng.choice(['id', 'wrap', 'wrap', 'pad', 'const', 'dup'])
    frames = rng.choice([[], [], [], [['d', 'foo']], [['c', 'menu']], [['c', 'menu'], ['d', 'bar']], [['d', 'foo'], ['d', 'bar']]])
    tt, ta = rng.random() < 0.85, rng.random() < 0.85
    tmpl, tr = fresh_template(case)
    w = Wire()
    stream = tmpl.stream
    wired = w.stream(stream)
    case_branches = sorted(model_branches(stream, tr))
    if frames:
        case_branches.append('ctx:frames=' + '+'.join(k for k, _ in frames))
    case_branches.append('pass:tt=%s,ta=%s' % (int(tt), int(ta)))
    out.append(('branches', None, case_branches))
    cat = KeyedCatalogue(CATS[catkind])
    tr.translate = cat
    ctxt = Context()
    for k, v in reversed(frames):
        ctxt.push({'_i18n.domain' if k == 'd' else '_i18n.context': v})
    line = proto.line(Atom('C19'), Atom('translate'), wire_cfg(tr), Atom(catkind),
                      [[Atom(k), v] for k, v in frames], B(tt), B(ta), wired)
    try:
        res = list(tr(stream, ctxt, translate_text=tt, translate_attrs=ta))
        real = [w.stream(res), cat.log]
    except Exception as e:  # noqa
        real = [Atom('err'), Atom(errname(e))]
    out.append(('translate', line, real))
    # --- Translator.extract
    tmpl, tr = fresh_template(case)
    w = Wire()
    wired = w.stream(tmpl.stream)
    line = proto.line(Atom('C19'), Atom('extract'), wire_cfg(tr), wired)
    try:
        msgs = []
        for lineno, func, msg, comments in tr.extract(tmpl.stream):
            msgs.append([proto.N if func is None else func, Wire.val(msg), list(comments)])
        real = [Atom('ok'), msgs]
    except Exception as e:  # noqa
        real = [Atom('err'), Atom(errname(e))]
    out.append(('extract', line, real))
    # --- Translator.extract(stream, search_text=st, comment_stack=cs, context_stack=xs): the keyword
    # arguments the recursion uses, given from outside (theorem lookups_subset_extract_args)
    tmpl, tr = fresh_template(case)
    w = Wire()
    wired = w.stream(tmpl.stream)
    st = rng.random() < 0.75
    cs = rng.choice([[], [], ['note'], ['one', 'two']])
    xs = rng.choice([[], [], ['menu'], ['menu', 'verb'], ['']])
    line = proto.line(Atom('C19'), Atom('extractw'), wire_cfg(tr), B(st), list(cs), list(xs), wired)
    try:
        msgs = []
        for lineno, func, msg, comments in tr.extract(tmpl.stream, search_text=st, comment_stack=list(cs), context_stack=list(xs)):
            msgs.append([proto.N if func is None else func, Wire.val(msg), list(comments)])
        real = [Atom('ok'), msgs]
    except Exception as e:  # noqa
        real = [Atom('err'), Atom(errname(e))]
    out.append(('extractw', line, real))
    out.append(('branches', None, ['extractw:st=%d,cs=%d,xs=%d' % (int(st), len(cs), len(xs))]))
    # --- Translator.extract(stream, gettext_functions=gf) with the code as syntax trees: the model
    # itself runs `extractFromCode gf` where the code meets an EXPR / EXEC event or an expression in an
    # attribute value (`extractP`); nothing the real extract_from_code computed goes to the model
    tmpl, tr = fresh_template(case)
    gf = tuple(i18n.GETTEXT_FUNCTIONS) if rng.random() < 0.5 else rng.choice(TEMPLATE_GF)
    try:
        wired = Wire(py=True).stream(tmpl.stream)
    except ValueError:
        wired = None
    if wired is not None and not _has_surrogate(wired):
        line = proto.line(Atom('C19'), Atom('extractp'), wire_cfg(tr), list(gf), wired)
        try:
            msgs = []
            for lineno, func, msg, comments in tr.extract(tmpl.stream, gettext_functions=gf):
                msgs.append([proto.N if func is None else func, Wire.val(msg), list(comments)])
            real = [Atom('ok'), msgs]
        except Exception as e:  # noqa
            real = [Atom('err'), Atom(errname(e))]
        out.append(('extractp', line, real))
        out.append(('branches', None, ['extractp:gf=' + ('default' if gf == tuple(i18n.GETTEXT_FUNCTIONS) else '+'.join(gf) or 'none')]))
    # --- MsgDirective.__call__ on every message of the template
    tmpl, tr = fresh_template(case)
    w = Wire()

    def msgs_of(events):
        for e in events:
            if e[0] is SUB:
                for d in e[1][0]:
                    if isinstance(d, i18n.MsgDirective):
                        yield d, e[1][1]
                for x in msgs_of(e[1][1]):
                    yield x
    for d, sub in msgs_of(tmpl.stream):
        catkind = rng.choice(['id', 'id', 'pad', 'const', 'dup'])
        g = CATS[catkind]
        looked = []

        def gt(s, g=g, looked=looked):
            looked.append(s)
            return g(None, None, s)
        ctxt = Context()
        ctxt['_i18n.gettext'] = gt
        line = proto.line(Atom('C19'), Atom('msggen'), list(d.params), Atom(catkind), w.stream(sub))
        try:
            res = list(d(iter(sub), [], ctxt))
            real_a = [Atom('ok'), w.stream(res)]
        except Exception as e:  # noqa
            real_a = [Atom('err'), Atom(errname(e))]
        if looked:
            real_b = [Atom('ok'), looked[0]]
        elif real_a[0] == 'err':
            real_b = real_a
        else:
            real_b = [Atom('ok'), proto.N]
        out.append(('msggen', line, [real_a, real_b]))
    # --- ChooseDirective.__call__ on every plural choice of the template
    tmpl, tr = fresh_template(case)
    w = Wire()

    def chooses_of(events):
        for e in events:
            if e[0] is SUB:
                for d in e[1][0]:
                    if isinstance(d, i18n.ChooseDirective):
                        yield d, e[1][1]
                for x in chooses_of(e[1][1]):
                    yield x
    for d, sub in chooses_of(tmpl.stream):
        catkind = rng.choice(['id', 'id', 'pad', 'const', 'dup'])
        g = CATS[catkind]

        def ngt(s, p, n, g=g):
            if s == PROBE_S and p == PROBE_P:
                return s if n == 1 else p
            return g(None, None, s if n == 1 else p)
        ctxt = Context(**case['data'])
        ctxt['_i18n.ngettext'] = ngt
        try:
            numeral = d.numeral.evaluate(ctxt)
        except Exception:  # noqa
            continue
        line = proto.line(Atom('C19'), Atom('choose'), list(d.params), B(numeral != 1), Atom(catkind), w.stream(sub))
        try:
            res = list(d(iter(sub), [], ctxt))
            real = [Atom('ok'), w.stream(res)]
        except Exception as e:  # noqa
            real = [Atom('err'), Atom(errname(e))]
        out.append(('choose', line, real))
    return out


def rand_events(rng, w_unused=None):
    """random event lists for MessageBuffer (not necessarily balanced), as genshi events"""
    from genshi.core import START, END, TEXT, COMMENT, QName, Attrs
    from genshi.template.base import EXPR, SUB
    from genshi.template.eval import Expression
    from genshi.template.directives import StripDirective, IfDirective
    pos = (None, 1, 0)
    evs = []
    depth = 0
    tags = []
    texts = ['a', 'Foo ', ' bar', '[', ']', 'x[1:y]', '\\', 'a\\', '%(p1)s', '%(zz)s', ' ', '', '12', 'é', '[2:', ']]', 'a b\n']
    exprs = [Expression('s%d' % i) for i in range(3)]
    n = rng.randrange(0, 9)
    for _ in range(n):
        q = rng.random()
        if q < 0.35:
            evs.append((TEXT, rng.choice(texts), pos))
        elif q < 0.5:
            evs.append((EXPR, rng.choice(exprs), pos))
        elif q < 0.72:
            t = QName(rng.choice(['b', 'i', 'a']))
            tags.append(t)
            evs.append((START, (t, Attrs([(QName('id'), 'k')] if rng.random() < 0.3 else [])), pos))
        elif q < 0.92:
            if tags and rng.random() < 0.9:
                evs.append((END, tags.pop(), pos))
            else:
                evs.append((END, QName('b'), pos))
        elif q < 0.94:
            evs.append((COMMENT, 'c', pos))
        else:
            # directive-carrying sub-streams, also nested in each other (TypeError branch of
            # MessageBuffer.translate: measured in 0.1 % of the cases before)
            inner = rand_events(rng)
            evs.append((SUB, ([StripDirective('', None)], inner), pos))
    if rng.random() < 0.7:
        while tags:
            evs.append((END, tags.pop(), pos))
    return evs


def nested_sub_events(rng):
    """directive-carrying elements inside each other (finding C19-nested-directives: the TypeError
    branch of MessageBuffer.translate, hit by 0.1 % of `rand_events`)"""
    from genshi.core import START, END, TEXT, QName, Attrs
    from genshi.template.base import SUB
    from genshi.template.directives import StripDirective
    pos = (None, 1, 0)

    def el(tag, kids):
        return [(START, (QName(tag), Attrs()), pos)] + kids + [(END, QName(tag), pos)]

    def sub(kids):
        return [(SUB, ([StripDirective('', None)], kids), pos)]
    t = lambda: [(TEXT, rng.choice(['a', 'x ', ' y', '12']), pos)] if rng.random() < 0.8 else []
    inner = sub(el('i', t()))
    if rng.random() < 0.3:
        inner = el('em', t() + inner + t())
    return t() + sub(el('b', t() + inner + t())) + t()


def rand_translation(rng, fmt):
    """a translation string: the message itself, a mutation of it, or bracket soup"""
    q = rng.random()
    if q < 0.3 and fmt is not None:
        return fmt
    if q < 0.6 and fmt is not None and fmt:
        s = list(fmt)
        for _ in range(rng.randrange(1, 3)):
            i = rng.randrange(len(s) + 1)
            k = rng.random()
            if k < 0.4 and s:
                del s[min(i, len(s) - 1)]
            elif k < 0.7:
                s.insert(i, rng.choice(['[1:', ']', 'x', '[2:', '\\', '%(p1)s', ' ']))
            elif len(s) > 1:
                j = rng.randrange(len(s))
                s[min(i, len(s) - 1)], s[j] = s[j], s[min(i, len(s) - 1)]
        return ''.join(s)
    toks = ['[1:', '[2:', '[3:', '[12:', '[0:', ']', ']', 'a', 'b ', ' ', '\\]', '\\[', '\\', '%(p1)s', '%(p2)s', '%(q)s', '%(', ')s',
            '[:', '[x:', '[1', '1:', '٣', '[٣:', 'é']
    return ''.join(rng.choice(toks) for _ in range(rng.randrange(0, 8)))


def buffer_lines(rng, n):
    """MessageBuffer.append/format/translate and parse_msg on random inputs"""
    from genshi.filters import i18n

    class D(object):
        tagname = 'msg'

        def __init__(self, params):
            self.params = params
    out = []
    for _ in range(n):
        params = rng.choice([[], ['p1'], ['p1', 'p2'], ['p1', 'p2', 'q']])
        evs = nested_sub_events(rng) if rng.random() < 0.04 else rand_events(rng)
        w = Wire()
        wired = w.stream(evs)
        fmt = None
        try:
            mb = i18n.MessageBuffer(D(list(params)))
            for e in evs:
                mb.append(*e)
            fmt = mb.format()
            real = [Atom('ok'), fmt]
        except Exception as e:  # noqa
            real = [Atom('err'), Atom(errname(e))]
        out.append(('format', proto.line(Atom('C19'), Atom('format'), params, wired), real))
        tr = rand_translation(rng, fmt)
        try:
            real = [Atom('ok'), [[Atom(str(o)), t] for o, t in i18n.parse_msg(tr)]]
        except Exception as e:  # noqa
            real = [Atom('err'), Atom(errname(e))]
        out.append(('parse_msg', proto.line(Atom('C19'), Atom('parse'), tr), real))
        try:
            mb = i18n.MessageBuffer(D(list(params)))
            for e in evs:
                mb.append(*e)
            real = [Atom('ok'), w.stream(list(mb.translate(tr)))]
        except Exception as e:  # noqa
            real = [Atom('err'), Atom(errname(e))]
        out.append(('mbtranslate', proto.line(Atom('C19'), Atom('mbtranslate'), params, wired, tr), real))
    return out


# --------------------------------------------------------------------------
# `extract_from_code` on generated Python expressions / suites (stream `pycode`)

def py_wire(node):
    """a Python syntax tree as `_walk` of `extract_from_code` sees it -> wire value of the model's
    `PyExpr`.  Generic: a call is ( PC func ( args ) ( keyword values ) ), string / bytes constants
    and names are leaves, every other node is ( PX children ) with the children in `_fields` order
    exactly as `_walk` enumerates them (list entries that are AST nodes, single AST children)."""
    import ast
    if isinstance(node, ast.Call):
        if tuple(node._fields) != ('func', 'args', 'keywords') or \
                not all(isinstance(k, ast.keyword) and tuple(k._fields) == ('arg', 'value') and isinstance(k.value, ast.AST)
                        and not isinstance(k.arg, ast.AST) for k in node.keywords) or \
                not all(isinstance(a, ast.AST) for a in node.args) or not isinstance(node.func, ast.AST):
            raise ValueError('a Call node of a shape the model does not know: %s' % ast.dump(node)[:200])
        return [Atom('PC'), py_wire(node.func), [py_wire(a) for a in node.args], [py_wire(k.value) for k in node.keywords]]
    if isinstance(node, ast.Constant) and isinstance(node.value, str):
        return [Atom('PS'), node.value]
    if isinstance(node, ast.Constant) and isinstance(node.value, bytes):
        try:
            return [Atom('PB'), node.value.decode('utf-8')]
        except UnicodeDecodeError:
            return [Atom('PB'), proto.N]
    if isinstance(node, ast.Name) and isinstance(node.id, str) and \
            all(not getattr(getattr(node, f, None), '_fields', ()) for f in node._fields if isinstance(getattr(node, f, None), ast.AST)):
        return [Atom('PN'), node.id]
    children = []
    for field in node._fields:
        child = getattr(node, field, None)
        if isinstance(child, list):
            children.extend(e for e in child if isinstance(e, ast.AST))
        elif isinstance(child, ast.AST):
            children.append(child)
    return [Atom('PX'), [py_wire(c) for c in children]]


def _has_surrogate(x):
    if isinstance(x, str):
        return any(0xD800 <= ord(c) <= 0xDFFF for c in x)
    if isinstance(x, list):
        return any(_has_surrogate(y) for y in x)
    return False


# `gettext_functions` arguments for the templates (their code calls `_`, `ngettext` and `len`)
TEMPLATE_GF = [('_',), ('ngettext',), (), ('len', '_'), ('ngettext', 'len'), ('gettext', 'N_'), ('_', 'ngettext', 'len')]
ALT_GF = [('_', 'tr', 'len'), ('gettext',), (), ('N_', 'pgettext', '_', 'ngettext'), ('str', 'dict', 'sorted')]


def pycode_compile(case):
    """the `Code` object genshi builds for the case, or the class name of what it raised"""
    from genshi.template.eval import Expression, Suite
    try:
        return (Expression if case['mode'] == 'expr' else Suite)(case['pycode']), None
    except Exception as e:  # noqa
        return None, errname(e)


def pycode_oracle(case, res=None, code=None):
    """the property on the real code, independent of the model: the source is evaluated by CPython
    with recording stand-ins for the gettext functions; every (function, string) that was passed as
    first positional argument AND is written as `function('string', ...)` in the source (CPython's
    own `ast` of the source text) must be among what `extract_from_code` reports for the `Code`
    object genshi compiled from the same source.  None = nothing to report."""
    import ast, warnings
    from harness import gen_pycode as P
    from genshi.filters.i18n import extract_from_code, GETTEXT_FUNCTIONS
    warnings.filterwarnings('ignore', category=SyntaxWarning)
    if not isinstance(case, dict) or case.get('mode') not in ('expr', 'suite') or not isinstance(case.get('pycode'), str):
        return None
    gf = tuple(case['gf']) if isinstance(case.get('gf'), list) else tuple(GETTEXT_FUNCTIONS)
    if not all(isinstance(f, str) for f in gf):
        return None
    try:
        tree = ast.parse(case['pycode'], mode='eval' if case['mode'] == 'expr' else 'exec')
    except (SyntaxError, ValueError, RecursionError, MemoryError):
        return None
    if not P.safe_to_evaluate(tree):
        if res is not None:
            res.count('pycode:oracle:not-evaluated(unsafe-or-outside-grammar)')
        return None
    if any(isinstance(n, ast.Constant) and isinstance(n.value, bytes) and not _utf8(n.value) for n in ast.walk(tree)):
        # a bytes literal that is no utf-8: extract_from_code raises UnicodeDecodeError (outside the
        # stated assumptions; reported in notes/C19.md)
        if res is not None:
            res.count('pycode:oracle:not-evaluated(undecodable-bytes)')
        return None
    if code is None:
        code, err = pycode_compile(case)
    if code is None:
        return None
    sites, under_star = P.literal_sites(tree, gf)
    if res is not None and under_star:
        res.count('pycode:oracle:literal-sites-under-star(not-demanded)', under_star)
    log, everr = P.evaluate(case['pycode'], case['mode'], gf, P.NON_GETTEXT)
    if res is not None:
        res.count('pycode:oracle:evaluated')
        res.count('pycode:oracle:calls-recorded', len(log))
        if everr:
            res.count('pycode:oracle:evaluation-raised')
    required = sorted(set(r for r in log if r in sites))
    if res is not None:
        res.count('pycode:oracle:literal-calls-performed', len(required))
    try:
        found = list(extract_from_code(code, gf))
        have = set()
        for f, v in found:
            if isinstance(v, tuple):
                if v:
                    have.add((f, v[0]))
            else:
                have.add((f, v))
        observed = [[f, list(v) if isinstance(v, tuple) else v] for f, v in found]
    except Exception as e:  # noqa
        # extraction that raises reports nothing at all
        return {'case': case, 'what': 'extract_from_code raises on code that genshi compiled (extraction reports nothing)',
                'expected': 'a list of (function, strings)', 'observed': 'extract_from_code raised ' + errname(e)}
    missing = [list(r) for r in required if r not in have]
    if missing:
        return {'case': case, 'what': 'a gettext call with a literal message that evaluating the code performs is not reported by extract_from_code',
                'expected': missing, 'observed': _clip(observed)}
    return None


def _utf8(b):
    try:
        b.decode('utf-8')
        return True
    except UnicodeDecodeError:
        return False


def pycode_lines(rng, n, res=None):
    """generated expressions and suites: the model's `extractFromCode` on the tree genshi built
    (`code.ast`, converted generically) against `list(extract_from_code(code, gettext_functions))`;
    the oracle `pycode_oracle` on each.  Returns (stream, line, real, case) tuples."""
    import ast, warnings
    from harness import gen_pycode as P
    from genshi.filters.i18n import extract_from_code, GETTEXT_FUNCTIONS
    warnings.filterwarnings('ignore', category=SyntaxWarning)      # `'a' is not 3`, `3[x]` ... in generated sources
    if res is None:
        res = Result()
    out = []
    for _ in range(n):
        alt = rng.random() < 0.12
        gf = rng.choice(ALT_GF) if alt else tuple(GETTEXT_FUNCTIONS)
        undec = rng.random() < 0.04
        g = P.PyGen(rng, gf or ('_',), undecodable=undec)
        mode = 'expr' if rng.random() < 0.6 else 'suite'
        src_ = g.expr(rng.choice([1, 2, 3, 3])) if mode == 'expr' else g.suite(rng.choice([1, 2, 2]))
        case = {'pycode': src_, 'mode': mode}
        if alt:
            case['gf'] = list(gf)
            res.count('pycode:other-gettext_functions')
        res.count('pycode:cases')
        res.count('pycode:mode:' + mode)
        code, err = pycode_compile(case)
        if code is None:
            res.count('pycode:skipped:genshi-cannot-compile:' + err)
            continue
        try:
            st = P.site_stats(ast.parse(src_, mode='eval' if mode == 'expr' else 'exec'), gf)
        except SyntaxError:
            st = {}
        for k_, v_ in sorted(st.items()):
            if v_:
                res.count('pycode:source:' + k_, v_)
        if st.get('sites'):
            res.count('pycode:with-gettext-call')
            res.count('pycode:with-gettext-call:' + mode)
        f = pycode_oracle(case, res, code)
        if f:
            res.failures.append(f)
        try:
            real = [[fn, Wire.val(v)] for fn, v in extract_from_code(code, gf)]
            res.count('pycode:reported', len(real))
            res.count('pycode:reported:None-entries', sum(1 for _f, v in real for x in v[1:] if x is proto.N))
            res.count('pycode:reported:empty-tuple', sum(1 for _f, v in real if v == [Atom('many')]))
        except Exception as e:  # noqa
            real = [Atom('err'), Atom(errname(e))]
        try:
            wired = py_wire(code.ast)
        except Exception as e:  # noqa
            res.disagreements.append({'stream': 'pycode', 'case': case, 'model': '', 'real': 'py_wire raised %s: %s' % (type(e).__name__, e)})
            continue
        if _has_surrogate(wired):
            res.count('pycode:skipped:surrogate-in-literal')
            continue
        out.append(('pycode', proto.line(Atom('C19'), Atom('pycode'), list(gf), wired), real, case))
    return out



def compare(triples, res):
    lines = [t[1] for t in triples]
    answers = proto.run_lines(lines)
    for t, ans in zip(triples, answers):
        stream, line, real = t[0], t[1], t[2]
        origin = t[3] if len(t) > 3 else None
        if ans == 'unmodelled':
            res.count('model:unmodelled:' + stream)
            if stream == 'pycode':
                # the only trees the model does not cover hold a bytes literal that is no utf-8
                res.count('pycode:unmodelled:real=%s' % (real[1] if real and real[0] == 'err' else 'answers'))
            continue
        try:
            model = proto.dec(ans)
        except Exception:  # noqa
            model = Atom(ans)
        res.streams[stream] = res.streams.get(stream, 0) + 1
        if stream == 'translate' and real[0] != 'err' and isinstance(model, list) and len(model) == 2:
            res.count('translate:lookups', len(real[1]))
        if isinstance(real, list) and real and real[0] == 'err':
            res.count('%s:%s' % (stream, real[1]))
        elif stream == 'msggen' and real[0][0] == 'err':
            res.count('%s:%s' % (stream, real[0][1]))
        elif stream == 'extract' and real[0] == 'ok':
            res.count('extract:messages', len(real[1]))
        if model != real:
            res.disagreements.append({'stream': stream, 'case': origin if origin is not None else {'line': line},
                                      'line': line[:4000], 'model': repr(model)[:1500], 'real': repr(real)[:1500]})


# --------------------------------------------------------------------------

def features(tree):
    """constructs a template uses (for the distribution in the evidence)"""
    fs = set()

    def walk(n, depth_in_msg):
        if n[0] == 'e':
            names = [d[0] for d in n[3]]
            for d in names:
                fs.add(d if depth_in_msg is None else 'in-msg:' + d if d.startswith('py:') else d)
            if n[1] in G.IGNORED:
                fs.add('ignored-tag')
            for name, parts in n[2]:
                if name == 'xml:lang':
                    fs.add('xml:lang-literal' if all(p[0] == 't' for p in parts) else 'xml:lang-expr')
                elif name in G.INCL_ATTRS:
                    if len(parts) == 1 and parts[0][0] == 't':
                        fs.add('attr-included')
                    else:
                        fs.add('attr-interpolated')
                for p in parts:
                    if p[0] == 'x' and '(' in p[1]:
                        fs.add('code-gettext')
            dm = depth_in_msg
            if 'i18n:msg' in names or 'i18n:singular' in names or 'i18n:plural' in names:
                dm = 0
            elif dm is not None:
                dm += 1
                fs.add('msg-depth-%d' % min(dm, 3))
            for k in n[4]:
                walk(k, dm)
        elif n[0] == 'd':
            fs.add('element:' + n[1])
            dm = 0 if n[1] in ('i18n:msg', 'i18n:singular', 'i18n:plural') else depth_in_msg
            for k in n[3]:
                walk(k, dm)
        elif n[0] == 'x':
            if depth_in_msg is not None:
                fs.add('msg-param')
            if '(' in n[1]:
                fs.add('code-gettext')
        elif n[0] == 'c':
            fs.add('comment')
        elif n[0] == 'pi':
            fs.add('python-pi')
    for n in tree:
        walk(n, None)
    return fs


def gen_cases(rng, n, hazards=()):
    cases = []
    for _ in range(n):
        q = rng.random()
        cat = 'id' if q < 0.4 else 'scramble' if q < 0.6 else rng.choice(['perm', 'drop', 'permdrop'])
        # the fragment-wise look-ups inside choose branches / directive-carrying elements of a message
        # (finding C19-fragments) leave the identity clause alone; every other clause is checked on
        # templates whose text in those places has no letter
        nofrag = cat != 'id' or rng.random() < 0.6
        c = G.gen_case(rng, hazards, nofrag=nofrag)
        c['cat'] = cat
        c['catseed'] = rng.randrange(1000)
        c['checks'] = ['identity', 'lookups'] if (cat == 'id' and nofrag) else ['identity'] if cat == 'id' else \
            ['placeholders', 'excluded'] if cat == 'scramble' else ['placeholders']
        cases.append(c)
    return cases


def shard(arg):
    import random
    seed, idx, n = arg
    rng = random.Random('%s/%s/C19' % (seed, idx))
    res = Result()
    cases = gen_cases(rng, n)
    triples = []
    for c in cases:
        res.evaluations += 1
        res.count('cat:' + c['cat'])
        fs = features(c['tmpl'])
        for ft in fs:
            res.count('tmpl:' + ft)
        if not c['cfg']['extract_text']:
            res.count('cfg:extract_text=False')
        if c.get('xhtml'):
            res.count('tmpl:xhtml-namespace')
        if c['cfg']['ignore_tags'] != list(G.IGNORED):
            res.count('cfg:ignore_tags-changed')
        if c['cfg']['include_attrs'] != list(G.INCL_ATTRS):
            res.count('cfg:include_attrs-changed')
        if fs & set(['i18n:msg', 'element:i18n:msg', 'i18n:choose', 'element:i18n:choose', 'ignored-tag',
                     'xml:lang-literal', 'attr-included', 'i18n:domain', 'i18n:ctxt']):
            res.nontrivial.add(hashlib.sha1((src(c) + c['cat']).encode('utf-8')).hexdigest()[:16])
        f = oracle_case(c)
        if f:
            res.failures.append(f)
        elif not in_hypotheses(c):
            # harness self-check: the hypothesis checker the shrinker uses must accept what the
            # generator produces
            res.failures.append({'case': c, 'what': 'harness self-check: a generated case lies inside the stated hypotheses '
                                                    '(in_hypotheses disagrees with gen_i18n.Gen)', 'expected': True, 'observed': False})
        try:
            for t in corr_lines(c, rng):
                if t[0] == 'branches':
                    for b in t[2]:
                        res.count('br:' + b)
                else:
                    triples.append(t + (c,))
        except Exception as e:  # noqa
            res.disagreements.append({'stream': 'harness', 'case': c, 'model': '', 'real': 'corr_lines raised %s: %s' % (type(e).__name__, e)})
    # templates aimed at rarely reached model branches: correspondence only (many lie outside the
    # hypotheses of the oracle); counted under `rare:` / `br:`
    rrng = random.Random('%s/%s/C19/rare' % (seed, idx))
    for _ in range(max(1, n // 8)):
        c = G.gen_rare_case(rrng)
        res.count('rare:cases')
        try:
            MarkupTemplateCheck(c)
        except Exception as e:  # noqa
            res.count('rare:unparsable:' + type(e).__name__)
            continue
        # the part of the template that lies inside the hypotheses of the oracle (all of it, when
        # it does) is put before the oracle as well: identity + look-ups
        for checks in (['identity', 'lookups'], ['identity']):
            pc = project(dict(c, cat='id', catseed=0, checks=checks))
            if pc is not None:
                break
        if pc is None or not valid_case(pc):
            res.count('rare:oracle:nothing-inside-hypotheses')
        else:
            res.count('rare:oracle:' + ('whole' if pc['tmpl'] == c['tmpl'] else 'part') + ':' + '+'.join(pc['checks']))
            res.evaluations += 1
            f = oracle_case(pc)
            if f:
                res.failures.append(f)
        try:
            for t in corr_lines(c, rrng):
                if t[0] == 'branches':
                    for b in t[2]:
                        res.count('br:' + b)
                        res.count('rare:br:' + b)
                else:
                    triples.append(t + (c,))
        except Exception as e:  # noqa
            res.disagreements.append({'stream': 'harness', 'case': c, 'model': '', 'real': 'corr_lines raised %s: %s' % (type(e).__name__, e)})
    triples.extend(buffer_lines(rng, 3 * n))
    triples.extend(pycode_lines(random.Random('%s/%s/C19/pycode' % (seed, idx)), n, res))
    compare(triples, res)
    res.samples = cases[:2]
    return res


def oracle_shard(arg):
    """the oracle alone (no correspondence, no model) on freshly generated templates of both
    generators: the fall-back budget of the failing-input search"""
    import random
    seed, idx, n = arg
    rng = random.Random('%s/%s/C19/search' % (seed, idx))
    res = Result()
    for c in gen_cases(rng, n):
        res.evaluations += 1
        f = oracle_case(c)
        if f:
            res.failures.append(f)
    for _ in range(max(1, n // 4)):
        c = G.gen_rare_case(rng)
        try:
            MarkupTemplateCheck(c)
        except Exception:  # noqa
            continue
        for checks in (['identity', 'lookups'], ['identity']):
            pc = project(dict(c, cat='id', catseed=0, checks=checks))
            if pc is not None:
                break
        if pc is not None and valid_case(pc):
            res.evaluations += 1
            f = oracle_case(pc)
            if f:
                res.failures.append(f)
    return res


def run(ctx):
    nsh = 16
    per = ctx.n(200, 4000)
    res = Result()
    for r in pmap('harness.props.c19', 'shard', [(ctx.seed, i, per) for i in range(nsh)]):
        res.merge(r)
    res.rule = ('generated i18n templates (translatable text and attributes, ignored tags, xml:lang, msg with nested '
                'elements / parameters / directives, plural choices, domains, contexts, comments, gettext calls in code, '
                'py:if/for/strip) x catalogue (identity, scramble, permuting, dropping) x configuration; non-trivial = the '
                'template has a message directive, an excluded region, a translated attribute or a domain/context; '
                'distinct by (source, catalogue)')
    res.samples = [{'source': src(c), 'cat': c['cat'], 'cfg': c['cfg']} for c in res.samples[:4]]
    return res


def search(ctx, res, broken):
    """failing-input search: the templates on which model and code disagreed first, each under
    every catalogue family and with every clause checked; then a larger seeded budget"""
    found = []
    seen = set()
    for d in res.disagreements[:300]:
        c = d.get('case')
        if isinstance(c, dict) and 'pycode' in c:
            f = replay(ctx, c)
            if f:
                found.append(f)
                if len(found) >= 5:
                    return found
            continue
        if not isinstance(c, dict) or 'tmpl' not in c:
            continue
        key = json.dumps(c.get('tmpl'), sort_keys=True)
        if key in seen:
            continue
        seen.add(key)
        # every clause, whatever the case was generated for (a `Rare` template carries no catalogue and
        # no list of clauses; a template generated for the identity clause alone may hold letters in
        # fragment positions): the case as it is when it lies inside the hypotheses of the oracle,
        # else (and also) the part of it that does - `project`
        for cat, checks in (('id', ['identity', 'lookups']), ('id', ['identity']), ('scramble', ['placeholders', 'excluded']),
                            ('perm', ['placeholders']), ('drop', ['placeholders'])):
            c2 = dict(c)
            c2['cat'] = cat
            c2['checks'] = checks
            c2.setdefault('catseed', 0)
            f = None
            for c3 in (c2, project(c2)):
                if c3 is not None:
                    f = replay(ctx, c3)
                    if f:
                        break
            if f:
                found.append(f)
                break
        if len(found) >= 5:
            return found
    if found:
        return found
    for r in pmap('harness.props.c19', 'oracle_shard', [(ctx.seed + 1000 + i, i, 600) for i in range(16)]):
        found.extend(f for f in r.failures if not f.get('what', '').startswith('the reference template renders'))
    return found


def replay(ctx, case):
    """the oracle on one case; a case whose reference template does not render is not an input
    of the property (the shrinker produces such cases) - only the generation loop reports
    that as a harness self-check failure"""
    if isinstance(case, dict) and 'pycode' in case:
        # a Python expression / suite: the oracle of the `pycode` stream (it checks itself that the
        # source is one it may evaluate)
        return pycode_oracle(case)
    if not _recorded_input(case) and not (valid_case(case) and in_hypotheses(case)):
        return None
    f = oracle_case(case)
    if f and f.get('what', '').startswith('the reference template renders'):
        return None
    return f


_RECORDED = []


def _recorded_input(case):
    """the inputs of findings/C19.json are replayed as they are (they lie outside the hypotheses)"""
    import os
    if not _RECORDED:
        path = os.path.join(os.path.dirname(os.path.dirname(os.path.dirname(os.path.abspath(__file__)))), 'findings', 'C19.json')
        try:
            with open(path) as fh:
                _RECORDED.append(set(json.dumps(e.get('input'), sort_keys=True) for e in json.load(fh)))
        except Exception:  # noqa
            _RECORDED.append(set())
    return json.dumps(case, sort_keys=True) in _RECORDED[0]

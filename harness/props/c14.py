"""C14 — disabling code execution disables it on every path.

Real-code side: every case (see harness/gen_exec.py) is materialised as a directory of template
files under .build/c14/, the root template is brought into existence the way the case says
(direct construction from str / bytes / file / parsed stream, TemplateLoader.load, plugin file or
string template) under the case's configuration, rendered with a sentinel list in the context
data, and the observation (exception class and file, sentinel, number of EXEC evaluations,
output tokens) is judged by an oracle that restates the property without the model:

  * a code block of a template whose governing flag is off never runs, and bringing a template
    with a code block into existence under a flag that is off raises TemplateSyntaxError;
  * a tree without code blocks renders identically with every flag forced on.

Model side: the same case goes to gdrv (`C14 reach …` for the reachability model over the
generated forwarding tables, `C14 render …` for the include-graph model) and the predicted
observation is compared with the real one.
"""
import io, json, os, random, re, shutil, sys
from harness import proto, gen_exec as G
from harness.framework import Result, pmap, BUILD
from harness.proto import Atom, B

PROP = 'C14'
TRUSTED = [
    'modelled, not verified: Template.__init__/_init_loader, MarkupTemplate/NewTextTemplate._parse code-block guard, '
    'TemplateLoader.load/_instantiate, Template._prepare/_include, plugin option parsing (hand-written Lean model '
    'tied by generated forwarding tables and an exhaustive correspondence over the configuration space)',
    'not modelled: expat, the text-template regular expressions, Suite compilation, directive evaluation '
    '(templates are abstracted to sequences of text / expression / code-block / include items)',
    'the translator harness/extract_exec.py (behavioural probes of every class x construction way x spelling)',
    'the translator harness/extract_execshape.py (every placement of a code block x every way a template object comes '
    'into being, flag off and on; the walker of the object graph and the skeleton of the streams)',
    'modelled, not verified: Template._prepare_self/_prepare memoisation, LRUCache order (ExecMemo; tied by the stream '
    'memo-history incl. the final cache keys in LRU order)',
]
ASSUMPTIONS = [
    'a configuration is "disabled" for a template when the flag that governs its instantiation is off: the '
    'constructor flag for a directly constructed template, the loader flag for everything a loader instantiates '
    '(a template given no loader hands its own flag to the loader it creates); contradictory explicit settings '
    '(template off, explicit loader on) are judged per template, not globally',
    'loader.allow_exec is not mutated after construction; templates are not built from hand-made EXEC events',
    'plugin spellings: yes/true/on/1 and no/false/off/0 in any letter case, and the Python booleans',
]

SCRATCH = os.path.join(BUILD, 'c14')
TOKEN = re.compile(r'[te]\d+;')


# --------------------------------------------------------------------------
# running one case on the real code

def _classes():
    from genshi.template import MarkupTemplate, NewTextTemplate
    from genshi.template.text import OldTextTemplate
    return {'markup': MarkupTemplate, 'newtext': NewTextTemplate, 'oldtext': OldTextTemplate}


def _cache_kw(case, kw):
    """`max_cache_size` of the loader under test: absent = the default (25, more than the files of
    any generated case), else a small bound so that templates are evicted and parsed again"""
    kw = dict(kw)
    c = case.get('cache')
    if c is None and os.environ.get('C14_FORCE_CACHE'):
        c = int(os.environ['C14_FORCE_CACHE'])
    if c is not None:
        kw['max_cache_size'] = c
    return kw


def _req_kw(req):
    return {} if req == 'dflt' else {'allow_exec': req == 'on'}


def _opt_value(opt):
    k = opt[0]
    if k == 'bool':
        return bool(opt[1])
    if k == 'str':
        return opt[1]
    if k == 'int':
        return int(opt[1])
    if k == 'none':
        return None
    raise ValueError(opt)


def force_cfg(cfg, how):
    c = dict(cfg)
    c['tmpl'] = how
    c['loader'] = how
    c['opt'] = ['bool', how == 'on']
    return c


def _exc(e):
    from genshi.template.base import TemplateSyntaxError, TemplateError
    from genshi.template.loader import TemplateNotFound
    from genshi.template.plugin import ConfigurationError
    if isinstance(e, TemplateSyntaxError):
        fn = getattr(e, 'filename', None)
        return 'TemplateSyntaxError', (os.path.basename(fn) if fn else None)
    if isinstance(e, TemplateNotFound):
        return 'TemplateNotFound', None
    if isinstance(e, ConfigurationError):
        return 'ConfigurationError', None
    if isinstance(e, RecursionError):
        return 'RecursionError', None
    return 'Other:' + type(e).__name__, None


class Workdir(object):
    """the scratch directory (one per process, under .build/c14) holding the files of one case;
    every case writes all of its files, nothing of an earlier case is ever referenced"""
    _path = None
    _written = {}

    def __init__(self, files, tag=''):
        if Workdir._path is None or not os.path.isdir(Workdir._path):
            Workdir._path = os.path.join(SCRATCH, 'w%d' % os.getpid())
            os.makedirs(Workdir._path, exist_ok=True)
            Workdir._written = {}
        self.path = Workdir._path
        for f in files[1:]:
            self._put(f['name'], G.source(f))
        self.files = files

    def _put(self, name, text):
        # the file system is slow: a file is rewritten only when its content changes
        if Workdir._written.get(name) != text:
            with open(os.path.join(self.path, name), 'w', encoding='utf-8') as fh:
                fh.write(text)
            Workdir._written[name] = text

    def write_root(self, absolute):
        """the root file on disk (relative hrefs, like every file); returns the source the root is
        constructed from — with absolute hrefs for a plugin string template, which has no file
        name its includes could be relative to"""
        f = self.files[0]
        self._put(f['name'], G.source(f))
        return G.source(f, self.path if absolute else None)

    def close(self):
        pass


def observe(case, cfg=None, wd=None):
    """bring the root template into existence as the case says, render it, report what happened"""
    import genshi.template.base as base
    from genshi.template import TemplateLoader
    from genshi.template.plugin import MarkupTemplateEnginePlugin, TextTemplateEnginePlugin
    from genshi.input import XML
    cfg = cfg or case['cfg']
    root = case['root']
    files = case['files']
    own_wd = wd is None
    if own_wd:
        wd = Workdir(files)
    classes = _classes()
    rf = files[0]
    cls = classes[rf['syn']]
    sentinel = []
    execs = [0]
    orig = getattr(base, '_exec_suite', None)
    if orig is not None:
        def hook(*a, **k):
            execs[0] += 1
            return orig(*a, **k)
        base._exec_suite = hook
    obs = {'outcome': 'ok', 'errfile': None, 'phase': None, 'sentinel': sentinel, 'out': [], 'raw': None,
           'history': []}
    phase = 'configure'
    fobj = None
    try:
        src = wd.write_root(absolute=(root['kind'] == 'plugin-string'))
        path = os.path.join(wd.path, rf['name'])
        loader = None
        if root['kind'] == 'direct':
            if not root['own_loader']:
                loader = TemplateLoader([wd.path], auto_reload=cfg['auto_reload'], **_cache_kw(case, _req_kw(cfg['loader'])))
        elif root['kind'] == 'load':
            kw = _req_kw(cfg['loader'])
            if root['cls'] == 'default':
                kw['default_class'] = cls
            loader = TemplateLoader([wd.path], auto_reload=cfg['auto_reload'], **_cache_kw(case, kw))
        else:
            options = {'genshi.search_path': wd.path, 'genshi.auto_reload': cfg['auto_reload']}
            if case.get('cache') is not None:
                options['genshi.max_cache_size'] = case['cache']
            if cfg['opt'][0] != 'absent':
                options['genshi.allow_exec'] = _opt_value(cfg['opt'])
            if root['plugin'] == 'markup':
                plugin = MarkupTemplateEnginePlugin(options=options)
            else:
                if root['plugin'] == 'newtext':
                    options['genshi.new_text_syntax'] = 'yes'
                plugin = TextTemplateEnginePlugin(options=options)
            loader = plugin.loader
        # templates loaded earlier through the same loader
        for name in case.get('history', []):
            if loader is None:
                break
            fm = G.file_map(case)
            try:
                phase = 'history'
                t = loader.load(name, cls=classes[fm[name]['syn']])
                s = t.generate(sentinel=sentinel).render(encoding=None)
                obs['history'].append(['ok', TOKEN.findall(s)])
            except Exception as e:  # noqa
                k, fn = _exc(e)
                obs['history'].append([k, fn])
        phase = 'construct'
        if root['kind'] == 'direct':
            kw = dict(filepath=path, filename=rf['name'], loader=loader)
            kw.update(_req_kw(cfg['tmpl']))
            if root['src'] == 'str':
                tmpl = cls(src, **kw)
            elif root['src'] == 'bytes':
                tmpl = cls(src.encode('utf-8'), **kw)
            elif root['src'] == 'file':
                fobj = open(path, 'rb')
                tmpl = cls(fobj, **kw)
            elif root['src'] == 'stream':
                tmpl = cls(XML(src), **kw)
            else:
                raise ValueError(root['src'])
            if root.get('pickle'):
                # a template that went through pickle keeps its flag and its loader's
                import pickle
                tmpl = pickle.loads(pickle.dumps(tmpl))
        elif root['kind'] == 'load':
            if root['cls'] == 'default':
                tmpl = loader.load(rf['name'])
            else:
                tmpl = loader.load(rf['name'], cls=cls)
        elif root['kind'] == 'plugin-file':
            tmpl = plugin.load_template(rf['name'])
        elif root['kind'] == 'plugin-string':
            tmpl = plugin.load_template(None, template_string=src)
        else:
            raise ValueError(root['kind'])
        phase = 'render'
        if root['kind'].startswith('plugin'):
            s = plugin.transform({'sentinel': sentinel}, tmpl).render('text' if rf['syn'] != 'markup' else 'xml',
                                                                      encoding=None)
        else:
            s = tmpl.generate(sentinel=sentinel).render(encoding=None)
        obs['raw'] = s
        obs['out'] = TOKEN.findall(s)
    except Exception as e:  # noqa
        obs['outcome'], obs['errfile'] = _exc(e)
    finally:
        if orig is not None:
            base._exec_suite = orig
        if fobj is not None:
            fobj.close()
        try:
            # keys of the loader's cache, most recently used first (LRUCache.__iter__)
            obs['cache'] = [[os.path.basename(k), os.path.isabs(k)] for k in loader._cache]
        except Exception:  # noqa
            obs['cache'] = None
        if own_wd:
            wd.close()
    obs['phase'] = phase
    obs['execs'] = execs[0]
    return obs


# --------------------------------------------------------------------------
# the property, stated on the observation without the model

def documented(opt):
    """what the documentation says an option value means (None: not a documented value)"""
    if opt[0] == 'absent':
        return True
    if opt[0] == 'bool':
        return bool(opt[1])
    if opt[0] == 'str':
        l = opt[1].lower()
        if l in G.WORDS_ON:
            return True
        if l in G.WORDS_OFF:
            return False
    return None


def governing(case):
    """(flag governing the root template, flag governing every template the loader instantiates);
    True = allowed, False = disabled, None = no documented meaning"""
    cfg, root = case['cfg'], case['root']
    if root['kind'] == 'direct':
        r = cfg['tmpl'] != 'off'
        return r, (r if root['own_loader'] else cfg['loader'] != 'off')
    if root['kind'] == 'load':
        r = cfg['loader'] != 'off'
        return r, r
    d = documented(cfg['opt'])
    return d, d


def oracle(case, obs, obs_forced=None):
    """failure dict or None"""
    fm = G.file_map(case)
    rootname = case['files'][0]['name']
    g_root, g_inc = governing(case)
    owner = {}
    for f in case['files']:
        for it in G.code_items(f):
            owner[it[1]] = f['name']
    # the root *file* may also be instantiated by the loader (a template loaded earlier includes it)
    via_loader = set()
    for h in case.get('history', []):
        via_loader |= set(G.reachable({'files': [fm[h]] + [f for f in case['files'] if f['name'] != h]}))
    for n in G.reachable(case)[1:]:
        via_loader |= set(G.reachable({'files': [fm[n]] + [f for f in case['files'] if f['name'] != n]}))

    def gov(name):
        if name != rootname:
            return g_inc
        if rootname in via_loader and g_root is False:
            return g_inc
        return g_root

    def bad(what, expected, observed):
        return {'case': case, 'what': what, 'expected': expected, 'observed': observed}

    for i in obs['sentinel']:
        n = owner.get(i)
        if n is not None and gov(n) is False:
            return bad('code block %d of %s ran although execution is disabled for that template' % (i, n),
                       'sentinel without %d' % i, {'sentinel': obs['sentinel'], 'outcome': obs['outcome']})
    if g_root is False and g_inc is False and obs['execs']:
        return bad('EXEC events were evaluated although execution is disabled everywhere', 0, obs['execs'])
    reach = G.reachable(case)
    must_raise = [n for n in reach if fm[n]['syn'] != 'oldtext' and G.code_items(fm[n]) and gov(n) is False]
    if must_raise and not G.cyclic(case):
        if obs['outcome'] != 'TemplateSyntaxError':
            return bad('a template with a code block (%s) was constructed/loaded with execution disabled '
                       'and no TemplateSyntaxError was raised' % must_raise[0], 'TemplateSyntaxError',
                       {'outcome': obs['outcome'], 'sentinel': obs['sentinel']})
    if obs_forced is not None:
        a = (obs['outcome'], obs['raw'])
        b = (obs_forced['outcome'], obs_forced['raw'])
        if a != b:
            return bad('a tree without code blocks renders differently when execution is allowed', b, a)
    return None


def code_free(case):
    fm = G.file_map(case)
    names = set(G.reachable(case)) | set(case.get('history', []))
    return not any(G.code_items(fm[n]) for n in names if n in fm)


def judge(case):
    """observation and oracle verdict of one case"""
    wd = Workdir(case['files'])
    try:
        obs = observe(case, wd=wd)
        forced = None
        if code_free(case) and obs['outcome'] != 'ConfigurationError' and governing(case)[0] is not None:
            forced = observe(case, cfg=force_cfg(case['cfg'], 'on'), wd=wd)
        return obs, oracle(case, obs, forced)
    finally:
        wd.close()


def canon_obs(obs):
    return {'outcome': obs['outcome'], 'errfile': obs['errfile'], 'sentinel': list(obs['sentinel']),
            'out': list(obs['out']), 'history': obs['history']}


# --------------------------------------------------------------------------
# model side

def _cap(x):
    return Atom(x.capitalize())


def wire_opt(o):
    k = o[0]
    if k in ('absent', 'none'):
        return [_cap(k)]
    if k == 'bool':
        return [_cap(k), B(o[1])]
    if k == 'int':
        return [_cap(k), int(o[1])]
    return [_cap(k), o[1]]


def wire_cfg(cfg):
    return [_cap(cfg['tmpl']), _cap(cfg['loader']), wire_opt(cfg['opt']), B(cfg['auto_reload'])]


def wire_root(case):
    root, syn = case['root'], case['files'][0]['syn']
    if root['kind'] == 'direct':
        return [Atom('Direct'), _cap(syn), _cap(root['src']), B(root['own_loader'])]
    if root['kind'] == 'load':
        return [Atom('Load'), _cap(syn), B(root['cls'] == 'default')]
    if root['kind'] == 'plugin-file':
        return [Atom('Pfile'), _cap(root['plugin'])]
    return [Atom('Pstr'), _cap(root['plugin'])]


def chain_of(case):
    """the include chain (parse modes) when the case is a linear chain whose only code block sits,
    unconditionally executed, in the deepest template; else None"""
    if case.get('history'):
        return None
    fm = G.file_map(case)
    chain, cur, seen = [], case['files'][0], set()
    while True:
        if cur['name'] in seen:
            return None
        seen.add(cur['name'])
        incs = G.includes(cur)
        codes = G.code_items(cur)
        if len(incs) > 1:
            return None
        if incs:
            if codes or incs[0][1] not in fm:
                return None
            chain.append(incs[0][2])
            cur = fm[incs[0][1]]
            continue
        if len(codes) != 1 or G.MULT[codes[0][2]] == 0:
            return None
        return chain


def real_verdict(obs):
    if obs['sentinel']:
        return 'exec'
    if obs['outcome'] == 'ConfigurationError':
        return 'none'
    if obs['outcome'] == 'TemplateSyntaxError':
        return 'reject'
    if obs['outcome'] == 'ok':
        return 'inert'
    return 'failed'


def reach_line(case, chain):
    return proto.line(Atom('C14'), Atom('reach'), *(wire_cfg(case['cfg']) + [wire_root(case), [_cap(p) for p in chain]]))


def compare_reach(pairs, res):
    """pairs: (case, obs) of chain cases; model verdict for the deepest template vs what happened"""
    lines, keep = [], []
    for case, obs in pairs:
        ch = chain_of(case)
        if ch is None:
            continue
        lines.append(reach_line(case, ch))
        keep.append((case, obs))
    compare_shape_reach(keep, res)
    for (case, obs), ans in zip(keep, proto.run_lines(lines)):
        res.streams['reach'] = res.streams.get('reach', 0) + 1
        try:
            nodes = proto.dec(ans)
            last = nodes[-1] if isinstance(nodes, list) else nodes
            model = 'none' if last == 'none' else str(last[1])
        except Exception:  # noqa
            model = 'bad-answer:' + ans[:60]
        real = real_verdict(obs)
        res.count('reach-verdict:' + model)
        if model != real:
            res.disagreements.append({'stream': 'reach', 'case': case, 'model': model, 'real': real})


_SHAPE_IDX = {}


def shape_index(syn, place):
    """index of the translator's shape (harness/extract_execshape.py) for a placement"""
    if not _SHAPE_IDX:
        from harness import extract_execshape as S
        for c in G.CLASSES:
            for k, (name, _) in enumerate(S.shapes(c)):
                _SHAPE_IDX[(c, name)] = k
    return _SHAPE_IDX.get((syn, place))


def compare_shape_reach(pairs, res):
    """stream shape-reach: chain cases whose deepest template holds one code block at a placement the
    translator probes; `reachRow` (the generated shape table looked up along the reach path of the
    reachability model) vs what happened: error kind, did the block run, the governing flag"""
    lines, keep = [], []
    for case, obs in pairs:
        ch = chain_of(case)
        last = case['files'][-1] if ch is not None else None
        if ch is None or len(case['files']) != len(ch) + 1:
            continue
        code = G.code_items(last)[0]
        k = shape_index(last['syn'], code[2])
        if k is None or any(it[3] for f in case['files'] for it in G.includes(f)):
            continue
        lines.append(proto.line(Atom('C14'), Atom('reachshape'), *(wire_cfg(case['cfg']) +
                                [wire_root(case), [_cap(p) for p in ch], k])))
        keep.append((case, obs, ch))
    for (case, obs, ch), ans in zip(keep, proto.run_lines(lines)):
        if ans == 'none':
            # the way is probed for the core shapes only, or the option value is a configuration error
            res.count('shape-reach:unprobed-or-config')
            continue
        res.streams['shape-reach'] = res.streams.get('shape-reach', 0) + 1
        try:
            row = proto.dec(ans)
            model = {'cls': str(row[0]), 'err': str(row[1]), 'ran': row[2] == 'T'}
            flag = row[4] == 'T'
        except Exception:  # noqa
            res.disagreements.append({'stream': 'shape-reach', 'case': case, 'model': 'bad-answer:' + ans[:60], 'real': None})
            continue
        real = {'cls': case['files'][-1]['syn'],
                'err': {'ok': 'ok', 'TemplateSyntaxError': 'Syntax'}.get(obs['outcome'], 'other'),
                'ran': bool(obs['sentinel'])}
        g_root, g_inc = governing(case)
        g = g_root if not ch else g_inc
        res.count('shape-reach:depth%d:%s:%s' % (len(ch), 'on' if flag else 'off', model['err']))
        res.count('shape-reach:place:' + G.code_items(case['files'][-1])[0][2])
        if model != real or (g is not None and g != flag):
            res.disagreements.append({'stream': 'shape-reach', 'case': case, 'model': dict(model, flag=flag),
                                      'real': dict(real, flag=g)})


def sk_wire(sk):
    out = []
    for n in sk:
        if n[0] == 'ev':
            out.append(Atom('V'))
        elif n[0] == 'exec':
            out.append(Atom('X'))
        else:
            out.append([Atom('S' if n[0] == 'sub' else 'I')] + sk_wire(n[1]))
    return out


def real_stream_facts(stream):
    """(an EXEC event at any depth, an EXEC event at the top level, depth of the deepest EXEC event) of a
    real template stream — computed on the events themselves, not on the skeleton"""
    from genshi.template.base import EXEC, SUB, INCLUDE
    flat = any(ev[0] is EXEC for ev in stream)

    def depth(st):
        d = 0
        for ev in st or []:
            if ev[0] is EXEC:
                d = max(d, 1)
            elif ev[0] is SUB:
                x = depth(ev[1][1])
                d = max(d, x + 1 if x else 0)
            elif ev[0] is INCLUDE:
                x = depth(ev[1][2])
                d = max(d, x + 1 if x else 0)
        return d
    d = depth(stream)
    return d > 0, flat, d


def compare_skeleton(rng, n, res):
    """stream skeleton: random templates (random placements of code blocks, plain items, several per
    template) are constructed for real with execution allowed, prepared, and the skeleton of their
    stream goes to the model's recursive definitions (`hasExecL`, `flatExec`, `execDepthL`); compared with
    the same facts computed on the real events and with a generic walk of the object graph for Suites"""
    from harness import extract_execshape as S
    classes = _classes()
    lines, keep = [], []
    for _ in range(n):
        syn = rng.choice(['markup', 'markup', 'newtext'])
        places = G.PLACES_MARKUP if syn == 'markup' else G.PLACES_TEXT
        items = []
        for j in range(rng.randrange(0, 5)):
            r = rng.random()
            if r < 0.55:
                items.append(['code', 10 + j, rng.choice(places)])
            elif r < 0.8:
                items.append(['text', 10 + j])
            else:
                items.append(['expr', 10 + j])
        src = G.RENDER[syn](items)
        prepared = rng.random() < 0.7
        try:
            t = classes[syn](src, allow_exec=True)
            stream = list(t.stream) if prepared else list(vars(t)['_stream'])
            tm, suites = S.walk([t])
        except Exception as e:  # noqa
            res.count('skeleton:real-error:' + type(e).__name__)
            continue
        sk = S.skeleton(stream)
        lines.append(proto.line(Atom('C14'), Atom('objskel'), sk_wire(sk)))
        keep.append(({'skeleton': syn, 'items': items, 'prepared': prepared}, real_stream_facts(stream), suites > 0))
    for (case, real, suite), ans in zip(keep, proto.run_lines(lines)):
        res.streams['skeleton'] = res.streams.get('skeleton', 0) + 1
        try:
            m = proto.dec(ans)
            model = [m[0] == 'T', m[1] == 'T', int(m[2])]
        except Exception:  # noqa
            model = 'bad-answer:' + ans[:60]
        res.count('skeleton:depth%d' % real[2])
        if real[0] and not real[1]:
            res.count('skeleton:exec-not-at-top-level')
        if model != list(real) or real[0] != suite:
            res.disagreements.append({'stream': 'skeleton', 'case': case, 'model': model,
                                      'real': {'facts': list(real), 'suite-in-object-graph': suite}})


def render_line(case):
    idx = dict((f['name'], i) for i, f in enumerate(case['files']))
    files = []
    for f in case['files']:
        items = []
        for it in f['items']:
            if it[0] == 'text':
                items.append([Atom('T'), it[1]])
            elif it[0] == 'expr':
                items.append([Atom('E'), it[1]])
            elif it[0] == 'code':
                items.append([Atom('C'), it[1], G.MULT[it[2]]])
            else:
                items.append([Atom('I'), idx[it[1]], _cap(it[2]), B(it[3])])
        files.append([idx[f['name']], _cap(f['syn']), items])
    return proto.line(Atom('C14'), Atom('render'), *(wire_cfg(case['cfg']) + [wire_root(case), files, 0,
                      [idx[n] for n in case.get('history', [])]]))


def _real_err(outcome, errfile, idx):
    if outcome == 'ok':
        return 'ok'
    if outcome == 'TemplateSyntaxError':
        # the file is unknown ('<string>') for templates without a path and for BadDirectiveError
        return ['syntax', idx.get(errfile)]
    if outcome == 'TemplateNotFound':
        return 'notfound'
    if outcome == 'RecursionError':
        return 'diverge'
    if outcome == 'ConfigurationError':
        return 'config'
    return outcome


def _model_err(x):
    if isinstance(x, list):
        if str(x[0]) == 'Syntax':
            return ['syntax', int(x[1])]
        return str(x[0])
    return str(x)


def compare_render(pairs, res):
    """the include-graph model's prediction (error and file, sentinel, output, history) vs the real run"""
    answers = proto.run_lines([render_line(c) for c, _ in pairs])
    for (case, obs), ans in zip(pairs, answers):
        if ans == 'unmodelled':
            res.count('model:unmodelled')
            continue
        res.streams['render'] = res.streams.get('render', 0) + 1
        idx = dict((f['name'], i) for i, f in enumerate(case['files']))
        real_ids = [int(t[1:-1]) for t in obs['out']]
        real = {'err': _real_err(obs['outcome'], obs['errfile'], idx), 'sentinel': list(obs['sentinel']),
                'out': real_ids, 'history': [_real_err(h[0], h[1] if h[0] != 'ok' else None, idx) for h in obs['history']]}
        try:
            m = proto.dec(ans)
            model = {'err': _model_err(m[0]), 'sentinel': [int(x) for x in m[1]], 'out': [int(x) for x in m[2]],
                     'history': [_model_err(h) for h in m[3]]}
        except Exception:  # noqa
            model = {'bad-answer': ans[:200]}
            real = {'real': real}
        def same_err(a, b):
            if isinstance(a, list) and isinstance(b, list) and b[1] is None:
                return a[0] == b[0]
            return a == b
        errs_ok = ('err' in model and same_err(model['err'], real['err'])
                   and len(model['history']) == len(real['history'])
                   and all(same_err(x, y) for x, y in zip(model['history'], real['history'])))
        if model.get('err') == 'diverge' or 'diverge' in model.get('history', []):
            # how far a run gets before the interpreter's recursion limit is not modelled: only the
            # errors are compared, and "the model's sentinel is empty => so is the real one"
            res.count('model:diverge')
            ok = errs_ok and (bool(model['sentinel']) or not real['sentinel'])
        else:
            if model.get('err') != 'ok':
                model['out'] = real['out'] = []
            ok = errs_ok and model['sentinel'] == real['sentinel'] and model['out'] == real['out']
        res.count('render-err:%s' % (model.get('err') if not isinstance(model.get('err'), list) else 'syntax'))
        if not ok:
            res.disagreements.append({'stream': 'render', 'case': case, 'model': json.dumps(model, sort_keys=True),
                                      'real': json.dumps(real, sort_keys=True)})


def compare_lru(pairs, res):
    """the bounded-cache model (`ExecLru`: every load goes through an LRU cache of max_cache_size
    entries, evicted templates are parsed again) against the real loader with that bound: the
    earlier loads and the root load as one history of load-and-render calls — per call the error,
    the output of the last one, the sentinel"""
    sel = [(c, o) for c, o in pairs if c.get('cache') is not None and c['root']['kind'] == 'load'
           and c['cfg'].get('loader') in G.REQS]
    lines = []
    for case, _ in sel:
        idx = dict((f['name'], i) for i, f in enumerate(case['files']))
        fm = G.file_map(case)
        files = proto.dec(render_line(case))[7]
        hist = [[idx[n], _cap(fm[n]['syn'])] for n in case.get('history', [])]
        hist.append([0, _cap(case['files'][0]['syn'])])
        lines.append(proto.line(Atom('C14'), Atom('lruhist'), case['cache'], B(case['cfg']['loader'] != 'off'),
                                B(case['cfg']['auto_reload']), files, hist))
    answers = proto.run_lines(lines)
    for (case, obs), ans in zip(sel, answers):
        if ans == 'unmodelled':
            res.count('model:unmodelled (lru)')
            continue
        res.streams['lru-history'] = res.streams.get('lru-history', 0) + 1
        res.count('lru:cache%d' % case['cache'])
        idx = dict((f['name'], i) for i, f in enumerate(case['files']))
        real_errs = [_real_err(h[0], h[1] if h[0] != 'ok' else None, idx) for h in obs['history']]
        real_errs.append(_real_err(obs['outcome'], obs['errfile'], idx))
        real = {'errs': real_errs, 'sentinel': list(obs['sentinel']),
                'out': [int(t[1:-1]) for t in obs['out']] if obs['outcome'] == 'ok' else []}
        try:
            m = proto.dec(ans)
            model = {'errs': [_model_err(st[0]) for st in m[0]], 'sentinel': [int(x) for x in m[1]],
                     'out': [int(x) for x in m[0][-1][1]] if _model_err(m[0][-1][0]) == 'ok' else []}
        except Exception:  # noqa
            model = {'bad-answer': ans[:200]}

        def same_err(a, b):
            if isinstance(a, list) and isinstance(b, list) and b[1] is None:
                return a[0] == b[0]
            return a == b
        if 'diverge' in model.get('errs', []):
            res.count('model:diverge (lru)')
            ok = (len(model['errs']) == len(real['errs']) and all(same_err(x, y) for x, y in zip(model['errs'], real['errs']))
                  and (bool(model['sentinel']) or not real['sentinel']))
        else:
            ok = ('errs' in model and len(model['errs']) == len(real['errs'])
                  and all(same_err(x, y) for x, y in zip(model['errs'], real['errs']))
                  and model['sentinel'] == real['sentinel'] and model['out'] == real['out'])
        if len(set(case.get('history', []))) + 1 > case['cache']:
            res.count('lru:more names than the bound')
        # the CONTENTS of the cache at the end (keys, most recently used first)
        if ok and obs.get('cache') is not None and 'diverge' not in model.get('errs', []):
            try:
                mc = [[int(e[0]), e[1] == 'T'] for e in m[2]]
            except Exception:  # noqa
                mc = None
            rc = [[idx.get(k[0], -1), bool(k[1])] for k in obs['cache']]
            mode = 'reload' if case['cfg']['auto_reload'] else 'inline'
            if mc == rc:
                res.count('lru-cache:%s:same keys, same order' % mode)
            elif mc is not None and sorted(mc) == sorted(rc):
                res.count('lru-cache:%s:same keys, other order' % mode)
            else:
                res.count('lru-cache:%s:other keys' % mode)
            if mc != rc and case['cfg']['auto_reload']:
                ok = False
                model['cache'], real['cache'] = mc, rc
        if not ok:
            res.disagreements.append({'stream': 'lru-history', 'case': case, 'model': json.dumps(model, sort_keys=True),
                                      'real': json.dumps(real, sort_keys=True)})


def compare_memo(pairs, res):
    """stream memo-history: the bounded-cache model WITH `_prepared` memoisation as state (`ExecMemo`:
    template objects with an identity keep their prepared stream) against the real loader on the same
    histories of load-and-render calls — per call the error, the output of the last call, the sentinel, and
    the CONTENTS of the cache at the end (keys, most recently used first), in inline and in reload mode"""
    sel = [(c, o) for c, o in pairs if c.get('cache') is not None and c['root']['kind'] == 'load'
           and c['cfg'].get('loader') in G.REQS and o.get('cache') is not None]
    lines = []
    for case, _ in sel:
        idx = dict((f['name'], i) for i, f in enumerate(case['files']))
        fm = G.file_map(case)
        files = proto.dec(render_line(case))[7]
        hist = [[idx[n], _cap(fm[n]['syn'])] for n in case.get('history', [])]
        hist.append([0, _cap(case['files'][0]['syn'])])
        lines.append(proto.line(Atom('C14'), Atom('memohist'), case['cache'], B(case['cfg']['loader'] != 'off'),
                                B(case['cfg']['auto_reload']), files, hist))
    for (case, obs), ans in zip(sel, proto.run_lines(lines)):
        if ans == 'unmodelled':
            res.count('model:unmodelled (memo)')
            continue
        idx = dict((f['name'], i) for i, f in enumerate(case['files']))
        real_errs = [_real_err(h[0], h[1] if h[0] != 'ok' else None, idx) for h in obs['history']]
        real_errs.append(_real_err(obs['outcome'], obs['errfile'], idx))
        real = {'errs': real_errs, 'sentinel': list(obs['sentinel']),
                'out': [int(t[1:-1]) for t in obs['out']] if obs['outcome'] == 'ok' else [],
                'cache': [[idx.get(k[0], -1), bool(k[1])] for k in obs['cache']]}
        try:
            m = proto.dec(ans)
            model = {'errs': [_model_err(st[0]) for st in m[0]], 'sentinel': [int(x) for x in m[1]],
                     'out': [int(x) for x in m[0][-1][1]] if _model_err(m[0][-1][0]) == 'ok' else [],
                     'cache': [[int(e[0]), e[1] == 'T'] for e in m[2]]}
            nprep = sum(1 for e in m[2] if e[2] == 'T')
        except Exception:  # noqa
            model, nprep = {'bad-answer': ans[:200]}, 0
        if 'diverge' in model.get('errs', []):
            res.count('model:diverge (memo)')
            continue
        res.streams['memo-history'] = res.streams.get('memo-history', 0) + 1
        mode = 'reload' if case['cfg']['auto_reload'] else 'inline'
        res.count('memo:%s:cache%d' % (mode, case['cache']))
        res.count('memo:prepared objects in the cache at the end: %d' % min(nprep, 3))

        def same_err(a, b):
            if isinstance(a, list) and isinstance(b, list) and b[1] is None:
                return a[0] == b[0]
            return a == b
        ok = ('errs' in model and len(model['errs']) == len(real['errs'])
              and all(same_err(x, y) for x, y in zip(model['errs'], real['errs']))
              and model['sentinel'] == real['sentinel'] and model['out'] == real['out'] and model['cache'] == real['cache'])
        if not ok:
            res.disagreements.append({'stream': 'memo-history', 'case': case, 'model': json.dumps(model, sort_keys=True),
                                      'real': json.dumps(real, sort_keys=True)})


# --------------------------------------------------------------------------
# parse level: MarkupTemplate._parse / NewTextTemplate._parse vs their models

KINDS = {}


def _kinds(stream):
    """the compiled template stream as nested kind names"""
    from genshi.template.base import Template
    from genshi.core import Stream
    names = {Template.EXEC: 'X', Template.EXPR: 'E', Template.INCLUDE: 'I', Stream.TEXT: 'T', Stream.COMMENT: 'C',
             Stream.PI: 'P'}
    out = []
    for kind, data, pos in stream:
        if kind is Template.SUB:
            ds, sub = data
            name = getattr(ds[0], 'tagname', type(ds[0]).__name__) if ds else '?'
            out.append(['S', name, _kinds(sub)])
        elif kind in names:
            out.append(names[kind])
        else:
            out.append(['O', _other(kind)])
    return out


def _other(kind):
    order = ['START', 'END', 'START_NS', 'END_NS', 'DOCTYPE', 'XML_DECL', 'START_CDATA', 'END_CDATA']
    return order.index(str(kind)) if str(kind) in order else 99


def _interp_row(text):
    from genshi.template.interpolation import interpolate
    from genshi.template.base import TemplateSyntaxError
    from genshi.core import Stream
    try:
        evs = list(interpolate(text))
    except TemplateSyntaxError:
        return [text, Atom('Err')]
    return [text, [[Atom('T'), d] if k is Stream.TEXT else [Atom('E'), d.source] for k, d, _ in evs]]


def _compiles(code):
    from genshi.template.eval import Suite
    try:
        Suite(code)
        return True
    except SyntaxError:
        return False


def _real_parse(make):
    from genshi.template.base import TemplateSyntaxError
    try:
        return ['ok', _kinds(make().stream)]
    except TemplateSyntaxError as e:
        if 'Python code blocks not allowed' in str(e):
            return ['err', 'notAllowed']
        if type(e).__name__ == 'BadDirectiveError':
            return ['err', 'badDirective']
        return ['err', 'syntax']


def _model_parse(ans):
    def conv(x):
        if isinstance(x, list):
            if str(x[0]) == 'S':
                return ['S', x[1], [conv(y) for y in (x[2] if isinstance(x[2], list) else [x[2]])]]
            if str(x[0]) == 'O':
                return ['O', int(x[1])]
        return str(x)
    m = proto.dec(ans)
    if str(m[0]) == 'ok':
        body = m[1] if isinstance(m[1], list) else [m[1]]
        return ['ok', [conv(y) for y in body]]
    e = str(m[1])
    return ['err', 'syntax' if e in ('badCode', 'badExpr') else e]


def has_exec(kinds):
    return any(k == 'X' or (isinstance(k, list) and k[0] == 'S' and has_exec(k[2])) for k in kinds)


def compare_parse(rng, n, res):
    """random markup documents and text-template segment lists: the parsers' models vs the real
    parsers under both flags, and the parse-level property on the real code"""
    from genshi.input import XMLParser
    from genshi.core import Stream
    from genshi.template import MarkupTemplate, NewTextTemplate, TemplateLoader
    lines, meta = [], []
    loader = TemplateLoader([os.path.join(SCRATCH, 'nowhere')], auto_reload=True)
    for i in range(n):
        p_code = rng.choice([0.0, 0.1, 0.25])
        if i % 2 == 0:
            src = G.random_markup_doc(rng, p_code)
            evs, interp, good, ncode = [], [], [], 0
            for kind, data, pos in XMLParser(io.StringIO(src)):
                if kind is Stream.TEXT:
                    evs.append([Atom('T'), data])
                    interp.append(_interp_row(data))
                elif kind is Stream.PI:
                    evs.append([Atom('P'), data[0], data[1]])
                    if data[0] == 'python':
                        ncode += 1
                        if _compiles(data[1]):
                            good.append(data[1])
                elif kind is Stream.COMMENT:
                    evs.append([Atom('C'), data])
                else:
                    evs.append([Atom('O'), _other(kind)])
            for flag in (True, False):
                lines.append(proto.line(Atom('C14'), Atom('pmarkup'), B(flag), interp, good, evs))
                meta.append(('markup', src, flag, ncode))
        else:
            segs = G.random_text_segs(rng, p_code)
            src = G.text_source(segs)
            interp, good, ncode = [], [], 0
            wire = []
            for sg in segs:
                if sg[0] == 'T':
                    wire.append([Atom('T'), sg[1]])
                    interp.append(_interp_row(sg[1]))
                elif sg[0] == 'C':
                    wire.append([Atom('C')])
                else:
                    wire.append([Atom('D'), sg[1], sg[2]])
                    if sg[1] == 'include':
                        interp.append(_interp_row(sg[2]))
                    if sg[1] == 'python':
                        ncode += 1
                        if _compiles(sg[2]):
                            good.append(sg[2])
            dirs = [d for d, _ in NewTextTemplate.directives]
            for flag in (True, False):
                lines.append(proto.line(Atom('C14'), Atom('ptext'), B(flag), interp, good, dirs, wire))
                meta.append(('newtext', src, flag, ncode))
    answers = proto.run_lines(lines)
    reals = {}
    for (syn, src, flag, ncode), ans in zip(meta, answers):
        if syn == 'markup':
            real = _real_parse(lambda: MarkupTemplate(src, allow_exec=flag, loader=loader))
        else:
            real = _real_parse(lambda: NewTextTemplate(src, allow_exec=flag, loader=loader))
        reals[(syn, src, flag)] = real
        res.evaluations += 1
        res.streams['parse-' + syn] = res.streams.get('parse-' + syn, 0) + 1
        res.count('parse:%s:%s' % (syn, real[0] if real[0] == 'ok' else real[1]))
        try:
            model = _model_parse(ans)
        except Exception:  # noqa
            model = ['bad-answer', ans[:200]]
        case = {'parse': syn, 'src': src, 'flag': flag}
        if ncode:
            res.nontrivial.add(json.dumps(case, sort_keys=True))
        if model != real:
            res.disagreements.append({'stream': 'parse-' + syn, 'case': case, 'model': json.dumps(model)[:400],
                                      'real': json.dumps(real)[:400]})
        f = parse_oracle(case, real, ncode, reals)
        if f:
            res.failures.append(f)


def parse_oracle(case, real, ncode, reals):
    """the property at parse level, on what the real parser did"""
    def bad(what, expected, observed):
        return {'case': case, 'what': what, 'expected': expected, 'observed': observed}
    if not case['flag']:
        if real[0] == 'ok' and has_exec(real[1]):
            return bad('a template parsed with allow_exec=False holds an EXEC event', 'no EXEC', real[1])
        if ncode and real[0] == 'ok':
            return bad('a template with a code block parsed with allow_exec=False', 'TemplateSyntaxError', 'ok')
        on = reals.get((case['parse'], case['src'], True))
        if not ncode and on is not None and on != real:
            return bad('a source without code blocks parses differently when execution is allowed', on, real)
    return None


def replay_parse(case):
    from genshi.template import MarkupTemplate, NewTextTemplate, TemplateLoader
    loader = TemplateLoader([os.path.join(SCRATCH, 'nowhere')], auto_reload=True)
    cls = MarkupTemplate if case['parse'] == 'markup' else NewTextTemplate
    src = case['src']
    ncode = len(re.findall(r'<\?python\s', src)) if case['parse'] == 'markup' else len(re.findall(r'\{%\s*python\b', src))
    reals = {}
    for flag in (True, False):
        reals[(case['parse'], src, flag)] = _real_parse(lambda: cls(src, allow_exec=flag, loader=loader))
    return parse_oracle(case, reals[(case['parse'], src, bool(case['flag']))], ncode, reals)


def compare_parseopt(res):
    """option parsing of every probed spelling on each plugin class vs parseOpt"""
    from genshi.template.plugin import MarkupTemplateEnginePlugin, TextTemplateEnginePlugin, ConfigurationError
    spell = G.all_spellings()
    answers = proto.run_lines([proto.line(Atom('C14'), Atom('parseopt'), wire_opt(o)) for o in spell])
    for o, ans in zip(spell, answers):
        for cls in (MarkupTemplateEnginePlugin, TextTemplateEnginePlugin):
            options = {} if o[0] == 'absent' else {'genshi.allow_exec': _opt_value(o)}
            try:
                real = 'allow' if cls(options=options).loader.allow_exec else 'deny'
            except ConfigurationError:
                real = 'confError'
            except Exception as e:  # noqa
                real = 'failed:' + type(e).__name__
            res.streams['parseopt'] = res.streams.get('parseopt', 0) + 1
            if ans != real:
                res.disagreements.append({'stream': 'parseopt', 'case': {'opt': o, 'plugin': cls.__name__},
                                          'model': ans, 'real': real})


# --------------------------------------------------------------------------

def key_of(case):
    """distinct non-trivial cases: a code block is reachable and some flag is explicitly set"""
    if code_free(case):
        return None
    cfg = case['cfg']
    if cfg['tmpl'] == 'dflt' and cfg['loader'] == 'dflt' and cfg['opt'] == ['absent']:
        return None
    return json.dumps(case, sort_keys=True)


def corpus_cases():
    """minimised past disagreements (corpus/C14/*.json), run first"""
    import glob
    out = []
    for p in sorted(glob.glob(os.path.join(os.path.dirname(BUILD), 'corpus', 'C14', '*.json'))):
        with open(p) as f:
            c = json.load(f).get('case')
        if valid_case(c):
            out.append(c)
    return out


def shard(arg):
    seed, idx, nshards, nrandom, thorough = arg
    res = Result()
    # chunks of consecutive cases (they share their files) go to the same shard
    cases = [c for i, c in enumerate(G.enumerate_cases(thorough)) if (i // 48) % nshards == idx]
    rng = random.Random('%s/%s/C14' % (seed, idx))
    cases += [G.random_case(rng) for _ in range(nrandom)]
    if not os.environ.get('C14_NO_LRU'):
        cases += [G.random_lru_case(rng) for _ in range(max(20, nrandom // 4))]
    if idx == 0:
        cases = corpus_cases() + cases
    os.makedirs(SCRATCH, exist_ok=True)
    pairs = []
    try:
        for case in cases:
            res.evaluations += 1
            obs, fail = judge(case)
            pairs.append((case, obs))
            res.count('root:' + case['root']['kind'])
            res.count('outcome:' + obs['outcome'])
            res.count('depth:%d' % (len(G.reachable(case)) - 1))
            res.count('executed' if obs['sentinel'] else 'not-executed')
            k = key_of(case)
            if k:
                res.nontrivial.add(k)
            if fail:
                res.failures.append(fail)
        compare_reach(pairs, res)
        compare_render(pairs, res)
        compare_lru(pairs, res)
        compare_memo(pairs, res)
        compare_parse(rng, max(20, nrandom), res)
        compare_skeleton(rng, max(40, nrandom // 2), res)
        if idx == 0:
            compare_parseopt(res)
    finally:
        _drop_scratch()
    res.samples = cases[:2]
    return res


def _drop_scratch():
    """remove this process's scratch directory, and .build/c14 itself once it is empty (other
    checks of this property may be running: nobody else's directory is touched, except those
    of processes that no longer exist)"""
    if Workdir._path:
        shutil.rmtree(Workdir._path, ignore_errors=True)
        Workdir._path = None
    try:
        for d in os.listdir(SCRATCH):
            if d.startswith('w') and d[1:].isdigit():
                try:
                    os.kill(int(d[1:]), 0)
                except OSError:
                    shutil.rmtree(os.path.join(SCRATCH, d), ignore_errors=True)
        os.rmdir(SCRATCH)
    except OSError:
        pass


def run(ctx):
    nsh = 8
    res = Result()
    try:
        for r in pmap('harness.props.c14', 'shard', [(ctx.seed, i, nsh, ctx.n(150, 3000), ctx.thorough) for i in range(nsh)], procs=nsh):
            res.merge(r)
    finally:
        _drop_scratch()
    res.rule = ('exhaustive: 3 classes x every way of bringing the root into existence x flag settings x option '
                'spellings (all letter cases) x include chains of depth <= 3 x code block in the deepest template or '
                'none, plus placements and run-time includes; seeded random include graphs with cycles and '
                'histories; non-trivial = a code block is reachable and some flag is set explicitly')
    res.samples = res.samples[:6]
    return res


def search(ctx, res, broken):
    found = []
    try:
        for d in res.disagreements[:200]:
            f = replay(ctx, d['case'])
            if f:
                found.append(f)
        if found:
            return found
        for r in pmap('harness.props.c14', 'shard', [(ctx.seed + 1000, i, 8, 2000, False) for i in range(8)], procs=8):
            found.extend(r.failures)
    finally:
        _drop_scratch()
    return found


def valid_case(case):
    """is this a well-formed case (the shrinker deletes list elements and characters blindly)"""
    try:
        cfg, root, files = case['cfg'], case['root'], case['files']
        if cfg['tmpl'] not in G.REQS or cfg['loader'] not in G.REQS or not isinstance(cfg['auto_reload'], bool):
            return False
        o = cfg['opt']
        if o[0] not in ('absent', 'bool', 'str', 'int', 'none') or len(o) != (1 if o[0] in ('absent', 'none') else 2):
            return False
        if not files:
            return False
        names = set()
        for f in files:
            if f['syn'] not in G.CLASSES or not re.match(r'^f\d+%s$' % re.escape(G.EXT[f['syn']]), f['name']):
                return False
            names.add(f['name'])
        if len(names) != len(files):
            return False
        fm = G.file_map(case)
        for f in files:
            places = {'markup': G.PLACES_MARKUP, 'newtext': G.PLACES_TEXT, 'oldtext': ['top']}[f['syn']]
            for it in f['items']:
                if it[0] in ('text', 'expr'):
                    if len(it) != 2 or not isinstance(it[1], int):
                        return False
                elif it[0] == 'code':
                    if len(it) != 3 or not isinstance(it[1], int) or it[2] not in places:
                        return False
                elif it[0] == 'incl':
                    if len(it) != 4 or it[1] not in fm or not isinstance(it[3], bool):
                        return False
                    if G.child_syn(f['syn'], it[2]) != fm[it[1]]['syn'] or (it[3] and f['syn'] == 'oldtext'):
                        return False
                else:
                    return False
        syn = files[0]['syn']
        k = root['kind']
        if k == 'direct':
            if root['src'] not in ('str', 'bytes', 'file', 'stream') or not isinstance(root['own_loader'], bool):
                return False
            if root['src'] == 'stream' and syn != 'markup':
                return False
            if not isinstance(root.get('pickle', False), bool) or (root.get('pickle') and case.get('history')):
                return False
        elif k == 'load':
            if root['cls'] not in ('arg', 'default'):
                return False
        elif k in ('plugin-file', 'plugin-string'):
            if {'markup': 'markup', 'text': 'oldtext', 'newtext': 'newtext'}.get(root['plugin']) != syn:
                return False
        else:
            return False
        cache = case.get('cache')
        if cache is not None and not (isinstance(cache, int) and not isinstance(cache, bool) and 0 <= cache <= 50):
            return False
        for n in case.get('history', []):
            # the root's own name among the earlier loads: only in the bounded-cache cases
            if n not in fm or (n == files[0]['name'] and not (cache is not None and k == 'load')):
                return False
        return True
    except Exception:  # noqa
        return False


def replay(ctx, case):
    if isinstance(case, dict) and 'parse' in case:
        if case.get('parse') not in ('markup', 'newtext') or not isinstance(case.get('src'), str):
            return None
        return replay_parse(case)
    if not valid_case(case):
        return None
    os.makedirs(SCRATCH, exist_ok=True)
    try:
        _, f = judge(case)
    finally:
        _drop_scratch()
    return f

"""C09 — serializer caching and whitespace options are unobservable except for whitespace.

Oracles on the real code (never use the model):
  cache     render(cache=True) == render(cache=False), three methods x strip on/off x options
  nocache   with cache=False no event data is ever hashed (the cache argument is honoured)
  history   the output of a suffix S after a cut depends only on S and the markup context of the
            cut (inside CDATA / raw-text element / whitespace-preserving element, prolog already
            written): tail(render(P + [marker] + S)) == tail(render(ctx(P) + [marker] + S))
  strip     norm_ws(render(strip=True)) == norm_ws(render(strip=False)), and the two renders are
            identical once every text outside whitespace-preserving elements is made blank-free
  cache-typed   the same with attribute values that are Markup instances (marked occurrences of a
            stream's attribute values are wrapped in Markup): cache on == cache off on the whole pipeline
  flat-cache    item streams for the NamespaceFlattener (harness/gen_flatcache.py: the identical start tag recurs
            across namespace scope changes - declarations entering / leaving scope, re-bound prefixes, made-up
            default (un)declarations, builder streams without START_NS, Markup / plain twins): the whole serializer,
            cache on == cache off, three methods x strip on/off
Correspondence: `gdrv C09 cflat`: the real NamespaceFlattener(prefixes, cache=True / False) alone on those item
streams against the Lean model of the filter with its cache (`Xml.cflatten`, Model/OutputFlattenCache.lean), typed
values compared with their types; `gdrv C09 flatser` (stream `sert`): that filter followed by the main loop of the method, both with the
same cache flag, against `serT` (Model/OutputFlatPipeline.lean); `gdrv C09 renderfull`: the whole serializer with the full
flattener (`renderFull`, Model/OutputPipelineFull.lean) against the real render, every configuration of the
namespace-heavy profiles and a third of the others; the same renders against the Lean model (`gdrv C09 render`), all configurations;
`gdrv C09 loopm`: the main loops alone (filters removed) on typed events — START / EMPTY data whose
attribute values are Markup or plain — against the Lean model of the repaired loops (`loopT`).
"""
import json
from harness import proto, outlib
from harness import gen_streams as G
from harness import gen_flatcache as F
from harness.framework import Result, pmap
from harness.proto import Atom

PROP = 'C09'
TRUSTED = [
    'modelled, not verified: genshi/output.py EmptyTagFilter, WhitespaceFilter, DocTypeInserter, the three '
    'serializer main loops (hand-written Lean model, tied by differential correspondence on rendered output)',
    'NamespaceFlattener inside `render` is modelled on the lite domain only (no namespaces, or XHTML elements with '
    'prefix ""; xml:* attributes; proved to be the full model restricted); the filter WITH its START/EMPTY cache is '
    'modelled on the full namespace domain (Model/OutputFlattenCache.lean over C02\'s Model/XmlFlatten.lean, '
    'hand-written, tied by the cflat / sert correspondence streams with cache on and off), and `renderFull` '
    '(Model/OutputPipelineFull.lean) is the whole serializer with it, tied by the renderfull stream on the '
    'namespace-heavy profiles',
    'START_NS(prefix, None) with a non-empty prefix is outside the generators (C02\'s model reads an unbound '
    'prefix and the URI None differently from the code; the XML parser never produces it)',
    'not modelled: Python re (the two regular expressions of WhitespaceFilter are list functions in Lean, '
    'compared with re on generated text), dict/tuple hashing and equality of cache keys (modelled as event equality)',
    'C escape() vs escapePy: tied by C18',
]
ASSUMPTIONS = [
    'attribute values and text are str or Markup (values of other types that compare equal but are written '
    'differently, e.g. True and 1, are outside the event vocabulary)',
    'DOCTYPE names are non-empty; doctype option names are known to DocType.get',
    'for the history oracle: raw-text elements contain only text (HTML content model)',
    'streams consist of Unicode scalar values',
]

MARK = 'verif-cut-marker'
MARK_OUT = '<!--%s-->' % MARK

PROFILES = [
    # name, weight, knobs
    ('repeat-ctx', 4, dict(pool=3, cdata=0.15, comments=0.05, max_nodes=16, safe_text=0.1)),
    # few tags, few attributes, two pooled texts: the same TEXT / START / END recurs inside and outside
    # script, pre and CDATA in most streams
    ('dense-repeats', 6, dict(pool=2, pool_prob=0.95, cdata=0.25, max_nodes=22, attr_counts=[0, 0, 0, 1],
                              tags=['div', 'script', 'pre', 'p', 'br', 'style', 'textarea', 'b'])),
    ('ws', 3, dict(pool=3, texts='ws', cdata=0.1, max_nodes=14, safe_text=0.15)),
    ('xhtml-ns', 2, dict(ns='xhtml', root=True, pool=3, cdata=0.1, max_nodes=14)),
    ('xhtml-ns-events', 1, dict(ns='xhtml', root=True, ns_events=True, pool=3, cdata=0.1, max_nodes=12)),
    ('prolog', 2, dict(pool=3, prolog=0.7, pis=0.05, comments=0.05, max_nodes=10)),
    # several URIs / prefixes / START_NS events: switched on after the NamespaceFlattener repair (fix 86aac1c);
    # the flatten-lite model answers `unmodelled`, the cache on/off and strip on/off oracles judge the real code
    ('ns-heavy', 2, dict(ns='heavy', allow_heavy=True, root=True, ns_events=True, pool=3, cdata=0.1, max_nodes=14)),
    # the same without START_NS/END_NS events (builder streams): the flattener makes the declarations up itself;
    # few tags and attributes so that the identical start tag recurs under different made-up bindings (seeded C09-3)
    ('ns-heavy-builder', 2, dict(ns='heavy', allow_heavy=True, root=True, ns_events=False, pool=2, max_nodes=16,
                                 attr_counts=[0, 0, 0, 1], tags=['div', 'p', 'b', 'item'])),
    # few tags, few attribute names, two pooled values; a random third of the attribute values is wrapped in
    # Markup (oracle cache-typed, correspondence loopm): the same start tag recurs with the same value text
    # once as Markup and once as plain string (fixed C09-markup-attr)
    ('typed-attrs', 2, dict(pool=2, max_nodes=12, attr_counts=[0, 1, 1, 2], pool_prob=0.9,
                            tags=['div', 'p', 'a', 'br', 'script', 'input'])),
    ('odd', 1, dict(pool=3, raw_markup=True, void_kids=True, cdata=0.15, comments=0.1, pis=0.05, max_nodes=12,
                    safe_text=0.1, comment_dashes=True, attr_ws=True, text_cr=True)),
]
DOCTYPE_OPTS = [None, None, None, ['name', 'html'], ['name', 'xhtml-strict'], ['name', 'HTML5'],
                ['tuple', 'html', None, 'about:legacy-compat'], ['tuple', 'x"<y', 'p&ub', None],
                ['tuple', 'html', None, 'sys"tem.dtd']]


def pick_profile(rng):
    tot = sum(w for _, w, _ in PROFILES)
    r = rng.random() * tot
    for name, w, kn in PROFILES:
        r -= w
        if r <= 0:
            return name, kn
    return PROFILES[-1][0], PROFILES[-1][2]


# --------------------------------------------------------------------------
# the property's own notion of context (HTML content model; independent of genshi)

def is_xhtml(q):
    return q[0] == G.XHTML


def preserve_here(ev, method):
    """does this START open whitespace-preserving content (pre/textarea for the HTML methods,
    xml:space="preserve" for all)"""
    for a, v in ev[2]:
        if a == [G.XMLNS, 'space']:
            if v == 'preserve':
                return True
            break
    return method != 'xml' and ev[1][1] in G.PRESERVE and ev[1][0] in ('', G.XHTML)


def first_ns_start_recurs(js):
    """#38 class: the first XHTML-namespaced element (which receives the pending xmlns
    declaration) occurs again with the same attributes (as START resp. as empty element)"""
    first = None
    for i, e in enumerate(js):
        if e[0] == 'S' and is_xhtml(e[1]):
            empty = i + 1 < len(js) and js[i + 1][0] == 'E'
            key = (empty, json.dumps(e, sort_keys=True))
            if first is None:
                first = key
            elif key == first:
                return True
    return False


def context_prefix(P, method):
    """canonical stream that puts a serializer into the markup context P leaves it in: the open
    elements by name only (no attributes but xml:space, no closed content, no earlier siblings),
    the namespace declarations they carry, an open CDATA section, and the prolog events already
    written (a later DOCTYPE / XML declaration is suppressed)"""
    stack, in_cdata, dt, xd, pend = [], False, None, None, None
    for e in P:
        k = e[0]
        if k == 'S':
            stack.append((e, pend))
            pend = None
        elif k == 'E':
            if stack:
                stack.pop()
        elif k == 'SC':
            in_cdata = True
        elif k == 'EC':
            in_cdata = False
        elif k == 'DT':
            dt = dt or e
        elif k == 'XD':
            xd = xd or e
        elif k == 'NS':
            pend = e
        elif k == 'ENS':
            pend = None
    C = []
    if xd:
        C.append(xd)
    if dt:
        C.append(dt)
    for e, ns in stack:
        if ns:
            C.append(ns)
        C.append(['S', e[1], [[a, v] for a, v in e[2] if a == [G.XMLNS, 'space']]])
    if pend:
        C.append(pend)
    if in_cdata:
        C.append(['SC'])
    return C


def blank_free_outside_preserve(js, method):
    """the stream with every blank and line feed removed from text outside whitespace-preserving elements"""
    out, stack = [], []
    for e in js:
        if e[0] == 'S':
            stack.append(bool(stack and stack[-1]) or preserve_here(e, method))
        elif e[0] == 'E':
            if stack:
                stack.pop()
        if e[0] == 'T' and not (stack and stack[-1]):
            e = ['T', ''.join(c for c in e[1] if c not in ' \t\n'), e[2]]
        out.append(e)
    return out


def tail(text):
    if not isinstance(text, str):
        return text
    i = text.find(MARK_OUT)
    return text[i + len(MARK_OUT):] if i >= 0 else ('no-marker', text[:80])


class CountHash(str):
    count = 0

    def __hash__(self):
        CountHash.count += 1
        return str.__hash__(self)

    def __eq__(self, other):
        return str.__eq__(self, other)


# --------------------------------------------------------------------------
# oracle on one canonical case; returns a failure dict or None

def cfg_of(case, **over):
    c = outlib.config(case['method'], case.get('strip', True), case.get('cache', True), case.get('doctype'),
                      case.get('drop_xml_decl', True))
    c.update(over)
    return c


def oracle_case(case):
    kind = case['kind']
    js = case.get('stream')

    def bad(what, expected, observed):
        return {'case': case, 'what': what, 'expected': expected, 'observed': observed}

    if kind == 'cache':
        on = outlib.render(js, cfg_of(case, cache=True))
        off = outlib.render(js, cfg_of(case, cache=False))
        if on != off:
            return bad('output with the event cache enabled equals output with it disabled', off, on)
    elif kind == 'nocache':
        from genshi.core import TEXT
        ev = [(TEXT, CountHash(t), (None, -1, -1)) for t in case['texts']]
        CountHash.count = 0
        ''.join(outlib.serializer(cfg_of(case, cache=False))(iter(ev)))
        n_off = CountHash.count
        CountHash.count = 0
        ''.join(outlib.serializer(cfg_of(case, cache=True))(iter(ev)))
        n_on = CountHash.count
        if n_off != 0:
            return bad('cache=False: no event is looked up in or stored into a cache', 0, n_off)
        if case['texts'] and n_on == 0:
            return bad('cache=True: events are looked up (the check can tell the two settings apart)', '>0', n_on)
    elif kind == 'history':
        i = case['cut']
        P, S = js[:i], js[i:]
        M = [['C', MARK]]
        full = tail(outlib.render(P + M + S, cfg_of(case)))
        C = context_prefix(P, case['method'])
        alone = tail(outlib.render(C + M + S, cfg_of(case)))
        if full != alone:
            return bad('serialisation of the events after the cut depends only on them and their markup context '
                       '(canonical context prefix %s)' % json.dumps(C), alone, full)
    elif kind == 'strip':
        on = outlib.render(js, cfg_of(case, strip=True))
        off = outlib.render(js, cfg_of(case, strip=False))
        if isinstance(on, str) and isinstance(off, str):
            if outlib.norm_ws(on) != outlib.norm_ws(off):
                return bad('strip_whitespace changes only trailing blanks before line breaks and runs of line breaks',
                           outlib.norm_ws(off), outlib.norm_ws(on))
        elif on != off:
            return bad('strip on/off: same outcome', off, on)
        js2 = blank_free_outside_preserve(js, case['method'])
        on2 = outlib.render(js2, cfg_of(case, strip=True))
        off2 = outlib.render(js2, cfg_of(case, strip=False))
        if on2 != off2:
            return bad('strip_whitespace changes nothing inside whitespace-preserving elements '
                       '(text outside them made blank-free)', off2, on2)
    elif kind == 'render':
        # plain expected-output case (used by findings whose defect is not a with/without comparison)
        out = outlib.render(js, cfg_of(case))
        if out != case['expect']:
            return bad(case.get('what', 'documented output'), case['expect'], out)
    elif kind == 'cache-typed':
        on = render_typed(js, case['marks'], cfg_of(case, cache=True))
        off = render_typed(js, case['marks'], cfg_of(case, cache=False))
        if on != off:
            return bad('output with the event cache enabled equals output with it disabled (Markup attribute values)',
                       off, on)
    elif kind == 'flat-cache':
        on = render_items(case['items'], cfg_of(case, cache=True))
        off = render_items(case['items'], cfg_of(case, cache=False))
        if on != off:
            return bad('output with the event cache enabled equals output with it disabled (namespace scopes)',
                       off, on)
    elif kind == 'markup-attr':
        # a Markup-typed attribute value and the equal plain string in one stream
        from genshi.core import START, END, TEXT, QName, Attrs, Markup
        P = (None, -1, -1)
        v = case['value']
        ev = [(START, (QName('a'), Attrs([(QName('t'), Markup(v))])), P), (TEXT, 'q', P), (END, QName('a'), P),
              (START, (QName('a'), Attrs([(QName('t'), v)])), P), (TEXT, 'q', P), (END, QName('a'), P)]
        outs = {}
        for c in (True, False):
            outs[c] = ''.join(outlib.serializer(cfg_of(case, cache=c))(iter(ev)))
        if outs[True] != outs[False]:
            return bad('cache on == cache off (Markup-typed and plain attribute value)', outs[False], outs[True])
    else:
        raise ValueError(kind)
    return None


# --------------------------------------------------------------------------
# the flattener's cache under namespace scope changes

def render_items(items, cfg):
    """the whole serializer on an item stream (EMPTY written as START, END)"""
    try:
        return ''.join(outlib.serializer(cfg)(iter(F.to_events(items, expand_empty=True))))
    except Exception as e:  # noqa
        return ('err', type(e).__name__)


def sert_real(items, pref, method, cache, dropd):
    """the real serializer behind EmptyTagFilter: NamespaceFlattener(prefixes, cache) + the main loop"""
    from genshi.output import NamespaceFlattener
    ser = outlib.serializer(outlib.config(method, False, cache, None, dropd))
    ser.filters = [NamespaceFlattener(prefixes=pref, cache=cache)]
    try:
        return ''.join(ser(iter(F.to_events(items))))
    except Exception as e:  # noqa
        return ('err', type(e).__name__)


def sert_line(items, pref, method, cache, dropd):
    d = {F.XML_NS: 'xml'}
    d.update(pref or {})
    return proto.line(Atom('C09'), Atom('flatser'), Atom(method), outlib.B(cache), outlib.B(dropd),
                      sorted([u, p] for u, p in d.items()), F.to_wire(items))


def flat_cache_part(rng, n, res):
    """n item streams: oracle flat-cache on the whole serializer, correspondence cflat on the filter alone"""
    lines, meta = [], []
    slines, smeta = [], []
    for _ in range(n):
        items, pref, shape = F.gen_items(rng)
        res.count('cflat:shape:' + shape)
        res.count('cflat:items', len(items))
        for m in outlib.METHODS:
            for strip in ((True, False) if rng.random() < 0.3 else (False,)):
                c = {'kind': 'flat-cache', 'items': items, 'method': m, 'strip': strip}
                res.evaluations += 1
                res.count('oracle:flat-cache')
                f = oracle_case(c)
                if f:
                    res.failures.append(f)
        for cache in (True, False):
            lines.append(F.model_line(items, pref, cache))
            meta.append((items, pref, cache, shape))
        if any(it[0] == 'NS' and it[2] is None for it in items):
            # the URI None is written by escape(None) = ''; the model carries the reserved string U+0000
            res.count('sert:skipped-none-uri')
        else:
            m = rng.choice(outlib.METHODS)
            dropd = rng.random() < 0.7
            for cache in (True, False):
                slines.append(sert_line(items, pref, m, cache, dropd))
                smeta.append((items, pref, m, cache, dropd))
    for (items, pref, m, cache, dropd), ans in zip(smeta, proto.run_lines(slines)):
        model = outlib.model_answer(ans)
        real = sert_real(items, pref, m, cache, dropd)
        res.streams['sert'] = res.streams.get('sert', 0) + 1
        res.evaluations += 1
        if model != real:
            res.disagreements.append({'stream': 'sert', 'case': {'kind': 'flat-cache', 'items': items, 'prefixes': pref,
                                                                  'cache': cache, 'method': m, 'strip': False},
                                      'model': repr(model)[:600], 'real': repr(real)[:600]})
    for (items, pref, cache, shape), ans in zip(meta, proto.run_lines(lines)):
        ans = proto.dec(ans)
        model = F.model_json(ans[0])
        real = F.real_flatten(items, pref, cache)
        res.streams['cflat'] = res.streams.get('cflat', 0) + 1
        res.evaluations += 1
        if cache:
            hits, stores = int(ans[1]), int(ans[2])
            res.count('cflat:model-cache-hits', hits)
            res.count('cflat:model-cache-stores', stores)
            if hits:
                res.count('cflat:streams-with-hit')
            feats = F.features(items, real)
            for k in sorted(feats):
                res.count('cflat:' + k)
            if hits and 'same-tag-flattened-differently' in feats:
                res.count('cflat:hit-and-same-tag-flattened-differently')
                res.nontrivial.add(json.dumps(items, sort_keys=True)[:300])
        if model != real:
            res.disagreements.append({'stream': 'cflat', 'case': {'kind': 'flat-cache', 'items': items, 'prefixes': pref,
                                                                   'cache': cache, 'method': 'xml', 'strip': False},
                                      'model': repr(model)[:600], 'real': repr(real)[:600]})


# --------------------------------------------------------------------------
# attribute values that are Markup instances

def typed_events(js, marks):
    """genshi events of the stream with the attribute values at `marks` ([event index, attribute index])
    wrapped in Markup"""
    from genshi.core import Markup, Attrs
    evs = G.to_events(js)
    for i, j in marks:
        kind, (tag, attrs), pos = evs[i]
        attrs = list(attrs)
        attrs[j] = (attrs[j][0], Markup(attrs[j][1]))
        evs[i] = (kind, (tag, Attrs(attrs)), pos)
    return evs


def render_typed(js, marks, cfg):
    try:
        return ''.join(outlib.serializer(cfg)(iter(typed_events(js, marks))))
    except Exception as e:  # noqa
        return ('err', type(e).__name__)


def valid_marks(js, marks):
    return isinstance(marks, list) and all(
        isinstance(m, list) and len(m) == 2 and isinstance(m[0], int) and isinstance(m[1], int) and
        0 <= m[0] < len(js) and js[m[0]][0] == 'S' and 0 <= m[1] < len(js[m[0]][2]) for m in marks)


def typed_items(js, marks):
    """what reaches the main loop for a namespace-free stream with strip off: EmptyTagFilter applied, names
    flattened.  Items: ['TAG', empty, name, [[attr, value, is_markup], ...]] or a JSON-form event"""
    items, i = [], 0
    marks = set(map(tuple, marks))
    while i < len(js):
        e = js[i]
        if e[0] == 'S':
            empty = i + 1 < len(js) and js[i + 1][0] == 'E'
            attrs = [[a[1] if not a[0] else 'xml:' + a[1], v, (i, j) in marks] for j, (a, v) in enumerate(e[2])]
            items.append(['TAG', empty, e[1][1], attrs])
            i += 2 if empty else 1
        else:
            items.append(e)
            i += 1
    return items


def loop_real(items, method, cache, dropd):
    """the real main loop alone (the filters removed) on typed items"""
    from genshi import output
    from genshi.core import START, Markup, Attrs
    pos = (None, -1, -1)
    evs = []
    for it in items:
        if it[0] == 'TAG':
            evs.append((output.EMPTY if it[1] else START,
                        (it[2], Attrs([(a, Markup(v) if f else v) for a, v, f in it[3]])), pos))
        elif it[0] == 'E':
            evs.append((G.to_events([it])[0][0], it[1][1], pos))
        else:
            evs.append(G.to_events([it])[0])
    ser = outlib.serializer(outlib.config(method, False, cache, None, dropd))
    ser.filters = []
    try:
        return ''.join(ser(iter(evs)))
    except Exception as e:  # noqa
        return ('err', type(e).__name__)


def loopm_line(items, method, cache, dropd):
    wire = []
    for it in items:
        if it[0] == 'TAG':
            wire.append([Atom('TAG'), outlib.B(it[1]), it[2], [[a, v, outlib.B(f)] for a, v, f in it[3]]])
        else:
            wire.append(G.to_wire([it])[0])
    return proto.line(Atom('C09'), Atom('loopm'), Atom(method), outlib.B(cache), outlib.B(dropd), wire)


# --------------------------------------------------------------------------
# generation

def stream_features(js):
    """which contexts each repeated text occurs in (for the non-triviality rule and the evidence)"""
    ctxs, stack, cd = {}, [], False
    starts = {}
    for e in js:
        if e[0] == 'S':
            stack.append(e[1][1])
            k = json.dumps(e)
            starts[k] = starts.get(k, 0) + 1
        elif e[0] == 'E':
            if stack:
                stack.pop()
        elif e[0] == 'SC':
            cd = True
        elif e[0] == 'EC':
            cd = False
        elif e[0] == 'T' and not e[2]:
            c = ('cdata' if cd else '') + ('raw' if stack and stack[-1] in G.RAWTEXT else '') + \
                ('pre' if any(t in G.PRESERVE for t in stack) else '')
            ctxs.setdefault(e[1], set()).add(c or 'plain')
    multi = sum(1 for t, c in ctxs.items() if len(c) > 1 and any(ch in t for ch in '&<>'))
    rep = sum(1 for k, n in starts.items() if n > 1)
    return multi, rep


def cases_for_stream(rng, js, profile, thorough):
    """the oracle cases evaluated for one generated stream"""
    cases = []
    recurs = first_ns_start_recurs(js)
    dt = rng.choice(DOCTYPE_OPTS)
    dropd = rng.random() < 0.7
    for m in outlib.METHODS:
        for strip in (True, False):
            if True:
                cases.append({'kind': 'cache', 'stream': js, 'method': m, 'strip': strip, 'doctype': dt,
                              'drop_xml_decl': dropd})
        cases.append({'kind': 'strip', 'stream': js, 'method': m, 'cache': rng.random() < 0.5, 'doctype': dt,
                      'drop_xml_decl': dropd})
    if profile != 'odd' and js:
        ncut = 3 if thorough else 2
        for _ in range(ncut):
            m = rng.choice(outlib.METHODS)
            i = rng.randrange(0, len(js) + 1)
            cases.append({'kind': 'history', 'stream': js, 'cut': i, 'method': m, 'strip': rng.random() < 0.5,
                          'cache': rng.random() < 0.8, 'drop_xml_decl': dropd})
    return cases, dt, dropd


def corr_configs(dt, dropd):
    out = []
    for m in outlib.METHODS:
        for strip in (True, False):
            for cache in (True, False):
                out.append(outlib.config(m, strip, cache, None, dropd))
        out.append(outlib.config(m, True, True, dt, dropd))
        out.append(outlib.config(m, False, True, dt, not dropd))
    return out


def shard(arg):
    import random
    seed, idx, n, thorough = arg
    rng = random.Random('%s/%s/C09' % (seed, idx))
    res = Result()
    lines, meta = [], []
    flines, fidx = [], []
    tlines, tmeta = [], []
    for _ in range(n):
        profile, knobs = pick_profile(rng)
        js = G.gen_stream(rng, **knobs)
        res.count('profile:' + profile)
        res.count('events', len(js))
        if profile == 'typed-attrs':
            # make the collision likely: one start tag with attributes occurs a second time (as an empty element
            # at the end of the stream) with the same value text, Markup in exactly one of the two places
            cands = [i for i, e in enumerate(js) if e[0] == 'S' and e[2] and e[2][0][0][0] == '']
            twin = None
            if cands and rng.random() < 0.8:
                i = rng.choice(cands)
                if rng.random() < 0.7:
                    js[i][2][0][1] = rng.choice(['x&y', 'a<b', '"q"', '&amp;', '1 > 0'])
                e = json.loads(json.dumps(js[i]))
                js = js + [e, ['E', e[1]]]
                twin = ([i, 0], [len(js) - 2, 0])
            slots = [[i, j] for i, e in enumerate(js) if e[0] == 'S' for j in range(len(e[2]))]
            marks = [sl for sl in slots if rng.random() < 0.35]
            if twin:
                marks = [m for m in marks if m not in twin] + [twin[rng.randrange(2)]]
                marks.sort()
                res.count('typed:same-start-tag-markup-and-plain')
                res.nontrivial.add(json.dumps([js, marks], sort_keys=True)[:300])
            for m in outlib.METHODS:
                for strip in (True, False):
                    c = {'kind': 'cache-typed', 'stream': js, 'marks': marks, 'method': m, 'strip': strip}
                    res.evaluations += 1
                    res.count('oracle:cache-typed')
                    f = oracle_case(c)
                    if f:
                        res.failures.append(f)
            if G.lean_char_ok(js):
                items = typed_items(js, marks)
                dropd = rng.random() < 0.7
                for m in outlib.METHODS:
                    for cache in (True, False):
                        tlines.append(loopm_line(items, m, cache, dropd))
                        tmeta.append((items, m, cache, dropd, js, marks))
        multi, rep = stream_features(js)
        if multi:
            res.count('streams-with-text-in-several-contexts')
        if rep:
            res.count('streams-with-repeated-start')
        if multi or rep:
            res.nontrivial.add(json.dumps(js, sort_keys=True)[:300])
        cases, dt, dropd = cases_for_stream(rng, js, profile, thorough)
        for c in cases:
            res.evaluations += 1
            res.count('oracle:' + c['kind'])
            f = oracle_case(c)
            if f:
                res.failures.append(f)
        if not G.lean_char_ok(js):
            res.count('skipped-model:surrogates')
            continue
        for cfg in corr_configs(dt, dropd):
            lines.append(outlib.model_render_line(js, cfg))
            meta.append((js, cfg))
            # the whole serializer with the FULL flattener (renderFull): every configuration of the namespace-heavy
            # profiles (where `render` answers unmodelled), every third one elsewhere
            if profile.startswith('ns-heavy') or profile.startswith('xhtml-ns') or len(lines) % 3 == 0:
                flines.append(lines[-1].replace('C09 render ', 'C09 renderfull ', 1))
                fidx.append(len(lines) - 1)
        if len(res.samples) < 2:
            res.samples.append({'stream': js, 'profile': profile})
    flat_cache_part(rng, max(1, n // 3), res)
    # regex model against Python's re
    ws_texts = [G.rand_text(rng, 'ws', 14) for _ in range(n)]
    ws_lines = [proto.line(Atom('C09'), Atom('wsnorm'), t) for t in ws_texts]
    for (items, m, cache, dropd, js, marks), ans in zip(tmeta, proto.run_lines(tlines)):
        model = outlib.model_answer(ans)
        if model is None:
            res.count('model:unmodelled:loopm')
            continue
        real = loop_real(items, m, cache, dropd)
        res.streams['loopm'] = res.streams.get('loopm', 0) + 1
        res.evaluations += 1
        if model != real:
            res.disagreements.append({'stream': 'loopm', 'case': {'kind': 'cache-typed', 'stream': js, 'marks': marks,
                                                                   'method': m, 'strip': False},
                                      'model': repr(model)[:600], 'real': repr(real)[:600]})
    answers = proto.run_lines(lines + ws_lines)
    reals = {}

    def real_of(i):
        if i not in reals:
            reals[i] = outlib.render(meta[i][0], meta[i][1])
        return reals[i]
    for i, ans in zip(fidx, proto.run_lines(flines)):
        js, cfg = meta[i]
        model = outlib.model_answer(ans)
        if model is None:
            res.count('model:unmodelled:renderfull')
            continue
        res.streams['renderfull'] = res.streams.get('renderfull', 0) + 1
        res.evaluations += 1
        if answers[i] == 'unmodelled':
            res.count('renderfull:outside-the-lite-domain')
        if model != real_of(i):
            res.disagreements.append({'stream': 'renderfull', 'case': {'kind': 'render', 'stream': js, **cfg_case(cfg)},
                                      'model': repr(model)[:600], 'real': repr(real_of(i))[:600]})
    for i, ((js, cfg), ans) in enumerate(zip(meta, answers[:len(lines)])):
        model = outlib.model_answer(ans)
        if model is None:
            res.count('model:unmodelled')
            continue
        real = real_of(i)
        res.streams['render'] = res.streams.get('render', 0) + 1
        res.evaluations += 1
        if model != real:
            res.disagreements.append({'stream': 'render', 'case': {'kind': 'render', 'stream': js, **cfg_case(cfg)},
                                      'model': repr(model)[:600], 'real': repr(real)[:600]})
    for t, ans in zip(ws_texts, answers[len(lines):]):
        res.streams['wsnorm'] = res.streams.get('wsnorm', 0) + 1
        if proto.dec(ans) != outlib.norm_ws(t):
            res.disagreements.append({'stream': 'wsnorm', 'case': {'text': t}, 'model': repr(proto.dec(ans)),
                                      'real': repr(outlib.norm_ws(t))})
    return res


def cfg_case(cfg):
    return {'method': cfg['method'], 'strip': cfg['strip'], 'cache': cfg['cache'], 'doctype': cfg['doctype'],
            'drop_xml_decl': cfg['drop_xml_decl']}


def fixed_cases():
    """hand-made cases run on every check: the confirmed defects (now repaired) and corner cases"""
    X = G.XHTML
    out = []
    for m in outlib.METHODS:
        out.append({'kind': 'nocache', 'method': m, 'strip': False, 'texts': ['a', 'b', 'a']})
        out.append({'kind': 'cache', 'method': m, 'strip': False, 'stream': [
            ['S', ['', 'div'], []], ['SC'], ['T', 'a<b', False], ['EC'], ['S', ['', 'p'], []], ['T', 'a<b', False],
            ['E', ['', 'p']], ['SC'], ['T', 'a<b', False], ['EC'], ['E', ['', 'div']]]})
        out.append({'kind': 'markup-attr', 'method': m, 'strip': False, 'value': 'x&y'})
        out.append({'kind': 'cache-typed', 'method': m, 'strip': True, 'marks': [[3, 0]], 'stream': [
            ['S', ['', 'a'], [[['', 't'], 'x&y']]], ['T', 'q', False], ['E', ['', 'a']],
            ['S', ['', 'a'], [[['', 't'], 'x&y']]], ['T', 'q', False], ['E', ['', 'a']]]})
    # the flattener's cache across namespace scopes (seeded C08-4 / C09-3 shapes; DESIGN #38)
    tw = ['TAG', False, ['u1', 'a'], [[['', 'x'], 'x&y', False]]]
    twm = ['TAG', False, ['u1', 'a'], [[['', 'x'], 'x&y', True]]]
    for m in outlib.METHODS:
        out.append({'kind': 'flat-cache', 'method': m, 'strip': False, 'items': [
            tw, tw, ['E', ['u1', 'a']], ['E', ['u1', 'a']], tw, ['E', ['u1', 'a']]]})
        out.append({'kind': 'flat-cache', 'method': m, 'strip': False, 'items': [
            ['NS', 'p', 'u1'], tw, tw, ['NS', 'p', 'u2'], ['TAG', False, ['u2', 'b'], []], tw, ['E', ['u1', 'a']],
            ['E', ['u2', 'b']], ['ENS', 'p'], tw, ['E', ['u1', 'a']], ['E', ['u1', 'a']], ['E', ['u1', 'a']],
            ['ENS', 'p'], tw, ['E', ['u1', 'a']]]})
        out.append({'kind': 'flat-cache', 'method': m, 'strip': False, 'items': [
            ['NS', '', 'u1'], tw, twm, ['E', ['u1', 'a']], tw, ['E', ['u1', 'a']], ['E', ['u1', 'a']], ['ENS', '']]})
    return out


def run(ctx):
    nsh = 16
    per = ctx.n(800, 9000)
    res = Result()
    for c in fixed_cases():
        res.evaluations += 1
        f = oracle_case(c)
        if f:
            res.failures.append(f)
    args = [(ctx.seed, i, per, ctx.thorough) for i in range(nsh)]
    for r in pmap('harness.props.c09', 'shard', args):
        res.merge(r)
    res.rule = ('seeded well-nested streams over the HTML vocabulary drawn from small text/attribute pools so that the same '
                'TEXT/START/END recurs inside and outside CDATA, script/style, pre/textarea and xml:space=preserve; '
                'non-trivial = a text containing & < > occurs in two different contexts, or a START event is repeated; '
                'distinct by canonical JSON of the stream; item streams for the NamespaceFlattener (gen_flatcache) count '
                'when the modelled cache served a start tag AND the same start tag is flattened in two different '
                'ways within the stream')
    res.samples = res.samples[:4]
    return res


def search(ctx, res, broken):
    found = []
    for d in res.disagreements[:100]:
        c = d.get('case') or {}
        if c.get('kind') == 'flat-cache':
            for m in outlib.METHODS:
                for strip in (True, False):
                    f = oracle_case({'kind': 'flat-cache', 'items': c['items'], 'method': m, 'strip': strip})
                    if f:
                        found.append(f)
            if found:
                return found
            continue
        if 'stream' not in c:
            continue
        js = c['stream']
        if c.get('kind') == 'cache-typed':
            for m in outlib.METHODS:
                for strip in (True, False):
                    f = oracle_case(dict(c, method=m, strip=strip))
                    if f:
                        found.append(f)
            if found:
                return found
            continue
        for m in outlib.METHODS:
            for k in ({'kind': 'cache', 'strip': False}, {'kind': 'cache', 'strip': True}, {'kind': 'strip', 'cache': True}):
                case = dict(k, stream=js, method=m, doctype=c.get('doctype'), drop_xml_decl=c.get('drop_xml_decl', True))
                f = oracle_case(case)
                if f:
                    found.append(f)
            for i in range(len(js) + 1):
                case = {'kind': 'history', 'stream': js, 'cut': i, 'method': m, 'strip': c.get('strip', False),
                        'cache': True, 'drop_xml_decl': c.get('drop_xml_decl', True)}
                f = oracle_case(case)
                if f:
                    found.append(f)
        if found:
            return found
    for c in fixed_cases():
        f = oracle_case(c)
        if f:
            found.append(f)
    if found:
        return found
    args = [(ctx.seed + 1000 + i, i, 150, True) for i in range(16)]
    for r in pmap('harness.props.c09', 'shard', args):
        found.extend(r.failures)
    return found


def replay(ctx, case):
    if not outlib.valid_config(case):
        return None
    if 'stream' in case and not G.valid_stream(case['stream']):
        return None
    if case.get('kind') == 'flat-cache' and not F.valid_items(case.get('items')):
        return None
    if case.get('kind') == 'cache-typed' and not valid_marks(case.get('stream') or [], case.get('marks')):
        return None
    if case.get('kind') == 'history' and not (isinstance(case.get('cut'), int) and 0 <= case['cut'] <= len(case['stream'])):
        return None
    return oracle_case(case)

"""C17 — equivalent path spellings match identically; all matcher strategies agree.

Oracle on the real code (per event, both modes, both caller behaviours):
  * every strategy that supports a location path reports what GenericStrategy reports;
  * `./p` and `p`, a step with and without an always-true predicate (`[true()]`, `[1=1]`,
    `[not(false())]`), report the same;
  * `Path(p1|p2|…).test()` reports, event by event, the first non-None result of its operands.

Correspondence: the per-event results of each real strategy vs gdrv `C17 trace`, the `supports`
verdicts and the strategy chosen by Path.__init__ vs `C17 can`, SimplePathStrategy's fragments
and KMP tables vs `C17 frags`, and "is the path in the scope of simple_eq_generic_fragments_partial"
(`C17 inscope`: FragsOk of its fragment list, the path is the path of that list) and of
simple_eq_generic_spellings_partial (every step supported, none on the attribute axis) vs the same
read off the real parsed path (supported, fragments not None, no attribute step, no `self::` step
after the first / supported, no attribute step).  Every strategy class is forced on every path it `supports` (not only the one
Path.__init__ picks).  `dist` counts how many SimplePathStrategy paths have >= 2 fragments, failure
tables with a non-zero entry, and documents on which the KMP loop actually falls back to a
non-zero table entry.

A case is {"doc": tree, "path": text, "kind": "strategies" | "selfprefix" | "truepred" | "union"}.
"""
from harness import proto, evwire
from harness import gen_paths as G
from harness.framework import Result, pmap
from harness.proto import Atom, B, N
from harness.props import c05

PROP = 'C17'
TRUSTED = [
    'modelled, not verified: SingleStepStrategy, SimplePathStrategy, GenericStrategy, Path.__init__/test of '
    'genshi/path.py as Genshi/Model/PathStrategy.lean, tied by per-event differential correspondence',
    'the strategy classes are instantiated directly (as genshi/tests/test_path.py does) to force a strategy',
    'XPath numbers as exact decimals (see C05)',
]
ASSUMPTIONS = [
    'streams are the events of one element tree, possibly with START_NS/END_NS events',
    'the caller either tests every event or, after a True result on a START event, feeds the events up to the '
    'matching END with updateonly=True (Path.select, the match filter)',
]

STRATS = ('Single', 'Simple', 'Generic')


def classes():
    from genshi import path as P
    return {'Single': P.SingleStepStrategy, 'Simple': P.SimplePathStrategy, 'Generic': P.GenericStrategy}


def canon(r):
    return c05.wire_val(r) if r is not False else [Atom('b'), Atom('F')]


def trace(test, events, ns, vs, skip):
    """per-event results of a test function with the given caller behaviour"""
    from genshi.core import START, END
    out = []
    i = 0
    while i < len(events):
        e = events[i]
        r = test(e, ns, vs)
        out.append(canon(r))
        i += 1
        if skip and r is True and e[0] is START:
            depth = 1
            while depth > 0 and i < len(events):
                e = events[i]
                i += 1
                if e[0] is START:
                    depth += 1
                elif e[0] is END:
                    depth -= 1
                test(e, ns, vs, updateonly=True)
                out.append(Atom('SKIP'))
    return out


def multi_test(tests):
    """Path.test's dispatcher, re-stated: every operand sees every event, first non-None wins"""
    def _t(event, ns, vs, updateonly=False):
        vals = [t(event, ns, vs, updateonly=updateonly) for t in tests]
        for v in vals:
            if v is not None:
                return v
        return None
    return _t


def forced_test(text, strat, ic):
    """test function of Path(text) with every location path on one strategy; None if unsupported"""
    from genshi import path as P
    cls = classes()[strat]
    paths = P.PathParser(text).parse()
    if not all(cls.supports(p) for p in paths):
        return None
    tests = [cls(p).test(ic) for p in paths]
    return tests[0] if len(tests) == 1 else multi_test(tests)


def safe(fn):
    try:
        return fn()
    except Exception as e:  # noqa
        return ('err', type(e).__name__)


def modes():
    return [(ic, skip) for ic in (False, True) for skip in (False, True)]


def same(a, b):
    return a == b


def case_events(case):
    if 'forest' in case:
        # several top-level elements (only used to replay finding C17-forest-positional)
        out = []
        for t in case['forest']:
            out.extend(G.doc_events(t))
        return out
    return G.doc_events(case['doc'], case.get('ns_events', False))


def oracle_case(case):
    """-> failure | None"""
    from genshi import path as P
    kind = case.get('kind', 'strategies')
    ns = case.get('ns', G.NSMAP)
    vs = case.get('vars', G.VARS)
    events = case_events(case)
    text = case['path']

    def fail(what, exp, obs, **kw):
        d = {'case': case, 'what': what, 'expected': c05.jsonable(exp)[:60], 'observed': c05.jsonable(obs)[:60],
             'doc_xml': G.doc_xml(case['doc'])}
        d.update(kw)
        return d

    try:
        P.PathParser(text).parse()
    except Exception:  # noqa
        return None
    if not spelling_pair_ok(case):
        return None      # not a pair of equivalent spellings (e.g. a shrinking step left the domain)
    if kind == 'strategies':
        for ic, skip in modes():
            ref = safe(lambda: trace(forced_test(text, 'Generic', ic), events, ns, vs, skip))
            for s in ('Single', 'Simple'):
                t = safe(lambda: forced_test(text, s, ic))
                if t is None:
                    continue
                got = t if isinstance(t, tuple) else safe(lambda: trace(t, events, ns, vs, skip))
                if not same(got, ref):
                    return fail('%sStrategy reports what GenericStrategy reports (ignore_context=%s, skipping=%s)'
                                % (s, ic, skip), ref, got, mode=[ic, skip])
            # the strategy picked by Path.__init__
            got = safe(lambda: trace(P.Path(text).test(ic), events, ns, vs, skip))
            if not same(got, ref):
                return fail('Path.test reports what GenericStrategy reports (ignore_context=%s, skipping=%s)'
                            % (ic, skip), ref, got, mode=[ic, skip])
        return None
    if kind in ('selfprefix', 'truepred'):
        other = case['other']
        for ic, skip in modes():
            a = safe(lambda: trace(P.Path(text).test(ic), events, ns, vs, skip))
            b = safe(lambda: trace(P.Path(other).test(ic), events, ns, vs, skip))
            if not same(a, b):
                return fail('%r and %r report the same matches (ignore_context=%s, skipping=%s)'
                            % (text, other, ic, skip), a, b, mode=[ic, skip])
        return None
    if kind == 'union':
        parts = case['parts']
        for ic, skip in modes():
            whole = safe(lambda: trace(P.Path(text).test(ic), events, ns, vs, skip))
            tests = [P.Path(p).test(ic) for p in parts]
            exp = safe(lambda: trace(multi_test(tests), events, ns, vs, skip))
            if not same(whole, exp):
                return fail('a union reports the first non-None result of its operands (ignore_context=%s, '
                            'skipping=%s)' % (ic, skip), exp, whole, mode=[ic, skip])
        return None
    raise ValueError(kind)


TRUE_PREDS = ['[true()]', '[1=1]', '[not(false())]', '[true() or false()]', '["a"="a"]']


def _strip_true(t):
    for p in sorted(TRUE_PREDS, key=len, reverse=True):
        t = t.replace(p, '')
    return t


def spelling_pair_ok(case):
    """the case really is a pair of spellings the property calls equivalent: `./p` vs `p`, a path vs the
    same path with always-true predicates added, a union vs its operands"""
    kind = case.get('kind', 'strategies')
    text = case.get('path')
    if not isinstance(text, str) or not text.strip():
        return False
    if kind == 'selfprefix':
        o = case.get('other')
        return isinstance(o, str) and (o == './' + text or text == './' + o)
    if kind == 'truepred':
        o = case.get('other')
        return isinstance(o, str) and bool(o.strip()) and _strip_true(o) == _strip_true(text) and o != text
    if kind == 'union':
        parts = case.get('parts')
        return isinstance(parts, list) and len(parts) >= 2 and all(isinstance(p, str) and p.strip() for p in parts) \
            and [p.strip() for p in text.split('|')] == [p.strip() for p in parts]
    return True


def add_true_pred(rng, text):
    """insert an always-true predicate after one step of a location path (before its own
    predicates, so that positions are unchanged whatever follows)"""
    import re
    # step boundaries: a '[' or '/' or end following a node test; keep it simple and put the
    # predicate right after the first node test token sequence of a randomly chosen step
    parts = re.split(r'(//|/)', text)
    # not on a leading '.' / 'self::node()': as a pattern that step is dropped when it has no
    # predicate, and the position of the next step then counts over the whole stream
    # (finding C17-pattern-first-step-position)
    idx = [i for i, p in enumerate(parts) if p not in ('/', '//', '') and not p.strip().startswith('@')
           and 'attribute::' not in p and p.strip() not in ('.', 'self::node()')]
    if not idx:
        return None
    i = rng.choice(idx)
    p = parts[i]
    m = re.match(r'\s*((?:[\w-]+::)?(?:[\w-]+:)?(?:\*|[\w-]+(?:\([^)]*\))?))', p)
    if not m:
        return None
    parts[i] = p[:m.end()] + rng.choice(TRUE_PREDS) + p[m.end():]
    return ''.join(parts)


ATTR_STEPS = ['@%s', '@%s', 'attribute::%s', '@*', 'attribute::text()', 'attribute::comment()', 'attribute::node()',
              '@x:%s']
AFTER_ATTR = ['%s', 'text()', '@%s', 'self::%s', '.', 'descendant::%s', 'comment()', '*', 'node()']


def rand_attrshape(rng, doc):
    """a location path with an attribute step where paths rarely have one: before the last step (`a/@b/c`), with a
    node-type test (`a/attribute::text()`), after a KMP fragment (`descendant::a/b/@n`) — the shapes behind the
    fixed findings C17-simple-interior-attribute and C17-simple-attribute-false; names and attributes are those
    of a random chain of `doc`, so the element steps usually match"""
    chain = [doc]
    while 'e' in chain[-1] and [k for k in chain[-1].get('k', []) if 'e' in k] and rng.random() < 0.8:
        chain.append(rng.choice([k for k in chain[-1]['k'] if 'e' in k]))
    owner = chain[-1]
    names = [n['e'][1] for n in chain[1:]] or [rng.choice(G.NAMES)]
    r = rng.random()
    if r < 0.4:
        head = '/'.join(names)
    elif r < 0.7:
        head = rng.choice(['descendant::', '//', 'descendant-or-self::']) + '/'.join(names[-2:])
    else:
        k = rng.randrange(len(names))
        head = '/'.join(names[:k] + [rng.choice(['descendant::', 'descendant-or-self::']) + names[k]] + names[k + 1:])
    if rng.random() < 0.15:
        head = 'self::%s/%s' % (doc['e'][1], head)
    attrs = [a[1] for a in owner.get('a', []) if not a[0]] or list(G.ATTR_NAMES)
    step = rng.choice(ATTR_STEPS)
    if '%s' in step:
        step = step % (rng.choice(attrs) if rng.random() < 0.8 else rng.choice(list(G.ATTR_NAMES)))
    text = head + '/' + step
    if rng.random() < 0.45:
        after = rng.choice(AFTER_ATTR)
        if '%s' in after:
            after = after % rng.choice(list(G.NAMES) + attrs)
        text += '/' + after
    return text


SS_AXES = ['', 'child::', '@', 'attribute::', 'self::', 'descendant::', 'descendant-or-self::', '//']
SS_ELEM_TESTS = ['*', 'text()', 'node()', 'comment()', 'processing-instruction()', "processing-instruction('php')",
                 'processing-instruction("py")', "processing-instruction('x')", 'x:*', 'y:*']
SS_ATTR_TESTS = ['*', 'x:*', 'y:*', 'text()', 'node()', 'comment()', 'processing-instruction()']


def rand_singlestep(rng, doc):
    """ONE location step — SingleStepStrategy's domain — over every axis spelling and every node test (names and
    namespaced names of the document, wildcards, the four node-type tests, processing-instruction targets; on the
    attribute axis the attribute names of the document, `@*`, `@x:*` and node-type tests), with 0-2 predicates,
    positional ones included"""
    nodes = []

    def walk(n):
        nodes.append(n)
        for k in n.get('k', []):
            walk(k)
    walk(doc)
    elems = [n for n in nodes if 'e' in n]
    ax = rng.choice(SS_AXES)
    attr_axis = ax in ('@', 'attribute::')
    r = rng.random()
    if attr_axis:
        owned = [a for n in elems for a in n.get('a', [])]
        if r < 0.5 and owned:
            a = rng.choice(owned)
            test = a[1] if not a[0] else '%s:%s' % ('x' if a[0] == 'urn:x' else 'y', a[1])
        elif r < 0.6:
            test = rng.choice(list(G.ATTR_NAMES))
        else:
            test = rng.choice(SS_ATTR_TESTS)
    else:
        if r < 0.45 and elems:
            q = rng.choice(elems)['e']
            test = q[1] if not q[0] or rng.random() < 0.3 else '%s:%s' % ('x' if q[0] == 'urn:x' else 'y', q[1])
        elif r < 0.55:
            test = rng.choice(list(G.NAMES))
        else:
            test = rng.choice(SS_ELEM_TESTS)
    step = ax + test
    k = 0
    while rng.random() < 0.4 and k < 2:
        if rng.random() < 0.5:
            step += '[%s]' % rng.choice(['1', '2', '3', '1', '2', '1.0', '2 ', '0', '2.5', 'true()', '@n', '1=1', '$n'])
        else:
            step += '[%s]' % G.rand_pred(rng, G.FULL, 2, not attr_axis)
        k += 1
    return step


def gen_case(rng):
    doc = G.rand_doc(rng, rng.choice([5, 7, 9, 12]), deep=rng.random() < 0.5)
    if rng.random() < 0.08:
        case = {'doc': doc, 'kind': 'strategies', 'path': rand_singlestep(rng, doc), 'singlestep': True}
        if rng.random() < 0.15:
            case['ns_events'] = True
        return case
    r = rng.random()
    case = {'doc': doc}
    if rng.random() < 0.15:
        case['ns_events'] = True
    if rng.random() < 0.08:
        text = rand_attrshape(rng, doc)
        if rng.random() < 0.3:
            # in a union a `False` from one operand keeps the others from matching the event
            parts = [text, rng.choice(['*', './/*', G.rand_locpath_for(rng, doc, G.SIMPLE)])]
            if rng.random() < 0.5:
                parts.reverse()
            case.update(kind='union', path='|'.join(parts), parts=parts)
        else:
            case.update(kind='strategies', path=text)
        case['attrshape'] = True
        return case
    if rng.random() < 0.14:
        # aimed at SimplePathStrategy's hand-over between fragments and its KMP fall-back
        doc, text = G.rand_fragcase(rng)
        case.update(doc=doc, kind='strategies', path=text)
        return case
    if r < 0.6:
        profile = rng.choice([G.SIMPLE, G.SIMPLE, G.STRUCT, G.FULL])
        if rng.random() < 0.5:
            text = G.rand_locpath_for(rng, doc, profile)
        else:
            text = G.rand_locpath(rng, profile, steps=rng.choice([1, 1, 2, 3]))
        case.update(kind='strategies', path=text)
    elif r < 0.72:
        profile = rng.choice([G.SIMPLE, G.STRUCT, G.FULL])
        text = G.rand_locpath_for(rng, doc, profile).strip()
        if text.startswith('.') or text.startswith('/'):
            text = G.rand_locpath(rng, profile).strip()
        if text.startswith('.') or text.startswith('/'):
            case.update(kind='strategies', path=text)
        else:
            case.update(kind='selfprefix', path=text, other='./' + text)
    elif r < 0.86:
        profile = rng.choice([G.SIMPLE, G.STRUCT, G.FULL])
        text = G.rand_locpath_for(rng, doc, profile)
        other = add_true_pred(rng, text)
        if other is None:
            case.update(kind='strategies', path=text)
        else:
            case.update(kind='truepred', path=text, other=other)
    else:
        profile = rng.choice([G.SIMPLE, G.STRUCT, G.FULL])
        parts = [G.rand_locpath_for(rng, doc, profile) if rng.random() < 0.7 else G.rand_locpath(rng, profile)
                 for _ in range(rng.choice([2, 2, 3]))]
        case.update(kind='union', path='|'.join(parts), parts=parts)
    return case


def dump_frags(text):
    from genshi import path as P
    out = [Atom('ok')]
    for p in P.PathParser(text).parse():
        if not P.SimplePathStrategy.supports(p):
            out.append(None)
            continue
        s = P.SimplePathStrategy(p)
        if s.fragments is None:
            out.append(N)
        else:
            out.append([[[c05.dump_test(t) for t in f[0]], [Atom(str(x)) for x in f[1]],
                         N if f[2] is None else c05.dump_test(f[2]), B(f[3])] for f in s.fragments])
    return out


def real_scope(text):
    """what `C17 inscope` must answer, read off the real parsed paths"""
    from genshi import path as P
    out = [Atom('ok')]
    for p in P.PathParser(text).parse():
        if not P.SimplePathStrategy.supports(p):
            out.append(N)
            continue
        has_attr = any(st[0] is P.ATTRIBUTE for st in p)
        if P.SimplePathStrategy(p).fragments is None:
            out.append([Atom('none'), B(not has_attr)])
            continue
        inner_self = any(st[0] is P.SELF for st in p[1:])
        out.append([B(not has_attr), B(not has_attr and not inner_self), B(not has_attr)])
    return out


def _sym_matches(test, node):
    """does a SimplePathStrategy node test (name / text() / comment()) accept a document node"""
    n = type(test).__name__
    if n == 'LocalNameTest':
        return 'e' in node and node['e'][1] == test.name
    if n == 'TextNodeTest':
        return 't' in node
    if n == 'CommentNodeTest':
        return 'c' in node
    return False


def kmp_fallbacks(frag, pi, doc):
    """number of (root-to-node chain, position) pairs at which the KMP loop over `frag` falls back to a
    NON-ZERO table entry — an independent re-run of the textbook loop over every chain of `doc`"""
    count = [0]

    def walk(node, p):
        while p > 0 and (p >= len(frag) or not _sym_matches(frag[p], node)):
            p = pi[p - 1]
            if p > 0:
                count[0] += 1
        if p < len(frag) and _sym_matches(frag[p], node):
            p += 1
        for k in node.get('k', []):
            walk(k, p)

    walk(doc, 0)
    return count[0]


def frag_stats(text, doc, res):
    """distribution counters for the SimplePathStrategy side of a case"""
    from genshi import path as P
    try:
        paths = P.PathParser(text).parse()
    except Exception:  # noqa
        return
    for p in paths:
        if not P.SimplePathStrategy.supports(p):
            continue
        res.count('simple:supported')
        fr = P.SimplePathStrategy(p).fragments
        if fr is None:
            res.count('simple:fragments-None')
            continue
        ne = [f for f in fr if f[0]]
        res.count('simple:fragments=%d' % min(len(ne), 4))
        if len(ne) >= 2:
            res.count('simple:multi-fragment')
        if any(f[2] is not None for f in fr):
            res.count('simple:attr-end')
            if len(ne) >= 2 or (fr and not fr[0][0]):
                res.count('simple:attr-end-after-kmp-fragment')
            if type(fr[-1][2]).__name__ != 'LocalNameTest':
                res.count('simple:attr-end-node-type-test')
        if any(st[0] is P.SELF for st in p[1:]):
            res.count('simple:inner-self')
        if any(x > 0 for f in fr for x in f[1]):
            res.count('simple:pi-nonzero')
        kmp = [f for i, f in enumerate(fr) if f[0] and (i > 0)]
        fb = sum(kmp_fallbacks(f[0], f[1], doc) for f in kmp)
        if fb:
            res.count('simple:kmp-fallback-nonzero')
            if len(ne) >= 2:
                res.count('simple:multi-fragment+kmp-fallback-nonzero')


def check_cases(cases, res):
    from genshi import path as P
    lines, plan = [], []

    def ask(tag, i, line, real):
        lines.append(line)
        plan.append((tag, i, real))

    for i, case in enumerate(cases):
        res.evaluations += 1
        res.count('kind:' + case['kind'])
        if case.get('singlestep'):
            res.count('gen:singlestep')
            try:
                st = P.PathParser(case['path']).parse()[0]
                if len(st) == 1:
                    res.count('single:axis=%s' % st[0][0])
                    res.count('single:test=%s%s' % (type(st[0][1]).__name__,
                                                     ':' + str(getattr(st[0][1], 'principal_type', ''))
                                                     if hasattr(st[0][1], 'principal_type') else ''))
                    res.count('single:preds=%d' % len(st[0][2]))
            except Exception as e:  # noqa
                res.count('single:parse-error:%s' % type(e).__name__)
        if case.get('attrshape'):
            res.count('gen:attrshape')
            try:
                if any(any(st[0] is P.ATTRIBUTE for st in p[:-1]) for p in P.PathParser(case['path']).parse()):
                    res.count('gen:attrshape:interior-attribute-step')
            except Exception:  # noqa
                pass
        f = oracle_case(case)
        if f:
            res.failures.append(f)
        ns, vs = case.get('ns', G.NSMAP), case.get('vars', G.VARS)
        events = case_events(case)
        wev = evwire.stream(events)
        wns, wvs = c05.wire_ns(ns), c05.wire_vars(vs)
        texts = [case['path']] + ([case['other']] if 'other' in case else [])
        for text in texts:
            try:
                paths = P.PathParser(text).parse()
            except Exception:  # noqa
                continue
            sup = [Atom('ok')]
            for p in paths:
                v = [bool(c.supports(p)) for c in (P.SingleStepStrategy, P.SimplePathStrategy, P.GenericStrategy)]
                chosen = [n for n, c in zip(STRATS, (P.SingleStepStrategy, P.SimplePathStrategy, P.GenericStrategy))
                          if isinstance(P.Path(text).strategies[paths.index(p)], c)][0]
                sup.append([B(v[0]), B(v[1]), B(v[2]), Atom(chosen)])
                res.count('chosen:' + chosen)
            ask('supports', i, proto.line(Atom('C17'), Atom('can'), text), sup)
            fr = dump_frags(text)
            if all(x is not None for x in fr):
                ask('frags', i, proto.line(Atom('C17'), Atom('frags'), text), fr)
            sc = real_scope(text)
            ask('inscope', i, proto.line(Atom('C17'), Atom('inscope'), text), sc)
            # every path SimplePathStrategy supports lies in the scope of simple_eq_generic (the full statement)
            fs = [Atom('ok')] + [B(True) if P.SimplePathStrategy.supports(p) else N for p in paths]
            ask('fullscope', i, proto.line(Atom('C17'), Atom('fullscope'), text), fs)
            for x in fs[1:]:
                if x is not N:
                    res.count('simple:in-full-theorem-scope')
            for x in sc[1:]:
                if isinstance(x, list):
                    res.count('simple:in-fragment-theorem-scope' if x[:2] == [B(True), B(True)]
                              else 'simple:outside-fragment-theorem-scope')
                    res.count('simple:in-spelling-theorem-scope' if x[-1] == B(True)
                              else 'simple:outside-spelling-theorem-scope')
            frag_stats(text, case['doc'], res)
            hit = False
            for ic, skip in modes():
                for s in STRATS + ('auto',):
                    if s == 'auto':
                        t = safe(lambda: P.Path(text).test(ic))
                    else:
                        t = safe(lambda: forced_test(text, s, ic))
                    if t is None:
                        continue
                    if isinstance(t, tuple):
                        real = [Atom('err'), Atom(t[1])]
                    else:
                        tr = safe(lambda: trace(t, events, ns, vs, skip))
                        real = [Atom('err'), Atom(tr[1])] if isinstance(tr, tuple) else [Atom('ok')] + tr
                        if any(x not in (N, 'SKIP') for x in real[1:]):
                            hit = True
                    ask('trace-%s' % s, i,
                        proto.line(Atom('C17'), Atom('trace'), Atom(s), B(ic), B(skip), text, wns, wvs, wev), real)
            if hit and len(paths) >= 1:
                res.nontrivial.add('%s|%s' % (c05.path_shape(text), c05.doc_shape(case['doc'])))
    answers = proto.run_lines(lines)
    for (tag, i, real), ans in zip(plan, answers):
        if ans in ('unmodelled', 'unsupported'):
            res.count('model:%s:%s' % (ans, tag))
            continue
        try:
            model = proto.dec(ans)
        except Exception:  # noqa
            model = Atom(ans)
        res.streams[tag] = res.streams.get(tag, 0) + 1
        if model != real:
            res.disagreements.append({'stream': tag, 'case': cases[i], 'model': repr(model)[:600],
                                      'real': repr(real)[:600]})


def shard(arg):
    import random
    seed, idx, n = arg
    rng = random.Random('%s/%s/C17' % (seed, idx))
    res = Result()
    cases = [gen_case(rng) for _ in range(n)]
    check_cases(cases, res)
    res.samples = [{'doc': G.doc_xml(c['doc']), 'path': c['path'], 'kind': c['kind']} for c in cases[:2]]
    return res


def run(ctx):
    nsh = 16
    per = ctx.n(1200, 24000)
    res = Result()
    for r in pmap('harness.props.c17', 'shard', [(ctx.seed, i, per) for i in range(nsh)]):
        res.merge(r)
    res.rule = ('(document, location path) pairs from the C05 generators, half with chains of repeated names nested '
                '>= 3 deep; each run through every supporting strategy x {relative, pattern} x {every event, skipping '
                'matched subtrees}, plus spelling pairs (./p vs p, always-true predicate) and unions vs their operands. '
                'non-trivial = some event is reported as a match; distinct by (path shape, document shape)')
    res.samples = res.samples[:6]
    return res


def search(ctx, res, broken):
    found = []
    for d in res.disagreements[:300]:
        try:
            f = oracle_case(d['case'])
        except Exception:  # noqa
            continue
        if f:
            found.append(f)
    if found:
        return found
    for r in pmap('harness.props.c17', 'shard', [(ctx.seed + 1000 + i, i, 2500) for i in range(16)]):
        found.extend(r.failures)
    return found


def replay(ctx, case):
    return oracle_case(case)

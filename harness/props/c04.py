"""C04 — directives implement the documented control-flow semantics.

Oracles on the real code (none uses the implementation half of the Lean model):
  * the documented equivalences as metamorphic checks: attribute form = element form in
    documentation order; py:replace = py:content + py:strip; a loop = its unrolling with py:with;
    a false py:if removes / a true one is transparent; only the first matching py:when (else
    py:otherwise) is rendered; scoping: what follows a template sees exactly the outer variables;
  * the real output against the Lean documentation semantics `Genshi.Tmpl.docRender` (gdrv).
  * character level (text templates): a printed well-formed token list is parsed to itself
    (`scanprint`, `scanprint-old`), escaped text reaches the output verbatim (`scanverb`).
Correspondence: the real output and the real prepared stream against the implementation model
`Genshi.Tmpl.implRender` / `Genshi.Tmpl.compile`; the Lean scanners against the compiled regular
expressions' own `finditer` (`text-scan-tokens`) and against the event stream of `_parse` on raw,
also malformed, text (`text-scan-parse`); the end-to-end model from source text against the model from
the AST (`raw-text-compile`) and against the real render (`raw-text-render`); the specification printer
of text templates the inversion theorem (`raw_print_roundtrip`) is about against the printer that wrote
the sources of all these streams (`print-text`; `inversion-hypothesis:*` counts how many generated
templates are inside the hypothesis of the theorem).  Parameter binding of macros (positional, keyword,
default, missing) is generated on purpose (`gen_macro_case`, counters `bind:*`).
"""
import json, random, warnings
from harness import proto
from harness import gen_templates as G
from harness import gen_textraw as R
from harness.framework import Result, pmap
from harness.proto import Atom

PROP = 'C04'
TRUSTED = [
    'modelled, not verified: genshi/template/directives.py (all directive classes but py:match), base.py Context / '
    '_apply_directives / _eval_expr / Template._prepare / _flatten (EXPR, SUB and plain START branches), markup.py '
    '_extract_directives (the flat depth/dirmap pass), text.py token loop of NewTextTemplate/OldTextTemplate._parse '
    '(hand-written Lean models tied by differential correspondence: rendered events one by one incl. error class, '
    'and the prepared stream Template.stream)',
    'modelled, not verified: the regular expressions of NewTextTemplate (default delimiters) / OldTextTemplate as total list '
    'scanners (Model/TmplScan.lean; the shape of the compiled patterns is checked and their flags are read by '
    'harness/extract_textscan.py), _escape_re.sub, the line splitting of the old syntax, interpolate over the C03 model of lex, '
    'a reader of the mini language and of the directive arguments (Model/TmplRaw.lean) -- tied by the streams text-scan-tokens, '
    'text-scan-parse, raw-text-compile, raw-text-render; the specification printer Model/TmplPrint.lean (hypothesis side of the '
    'inversion theorem) -- tied by print-text; the Python syntax of ${...} / {% python %} sources is judged by CPython',
    'not modelled, only exercised: expat and MarkupTemplate._parse (markup source -> parsed stream), genshi.template.eval '
    '(expressions are re-implemented for a mini language: names, None/bool/int/str/list/dict literals, ==, not, len, indexing), '
    'Attrs.__or__ (C18 model), the serializer; line numbers / offsets of the events; custom delimiters of NewTextTemplate '
    'whose directive end starts with a word character or a blank (outside the side condition of Model/TmplScanD.lean; inside it the '
    'parameterised scanner is tied by text-scan-tokens-delims / text-scan-parse-delims)',
    'outside the model: py:match, <?python?>, xi:include, i18n directives, *args/**kwargs parameters of py:def (defaults and keyword arguments are modelled), tuple '
    'unpacking in py:for / py:with, interpolated attribute values, py: attributes on directive elements (known finding)',
    'the documentation semantics `doc` is a formalisation of doc/xml-templates.rst / text-templates.rst by hand; where '
    'the documents are silent (macro bodies see the caller\'s variables; py:when refers to the innermost choose being '
    'rendered) it follows the engine',
]
ASSUMPTIONS = [
    'templates come from the directive grammar of harness/gen_templates.py (every case is checked for grammar '
    'membership before it is judged), rendered with lookup="strict" (the default) or "lenient"',
    'expressions stay in the mini language; `not` is never an operand of == or the base of an index (genshi drops those '
    'parentheses: C03/C13 defect, outside this property); names avoid Python builtins',
    'directive elements (<py:for> ...) carry no further py: attributes (known finding C04-direlem-attrs)',
    'each macro name is defined at most once per template and called only after its definition (no recursion)',
    'macro calls: positional arguments before keyword arguments, keyword names distinct (Python syntax); where a Python '
    'function would raise TypeError (surplus positional arguments; a keyword for a parameter already filled by position) the '
    'documentation semantics follows the engine (the surplus is dropped) -- only surplus positional arguments are generated',
    'scanner oracles: token lists from the grammar of harness/gen_textraw.py / gen_old_toks (texts without $, balanced blocks; a text '
    'in front of a delimiter does not end in a backslash: such a template cannot be written)',
    'two Undefined values are never compared with == (object identity of Undefined is not in the value universe: '
    'the model answers unmodelled and the case is counted)',
]

LANGS = ['markup', 'markup', 'markup', 'newtext', 'oldtext']
OUTER = ['def', 'when', 'otherwise', 'for', 'if', 'choose', 'with', 'replace']     # have an element form
STAY = ['content', 'attrs', 'strip']                                              # attribute form only


def order_of(name):
    return G.DOC_ORDER.index(name)


def sorted_dirs(dirs):
    return sorted(dirs, key=lambda d: order_of(d[0]))


# --------------------------------------------------------------------------
# metamorphic transformations (pure functions on the JSON AST)

def elem_form(node):
    """an element with py: attributes -> the same directives as nested directive elements in the
    documented processing order (content/attrs/strip stay on the element)"""
    _, tag, attrs, dirs, kids = node
    ds = sorted_dirs(dirs)
    inner = ['el', tag, attrs, [d for d in ds if d[0] in STAY], kids]
    for name, arg in reversed([d for d in ds if d[0] in OUTER]):
        inner = ['d', name, arg, [inner]]
    return inner


def map_nodes(nodes, f):
    """rebuild bottom-up; f(node) -> list of nodes"""
    out = []
    for n in nodes:
        if n[0] == 'el':
            n = ['el', n[1], n[2], n[3], map_nodes(n[4], f)]
        elif n[0] == 'd':
            n = ['d', n[1], n[2], map_nodes(n[3], f)]
        out.extend(f(n))
    return out


def t_elem_form(nodes, rng=None, p=1.0):
    def f(n):
        if n[0] == 'el' and any(d[0] in OUTER for d in n[3]) and (rng is None or rng.random() < p):
            return [elem_form(n)]
        return [n]
    return map_nodes(nodes, f)


def t_replace(nodes):
    """py:replace -> py:content + py:strip (only where neither is present already)"""
    def f(n):
        if n[0] == 'el':
            names = [d[0] for d in n[3]]
            if 'replace' in names and 'content' not in names and 'strip' not in names:
                dirs = []
                for d in n[3]:
                    if d[0] == 'replace':
                        dirs.append(['content', d[1]])
                        dirs.append(['strip', None])
                    else:
                        dirs.append(d)
                return [['el', n[1], n[2], dirs, n[4]]]
        return [n]
    return map_nodes(nodes, f)


class Skip(Exception):
    pass


def py_eval(expr, data):
    """CPython's own evaluation of a mini-language expression over the top-level data"""
    try:
        with warnings.catch_warnings():
            warnings.simplefilter('ignore')
            return eval(G.expr_src(expr), {'__builtins__': {'len': len}}, G.data_kwargs(data))
    except Exception:
        raise Skip()


def lit_of(v):
    if v is None:
        return ['n']
    if isinstance(v, bool):
        return ['b', v]
    if isinstance(v, int):
        return ['i', v]
    if isinstance(v, str):
        return ['s', v]
    raise Skip()


def first_dir(node):
    """(name, arg, node without that directive) for the directive processed first, or None"""
    if node[0] == 'd':
        return node[1], node[2], node[3]
    if node[0] == 'el' and node[3]:
        ds = sorted_dirs(node[3])
        name, arg = ds[0]
        rest = [d for d in node[3] if d[0] != name]
        return name, arg, [['el', node[1], node[2], rest, node[4]]]
    return None


def t_toplevel(nodes, data, which):
    """rewrite the top-level nodes whose first directive is `which` using the value CPython gives
    its expression over the data; returns (new nodes, number of rewrites)"""
    out, cnt = [], 0
    for n in nodes:
        fd = first_dir(n)
        if fd is None or fd[0] != which:
            out.append(n)
            continue
        name, arg, body = fd
        try:
            if which == 'if':
                out.extend(body if py_eval(arg, data) else [])
            elif which == 'for':
                var, it = arg
                v = py_eval(it, data)
                if isinstance(v, dict):
                    items = list(v.keys())
                elif isinstance(v, (list, str)):
                    items = list(v)
                else:
                    raise Skip()
                for item in items:
                    out.append(['d', 'with', [[var, lit_of(item)]], G.clone(body)])
            elif which == 'with':
                # nested single bindings
                inner = body
                for nm, e in reversed(arg):
                    inner = [['d', 'with', [[nm, e]], inner]]
                out.extend(inner)
                if len(arg) < 2:
                    cnt -= 1
            elif which == 'choose':
                out.extend(choose_expected(arg, n, data))
            cnt += 1
        except Skip:
            out.append(n)
    return G.canon_nodes(out), cnt


def choose_expected(test, node, data):
    """a py:choose node -> the same node with every branch but the first matching py:when (else the
    py:otherwise) deleted: "the first matching branch alone is rendered".  Applies when every
    child is a branch (first directive when/otherwise) or text."""
    if node[0] == 'el':
        # directives applied after py:choose on the same element may bind names the tests see
        # (py:with) or discard the branches (py:content): leave those to the other oracles
        if any(d[0] not in ('choose', 'attrs', 'strip') for d in node[3]):
            raise Skip()
        kids = node[4]
    else:
        kids = node[3]
    has_test = test is not None
    val = py_eval(test, data) if has_test else None
    found, new = False, []
    for k in kids:
        fd = first_dir(k)
        if fd is None or fd[0] not in ('when', 'otherwise'):
            if k[0] != 't':
                raise Skip()
            new.append(k)
            continue
        if found:
            continue
        name, arg, inner = fd
        if name == 'otherwise':
            m = True
        elif has_test:
            m = (val == py_eval(arg, data)) if arg is not None else bool(val)
        else:
            if arg is None:
                raise Skip()
            m = bool(py_eval(arg, data))
        if m:
            found = True
            new.append(k)
    if node[0] == 'el':
        return [['el', node[1], node[2], node[3], new]]
    return [['d', node[1], node[2], new]]


def defined_names(nodes):
    out = set()
    for n in G.walk(nodes):
        if n[0] == 'd' and n[1] == 'def':
            out.add(n[2][0])
        elif n[0] == 'el':
            for d, a in n[3]:
                if d == 'def':
                    out.add(a[0])
    return out


# --------------------------------------------------------------------------
# the oracle on one case.  case = {'lang', 'nodes', 'data', 'check'}

CHECKS = ['elemform', 'replace', 'for', 'if', 'with', 'choose', 'scope', 'doc']


def lookup_of(case):
    return case.get('lookup', 'lenient')


def real(lang, nodes, data, lookup='lenient'):
    return G.render_real(lang, nodes, data, lookup=lookup)


def same(a, b):
    if a[0] == 'invalid' or b[0] == 'invalid':
        return True      # not a template of the grammar: no statement
    """equal outputs; two failing renders count as equal whatever the exception class (which
    expression fails first is not part of the documented semantics)"""
    if a[0] == 'err' and b[0] == 'err':
        return True
    return a == b


def oracle_case(case, doc=None):
    """returns a failure dict or None.  `doc`: the answer of the Lean documentation semantics for
    this case when the caller already has it (check 'doc')"""
    def bad(what, expected, observed, **kw):
        d = {'case': case, 'what': what, 'expected': expected, 'observed': observed}
        d.update(kw)
        return d

    if case['check'] in ('scanprint', 'scanprint-old', 'scanverb'):
        return scan_oracle(case)
    if case['check'] == 'raw':
        # a template given by its source (shapes the AST cannot express) with the documented output
        got = real_raw(case['lang'], [['raw', case['source']]], case['data'], lookup_of(case))
        if got[0] != 'invalid' and got != case['expected']:
            return bad(case.get('what', 'documented output'), case['expected'], got)
        return None
    lang, nodes, data, check = case['lang'], case['nodes'], case['data'], case['check']
    if not (G.valid_nodes(nodes, lang) and G.valid_data(data)) or lookup_of(case) not in ('strict', 'lenient'):
        return None          # not a case of the grammar (shrinking went too far)
    if lang == 'oldtext' and G.fix_old(nodes)[0] != nodes:
        return None

    lk = lookup_of(case)
    base = real(lang, nodes, data, lk)
    if check == 'elemform':
        other = t_elem_form(nodes)
        if other == nodes:
            return None
        r2 = real(lang, other, data, lk)
        if not same(base, r2):
            return bad('attribute form = element form in the documented processing order', r2, base,
                       other_source=G.source(lang, other))
    elif check == 'replace':
        other = t_replace(nodes)
        if other == nodes:
            return None
        r2 = real(lang, other, data, lk)
        # content + strip keeps the element alive for py:attrs / the strip condition, which py:replace
        # (by the attribute = element form equivalence) never evaluates: where only that evaluation
        # fails the two are not comparable
        if r2[0] == 'err' and base[0] == 'ok':
            return None
        if not same(base, r2):
            return bad('py:replace = py:content + py:strip', r2, base, other_source=G.source(lang, other))
    elif check in ('for', 'if', 'with', 'choose'):
        other, cnt = t_toplevel(nodes, data, check)
        if cnt <= 0 or other == nodes:
            return None
        if lang == 'oldtext':
            other, _ = G.fix_old(other)
            if G.to_oldtext(other).count('\n') != G.to_oldtext(nodes).count('\n') and check != 'with':
                pass
        r2 = real(lang, other, data, lk)
        what = {'for': 'a loop = its unrolled body with the loop variable bound by py:with',
                'if': 'a false py:if removes the element, a true one is transparent',
                'with': 'py:with a=..; b=.. = nested single bindings',
                'choose': 'only the first matching py:when (else py:otherwise) is rendered'}[check]
        if lang == 'oldtext':
            # the old syntax swallows the line break after a directive line: compare modulo "\n"
            strip_nl = lambda r: r if r[0] == 'err' else ['ok', [[e[0], e[1].replace('\n', '')] if e[0] == 'T' else e for e in r[1]]]
            if not same(strip_nl(base), strip_nl(r2)):
                return bad(what, r2, base, other_source=G.source(lang, other))
        elif not same(base, r2):
            return bad(what, r2, base, other_source=G.source(lang, other))
    elif check == 'scope':
        if base[0] != 'ok':
            return None
        defs = defined_names(nodes)
        names = sorted(set(G.VARS + ['it', 'p']) - defs)
        # one probe for all names: is it defined, and what does it render as
        probe = [['raw', ''.join("[${defined('%s')}|${value_of('%s')}]" % (nm, nm) for nm in names)]]
        alone = real_raw(lang, probe, data, lk)
        both = real_raw(lang, nodes + probe, data, lk)
        if alone[0] == 'invalid' or both[0] == 'invalid':
            return None
        if alone[0] != 'ok' or both[0] != 'ok':
            return bad('probe of %s after the template renders' % names, alone, both)
        exp = G.norm_events_merge(base[1] + alone[1])
        if both[1] != exp:
            return bad('after the template every variable is what it was before it (loop, with and '
                       'parameter names are not visible, outer values are kept)', exp, both[1])
    elif check == 'doc':
        if doc is None:
            doc = doc_answers([case])[0]
        if doc is None:
            return None
        if not same(base, doc):
            return bad('rendered output = output defined by the documentation (Lean docRender)', doc, base)
    else:
        raise ValueError(check)
    return None


def real_raw(lang, nodes, data, lookup='lenient'):
    """like G.render_real but the node list may hold ['raw', source] probes"""
    cls = G.template_class(lang)
    raws = [n for n in nodes if n[0] == 'raw']
    plain = [n for n in nodes if n[0] != 'raw']
    src = G.source(lang, plain)
    tail = ''.join(r[1] for r in raws)
    if lang == 'markup':
        src = src[:-len('</r>')] + tail + '</r>'
    else:
        src = src + tail
    try:
        with warnings.catch_warnings():
            warnings.simplefilter('ignore')
            tmpl = cls(src, lookup=lookup)
    except Exception as e:   # noqa
        return ['err', type(e).__name__]
    try:
        with warnings.catch_warnings():
            warnings.simplefilter('ignore')
            ev = G.norm_events(tmpl.generate(**G.data_kwargs(data)))
    except Exception as e:   # noqa
        if type(e).__name__ in G.INVALID:
            return ['invalid', type(e).__name__]
        return ['err', type(e).__name__]
    if lang == 'markup':
        ev = G.unroot(ev)
    return ['ok', ev]


# --------------------------------------------------------------------------
# the Lean side

FUEL = 100000


def model_out(ans):
    """gdrv answer -> ['ok', normalised events] | ['err', kind] | None (unmodelled)"""
    if ans == 'unmodelled' or ans in ('bad-op', 'bad-line'):
        return None
    v = proto.dec(ans)
    if v[0] == 'err':
        if v[1] in ('unmodelled', 'fuel'):
            return None
        return ['err', str(v[1])]
    from harness import evwire
    evs = v[1] if len(v) > 1 else []
    return ['ok', G.norm_events(evwire.unstream(evs))]


def model_exact(ans, lang):
    """gdrv answer of `impl` -> exact events (None unless it rendered)"""
    if ans in ('unmodelled', 'bad-op', 'bad-line'):
        return None
    v = proto.dec(ans)
    if v[0] != 'ok':
        return None
    from harness import evwire
    ev = G.exact_events(evwire.unstream(v[1] if len(v) > 1 else []))
    if lang != 'markup':
        # text templates convert numbers with str, not Markup (Template._number_conv)
        ev = [[e[0], e[1], False] if e[0] == 'T' else e for e in ev]
    return ev


def strictify(w):
    """names are looked up strictly: V -> SV throughout a wire value"""
    if isinstance(w, list):
        if w and isinstance(w[0], Atom) and w[0] == 'V' and len(w) == 2:
            return [Atom('SV'), w[1]]
        if w and isinstance(w[0], Atom) and w[0] == 'IX' and len(w) == 3:
            return [Atom('SIX'), strictify(w[1]), strictify(w[2])]
        return [strictify(x) for x in w]
    return w


def model_lines(verb, cases):
    out = []
    for c in cases:
        nodes = G.nodes_w(c['nodes'])
        if lookup_of(c) == 'strict':
            nodes = strictify(nodes)
        out.append(proto.line(Atom('C04'), Atom(verb), Atom(c['lang']), FUEL, nodes, G.data_w(c['data'])))
    return out


def doc_answers(cases):
    if not cases:
        return []
    return [model_out(a) for a in proto.run_lines(model_lines('doc', cases))]


def impl_answers(cases, exact=False):
    if not cases:
        return []
    raw = proto.run_lines(model_lines('impl', cases))
    if exact:
        return [(model_out(a), model_exact(a, c['lang'])) for a, c in zip(raw, cases)]
    return [model_out(a) for a in raw]



# --------------------------------------------------------------------------
# the prepared template stream (Template.stream) against the model's `compile`

def expr_of_w(v):
    """wire expression (as decoded by proto.dec) -> JSON expression of gen_templates"""
    k = str(v[0])
    if k in ('V', 'SV'):
        return ['v', v[1]]
    if k == 'N':
        return ['n']
    if k == 'B':
        return ['b', str(v[1]) == 'T']
    if k == 'I':
        return ['i', int(str(v[1]))]
    if k == 'S':
        return ['s', v[1]]
    if k == 'L':
        return ['l', [expr_of_w(a) for a in v[1:]]]
    if k == 'D':
        return ['d', [[kv[0], expr_of_w(kv[1])] for kv in v[1:]]]
    if k in ('EQ', 'IX', 'SIX'):
        return [k.lower().replace('six', 'ix'), expr_of_w(v[1]), expr_of_w(v[2])]
    if k in ('NOT', 'LEN'):
        return [k.lower(), expr_of_w(v[1])]
    if k == 'CALL':
        pos = [expr_of_w(a) for a in v[2] if str(a[0]) != 'KW']
        kw = [[a[1], expr_of_w(a[2])] for a in v[2] if str(a[0]) == 'KW']
        return ['call', expr_of_w(v[1])[1], pos] + ([kw] if kw else [])
    raise ValueError(v)


def opt_src(v):
    return None if (isinstance(v, Atom) and v == 'NONE') else G.expr_src(expr_of_w(v))


def model_dir(v):
    k = str(v[0])
    if k == 'Def':
        # parameter names, and which of them have a default (the default expressions are compared by rendering)
        return ['def', v[1], [pp if isinstance(pp, str) else pp[1] for pp in v[2]],
                sorted(pp[1] for pp in v[2] if not isinstance(pp, str))]
    if k in ('When', 'Choose', 'Strip'):
        return [k.lower(), opt_src(v[1])]
    if k == 'Otherwise':
        return ['otherwise', None]
    if k == 'For':
        return ['for', v[1], 'iter(%s)' % G.expr_src(expr_of_w(v[2]))]
    if k in ('If', 'Attrs'):
        return [k.lower(), G.expr_src(expr_of_w(v[1]))]
    if k == 'With':
        return ['with', [b[0] for b in v[1]]]
    return [k.lower(), '?']


def model_stream(v):
    out = []
    for e in v:
        k = str(e[0])
        if k == 'ST':
            out.append(['ST', e[1], [[a[0], a[1]] for a in e[2]]])
        elif k == 'EN':
            out.append(['EN', e[1]])
        elif k == 'TX':
            out.append(['TX', e[1]])
        elif k == 'EX':
            out.append(['EX', G.expr_src(expr_of_w(e[1]))])
        elif k == 'SUB':
            out.append(['SUB', [model_dir(d) for d in e[1]], model_stream(e[2])])
        else:
            raise ValueError(e)
    return out


def names_of(assign):
    n = assign.__defaults__[0]
    return n if isinstance(n, str) else repr(n)


def real_dir(d):
    name = type(d).tagname
    src = lambda: d.expr.source.strip() if d.expr is not None else None   # the old text syntax keeps the line break
    if name == 'def':
        return ['def', d.name, list(d.args), sorted(d.defaults)]
    if name in ('when', 'choose', 'strip'):
        return [name, src()]
    if name == 'otherwise':
        return ['otherwise', None]
    if name == 'for':
        return ['for', names_of(d.assign), src()]
    if name in ('if', 'attrs'):
        return [name, src()]
    if name == 'with':
        return ['with', [names_of(t[0][0]) for t in d.vars]]
    return [name, '?']


def real_stream(stream):
    from genshi.core import START, END, TEXT
    from genshi.template.base import EXPR, SUB
    out = []
    for kind, data, pos in stream:
        if kind is START:
            out.append(['ST', str(data[0]), [[str(k), v if isinstance(v, str) else repr(v)] for k, v in data[1]]])
        elif kind is END:
            out.append(['EN', str(data)])
        elif kind is TEXT:
            out.append(['TX', str(data)])
        elif kind is EXPR:
            out.append(['EX', data.source])
        elif kind is SUB:
            out.append(['SUB', [real_dir(d) for d in data[0]], real_stream(data[1])])
        else:
            out.append(['OTHER', str(kind)])
    return out


def prepared_real(lang, nodes, lookup='lenient'):
    try:
        tmpl = G.template_class(lang)(G.source(lang, nodes), lookup=lookup)
        st = real_stream(tmpl.stream)
    except Exception as e:   # noqa
        return ['err', type(e).__name__]
    if lang == 'markup':
        if len(st) >= 2 and st[0][:2] == ['ST', 'r'] and st[-1] == ['EN', 'r']:
            st = st[1:-1]
    return ['ok', st]


def prepared_model(cases):
    lines = model_lines('compileflat', cases)   # the flat _extract_directives pass + attach (= compile, Props.construction_pipeline_eq_compile)
    out = []
    for a in proto.run_lines(lines):
        if a in ('unmodelled', 'bad-op', 'bad-line'):
            out.append(None)
            continue
        v = proto.dec(a) if a.strip() != '( )' else []
        if a.strip().startswith('(') and not isinstance(v, list):
            v = [v]
        toks = a.split()
        # proto.dec unwraps a single item: re-wrap when the answer was a one-element list
        if len(toks) >= 2 and toks[0] == '(' and v and not isinstance(v[0], list):
            v = [v]
        out.append(['ok', model_stream(v)])
    return out

ERRMAP = {'TemplateSyntaxError': 'syntax', 'BadDirectiveError': 'syntax', 'TypeError': 'type', 'IndexError': 'index', 'KeyError': 'key', 'UndefinedError': 'undefined',
          'TemplateRuntimeError': 'runtime', 'AttributeError': 'attribute', 'ValueError': 'value',
          'RuntimeError': 'genstop'}


# --------------------------------------------------------------------------
# generation

def gen_choose_case(rng, lang):
    """a well-formed py:choose at top level with evaluable tests"""
    st = G.GenState(rng, lang, {'size': 10})
    names = list(G.VARS)
    has_test = rng.random() < 0.5
    test = G.gen_expr(rng, names, 1) if has_test else None
    kids = []
    for i in range(rng.choice([1, 2, 3, 4])):
        last = i >= 1 and rng.random() < 0.3
        arg = None if last else (G.gen_expr(rng, names, 1) if (not has_test or rng.random() < 0.9) else None)
        dn = 'otherwise' if last else 'when'
        body = G.gen_nodes(st, names, 1, True) or [['t', 'b']]
        if lang == 'markup' and rng.random() < 0.6:
            extra = [d for d in ['if', 'with', 'content', 'strip'] if rng.random() < 0.15]
            dirs = [[dn, arg]] + [[d, G.gen_dir(st, d, names, True)[0]] for d in extra]
            rng.shuffle(dirs)
            kids.append(['el', rng.choice(G.TAGS), [], dirs, body])
        else:
            kids.append(['d', dn, arg, body])
        if last:
            break
    if lang == 'markup' and rng.random() < 0.5:
        node = ['el', rng.choice(G.TAGS), [], [['choose', test]], kids]
    else:
        node = ['d', 'choose', test, kids]
    nodes = G.canon_nodes([['t', 'a'], node, ['e', ['v', 'x']]])
    if lang == 'oldtext':
        nodes, _ = G.fix_old(nodes)
    return nodes


def gen_macro_case(rng, lang):
    """parameter binding of a macro: a definition whose body shows every parameter (the value and
    whether it is None), with defaults on the last parameters, followed by calls that pass each
    parameter by position, by keyword or not at all — values of every type, None and the other
    falsy values first of all; the names of the parameters shadow context data"""
    st = G.GenState(rng, lang, {'size': 8})
    names = list(G.VARS)
    params = rng.sample(['x', 'y', 'p', 'q'], rng.choice([1, 2, 2, 3]))
    nd = min(len(params), rng.choice([0, 1, 1, 2, 3]))
    dflts = []
    for i in range(len(params) - nd, len(params)):
        if i > 0 and rng.random() < 0.35:
            # a default that names an earlier parameter: it is evaluated in the context of the call, where that
            # name means the outer variable (or nothing), not the argument just bound
            dflts.append([params[i], ['v', rng.choice(params[:i])]])
        else:
            dflts.append([params[i], G.gen_default(rng, names)])
    arg = ['f', params] + ([dflts] if nd else [])
    body = []
    for pn in params:
        body += [['t', 'a'], ['e', ['v', pn]], ['t', '.'], ['e', ['eq', ['v', pn], ['n']]]]
    if rng.random() < 0.3:
        body += G.gen_nodes(st, names + params, 1, False)
    if lang == 'markup' and rng.random() < 0.5:
        node = ['el', rng.choice(G.TAGS), [], [['def', arg]], body]
    else:
        node = ['d', 'def', arg, body]
    macro = ['f', params, nd]
    calls = []
    for _ in range(rng.choice([1, 2, 3])):
        call = G.gen_call(rng, names, macro, 'c', 1)
        if rng.random() < 0.25:
            # inside a scope that binds a parameter name: the default / the argument is evaluated there
            calls.append(['d', 'with', [[rng.choice(params), G.gen_argval(rng, names, 0)]], [call]])
        else:
            calls.append(call)
        calls.append(['t', ' '])
    nodes = G.canon_nodes([node] + calls + [['e', ['v', params[0]]]])
    if lang == 'oldtext':
        nodes, _ = G.fix_old(nodes)
    return nodes


def corpus_cases():
    """minimised past disagreements / defects (corpus/C04/*.json), run first by shard 0"""
    import glob, os
    root = os.path.dirname(os.path.dirname(os.path.dirname(os.path.abspath(__file__))))
    out = []
    for p in sorted(glob.glob(os.path.join(root, 'corpus', 'C04', '*.json'))):
        with open(p) as f:
            out.append(json.load(f))
    return out


def gen_case(rng, i):
    lang = rng.choice(LANGS)
    r = rng.random()
    if r < 0.12:
        nodes = gen_choose_case(rng, lang)
    elif r < 0.24:
        nodes = gen_macro_case(rng, lang)
    else:
        nodes = G.gen_template(rng, lang, size=rng.choice([6, 10, 14, 20]), depth=rng.choice([2, 3, 3, 4]),
                               replace_mix=True)
    data = G.gen_data(rng)
    # the engine's default is strict lookup (an unbound name raises); lenient makes it an Undefined value
    return {'lang': lang, 'nodes': nodes, 'data': data, 'lookup': rng.choice(['strict', 'lenient'])}


def features(case):
    c = {}
    for n in G.walk(case['nodes']):
        if n[0] == 'el':
            k = len(n[3])
            c['el-dirs:%d' % min(k, 4)] = c.get('el-dirs:%d' % min(k, 4), 0) + 1
            for d, _ in n[3]:
                c['attr:' + d] = c.get('attr:' + d, 0) + 1
        elif n[0] == 'd':
            c['elem:' + n[1]] = c.get('elem:' + n[1], 0) + 1
        elif n[0] == 'c':
            c['call'] = c.get('call', 0) + 1
    # how the parameters of the macros are bound by the calls (by the name of the macro: a name is
    # defined at most once)
    macros = {}
    for n in G.walk(case['nodes']):
        args = [n[2]] if (n[0] == 'd' and n[1] == 'def') else \
            [a for d, a in n[3] if d == 'def'] if n[0] == 'el' else []
        for a in args:
            macros[a[0]] = (list(a[1]), dict((k, v) for k, v in G.def_defaults(a)))
            c['def:params:%d' % min(len(a[1]), 3)] = c.get('def:params:%d' % min(len(a[1]), 3), 0) + 1
            if G.def_defaults(a):
                c['def:with-defaults'] = c.get('def:with-defaults', 0) + 1
    for n in G.walk(case['nodes']):
        if n[0] == 'c' and n[1] in macros:
            params, dflt = macros[n[1]]
            kw = dict((k, v) for k, v in G.call_kwargs(n))
            for i, pn in enumerate(params):
                if i < len(n[2]):
                    how, val = 'positional', n[2][i]
                elif pn in kw:
                    how, val = 'keyword', kw[pn]
                else:
                    how, val = ('default' if pn in dflt else 'missing'), None
                key = 'bind:%s%s%s' % (how, ':param-has-default' if (pn in dflt and how != 'default') else '',
                                       ':None' if val == ['n'] else ':falsy' if val in G.FALSY else '')
                c[key] = c.get(key, 0) + 1
            if len(n[2]) > len(params):
                c['bind:surplus-positional'] = c.get('bind:surplus-positional', 0) + 1
    return c


def nontrivial_key(case, base):
    """a case is non-trivial when it renders, carries at least two directives and the output is
    not empty"""
    if base[0] != 'ok' or not base[1]:
        return None
    nd = 0
    for n in G.walk(case['nodes']):
        nd += len(n[3]) if n[0] == 'el' else (1 if n[0] == 'd' else 0)
    if nd < 2:
        return None
    return json.dumps([case['lang'], case.get('lookup', 'lenient'), case['nodes'], case['data']], sort_keys=True)


def applicable_checks(case):
    lang = case['lang']
    out = ['doc', 'scope', 'for', 'if', 'with', 'choose']
    if lang == 'markup':
        out += ['elemform', 'replace']
    return out


# --------------------------------------------------------------------------
# text templates end to end from their source text (Model/TmplRaw.lean)

def raw_model(cases):
    """-> list of (prepared stream from the source | None, rendered | None)"""
    if not cases:
        return []
    lines = []
    for c in cases:
        src = G.source(c['lang'], c['nodes'])
        strict = lookup_of(c) == 'strict'
        lines.append(proto.line(Atom('C04'), Atom('rawcompile'), Atom(c['lang']), strict, src))
        lines.append(proto.line(Atom('C04'), Atom('rawrender'), Atom(c['lang']), strict, FUEL, src, G.data_w(c['data'])))
    ans = proto.run_lines(lines)
    out = []
    for i in range(len(cases)):
        a, b = ans[2 * i], ans[2 * i + 1]
        v = proto.dec(a)
        if str(v[0]) == 'ok':
            comp = ['ok', model_stream(v[1] if len(v) > 1 else [])]
        else:
            comp = None if str(v[1]) == 'unmodelled' else ['err', str(v[1])]
        vb = proto.dec(b)
        if str(vb[0]) == 'err' and str(vb[1]) in ('badsyntax', 'baddirective'):
            rend = ['err', 'syntax']
        else:
            rend = model_out(b)
        out.append((comp, rend))
    return out


def print_model(cases):
    """the Lean specification printer (Model/TmplPrint.lean): -> list of (source, hypothesis of the
    inversion theorem holds for the reading mode of the case) | None"""
    if not cases:
        return []
    out = []
    for a, c in zip(proto.run_lines(model_lines('printtext', cases)), cases):
        if a in ('unmodelled', 'bad-op', 'bad-line'):
            out.append(None)
            continue
        v = proto.dec(a)
        out.append((v[0], str(v[2] if lookup_of(c) == 'strict' else v[1]) == 'T'))
    return out


# --------------------------------------------------------------------------
# character level: the scanners of the text templates (Model/TmplScan.lean)

def escape_old(s):
    """old syntax: a backslash in front of every '#' (OldTextTemplate turns '\\#' into '#')"""
    return s.replace('#', '\\#')


def print_old(toks):
    out = []
    for t in toks:
        if t[0] == 'T':
            out.append(escape_old(t[1]))
        elif t[0] == 'D':
            out.append('%s#%s%s\n' % (t[3], t[1], ' ' + t[2] if t[2] else ''))
        else:
            out.append('##%s\n' % t[1])
    return ''.join(out)


def gen_old_toks(rng):
    """old syntax: texts end a line, a directive is a line `[blanks]#cmd value`, a comment a line `##…`"""
    out = []
    TEXT = ['a\n', 'b c\n', '#if x\n', '  #end\n', '## k\n', 'x # y\n', '\\\n', '\n', '\u00e9\n', '#\n', '\\#z\n', '#include q\n']
    def body(depth, n):
        for _ in range(n):
            r = rng.random()
            if r < 0.45:
                if not out or out[-1][0] != 'T':
                    out.append(['T', ''.join(rng.choice(TEXT) for _ in range(rng.randint(1, 3)))])
            elif r < 0.75 and depth < 3:
                cmd = rng.choice(R.CT_OPEN)
                out.append(['D', cmd, rng.choice(['x', 'x == 1', 'i in xs', 'y=1', 'f(a)', "'#'", '']), rng.choice(['', '', ' ', '\t '])])
                body(depth + 1, rng.randint(0, 3))
                out.append(['D', 'end', rng.choice(['', '', cmd]), rng.choice(['', ' '])])
            else:
                out.append(['C', rng.choice([' c', 'c', '', '#', ' $x ${', 'if x', ' #end'])])
    body(0, rng.randint(1, 6))
    return out


def expected_old(toks):
    conv = []
    for t in toks:
        if t[0] == 'D':
            conv.append(['D', t[1], t[2] if t[2] else None])
        else:
            conv.append(t)
    return R.expected_stream(conv)


def _balanced(toks):
    depth = 0
    for t in toks:
        if t[0] == 'D':
            depth += -1 if t[1] == 'end' else 1
            if depth < 0:
                return False
    return depth == 0


def valid_scan_case(case):
    """is the case one of the grammar of the scanner oracles (shrinking must not leave it)"""
    import re
    check = case.get('check')
    ok_str = lambda x: isinstance(x, str)
    if check == 'scanverb':
        return case.get('lang') in ('newtext', 'oldtext') and ok_str(case.get('text')) and case['text'] != '' and '$' not in case['text']
    toks = case.get('tokens')
    if not isinstance(toks, list) or not toks:
        return False
    new = check == 'scanprint'
    prev = None
    for i, t in enumerate(toks):
        if not isinstance(t, list) or not t or t[0] not in ('T', 'D', 'C') or not all(ok_str(x) for x in t):
            return False
        if t[0] == 'T':
            if len(t) != 2 or not t[1] or '$' in t[1] or prev == 'T':
                return False
            if new and t[1].endswith('\\') and i + 1 < len(toks):
                return False
            if not new and not t[1].endswith('\n'):
                return False
        elif t[0] == 'D':
            if len(t) != (3 if new else 4) or t[1] not in R.CT_OPEN + ['end']:
                return False
            v = t[2]
            if v != v.strip() or re.search(r'^\s|\s$', v) or '%}' in v or (not new and ('\n' in v or '\r' in v)):
                return False
            if not new and t[3].strip(' \t'):
                return False
        else:
            if len(t) != 2 or (new and '#}' in t[1]) or (not new and ('\n' in t[1] or '\r' in t[1])):
                return False
        prev = t[0]
    return _balanced(toks)


def _rstrip_vals(evs):
    return [['SUB', e[1], e[2].rstrip() if e[2] is not None else None, _rstrip_vals(e[3])] if e[0] == 'SUB' else e for e in evs]


def scan_oracle(case):
    """the documented constructs mean themselves, on the real code (no model involved: the source is
    the printed form of the tokens, the expectation their nesting)"""
    def bad(what, expected, observed):
        return {'case': case, 'what': what, 'expected': expected, 'observed': observed}
    check = case['check']
    if not valid_scan_case(case):
        return None
    if check == 'scanprint':
        toks = case['tokens']
        src = R.print_new([toks])[0]
        if src != case.get('source', src):
            return None
        got = R.real_parse('newtext', src)
        exp = ['ok', R.expected_stream(toks)]
        if got != exp:
            return bad('a printed well-formed token list (documented escapes) is parsed to itself', exp, got)
    elif check == 'scanprint-old':
        toks = case['tokens']
        got = R.real_parse('oldtext', print_old(toks))
        if got[0] == 'ok':
            # the line break the old syntax leaves at the end of a directive value is not documented
            got = ['ok', _rstrip_vals(got[1])]
        exp = ['ok', expected_old(toks)]
        if got != exp:
            return bad('old syntax: text with \\# escapes, #directive lines and ## comment lines are parsed to themselves', exp, got)
    elif check == 'scanverb':
        text, lang = case['text'], case['lang']
        if '$' in text or not text:
            return None
        src = R.print_new([[['T', text]]])[0] if lang == 'newtext' else escape_old(text)
        got = R.render(lang, src)
        if got != ['ok', text]:
            return bad('text outside directives reaches the output verbatim (modulo the documented escapes)', ['ok', text], got)
    return None


VERB_CH = ['a', ' ', '\n', '\\', '{', '%', '#', '}', '{%', '{#', '%}', '#}', '\r\n', '\u00e9', 'if', '\\\n', '.', '\t', '##', '\n#', '\n  #end', '\\#']


def scan_part(res, rng, n):
    """correspondence of the character-level scanners + their oracles on the real code"""
    for lang in ('newtext', 'oldtext'):
        srcs = [R.gen_raw(rng, lang) for _ in range(n)]
        for src, (mt, mp) in zip(srcs, R.model_answers(lang, srcs)):
            rt = R.real_tokens(lang, src)
            rp = R.real_parse(lang, src)
            res.evaluations += 1
            res.streams['text-scan-tokens'] = res.streams.get('text-scan-tokens', 0) + 1
            res.count('scan:%s:%s' % (lang, rp[0] if rp[0] == 'ok' else rp[1]))
            for t in rt:
                res.count('scan-tok:%s:%s' % (lang, t[0]))
            if mt != rt:
                res.disagreements.append({'stream': 'text-scan-tokens', 'case': {'lang': lang, 'source': src},
                                          'model': repr(mt)[:600], 'real': repr(rt)[:600], 'source': src})
            if mp is None:
                res.count('scan:unmodelled')
                continue
            res.streams['text-scan-parse'] = res.streams.get('text-scan-parse', 0) + 1
            if mp != rp:
                res.disagreements.append({'stream': 'text-scan-parse', 'case': {'lang': lang, 'source': src},
                                          'model': repr(mp)[:600], 'real': repr(rp)[:600], 'source': src})
            elif rp[0] == 'ok' and sum(1 for t in rt if t[0] != 'T') >= 2 and len(src) < 200:
                res.nontrivial.add(json.dumps(['scan', lang, src]))
    # custom delimiters of NewTextTemplate: the parameterised scanner (Model/TmplScanD.lean) against finditer of
    # the expression compiled for these delimiters and against the event stream of _parse
    dcases = [R.gen_raw_delims(rng) for _ in range(n)]
    for (dl, src), ans in zip(dcases, R.model_answers_d(dcases)):
        res.count('delims:%s' % ' '.join(dl))
        if ans is None:
            res.count('delims-scan:outside-side-condition')
            continue
        mt, mp = ans
        rt = R.real_tokens_d(dl, src)
        rp = R.real_parse_d(dl, src)
        res.evaluations += 1
        res.streams['text-scan-tokens-delims'] = res.streams.get('text-scan-tokens-delims', 0) + 1
        if mt != rt:
            res.disagreements.append({'stream': 'text-scan-tokens-delims', 'case': {'lang': 'newtext', 'delims': list(dl), 'source': src},
                                      'model': repr(mt)[:600], 'real': repr(rt)[:600], 'source': src})
        if mp is None:
            res.count('delims-scan:unmodelled')
            continue
        res.streams['text-scan-parse-delims'] = res.streams.get('text-scan-parse-delims', 0) + 1
        if mp != rp:
            res.disagreements.append({'stream': 'text-scan-parse-delims', 'case': {'lang': 'newtext', 'delims': list(dl), 'source': src},
                                      'model': repr(mp)[:600], 'real': repr(rp)[:600], 'source': src})
    toks = [R.gen_ctoks(rng) for _ in range(n)]
    for t, src in zip(toks, R.print_new(toks)):
        res.count('check:scanprint')
        f = scan_oracle({'check': 'scanprint', 'lang': 'newtext', 'tokens': t, 'source': src})
        if f:
            res.failures.append(f)
    for _ in range(n):
        res.count('check:scanprint-old')
        f = scan_oracle({'check': 'scanprint-old', 'lang': 'oldtext', 'tokens': gen_old_toks(rng)})
        if f:
            res.failures.append(f)
    for _ in range(n):
        lang = rng.choice(['newtext', 'oldtext'])
        text = ''.join(rng.choice(VERB_CH) for _ in range(rng.randint(1, 8)))
        res.count('check:scanverb')
        f = scan_oracle({'check': 'scanverb', 'lang': lang, 'text': text})
        if f:
            res.failures.append(f)


def shard(arg):
    seed, idx, n, use_model = arg
    warnings.simplefilter('ignore')
    rng = random.Random('%s/%s/C04' % (seed, idx))
    res = Result()
    cases = [gen_case(rng, i) for i in range(n)]
    if idx == 0:
        cases = corpus_cases() + cases
        n = len(cases)
        res.count('corpus', n - len(cases) + len(corpus_cases()))
    docs = doc_answers([dict(c, check='doc') for c in cases]) if use_model else [None] * n
    impls = impl_answers(cases, exact=True) if use_model else [(None, None)] * n
    preps = prepared_model(cases) if use_model else [None] * n
    for c, pm in zip(cases, preps):
        if pm is None:
            continue
        pr = prepared_real(c['lang'], c['nodes'], lookup_of(c))
        res.streams['prepared-stream'] = res.streams.get('prepared-stream', 0) + 1
        if pr != pm:
            res.disagreements.append({'stream': 'prepared-stream', 'case': c, 'model': repr(pm)[:800],
                                      'real': repr(pr)[:800], 'source': G.source(c['lang'], c['nodes'])})
    for c, doc, (impl, impl_ex) in zip(cases, docs, impls):
        real_ex = []
        base = G.render_real(c['lang'], c['nodes'], c['data'], lookup=lookup_of(c), exact=real_ex)
        res.count('lookup:' + lookup_of(c))
        res.evaluations += 1
        res.count('lang:' + c['lang'])
        res.count('real:' + (base[0] if base[0] == 'ok' else base[1]))
        for k, v in features(c).items():
            res.count(k, v)
        key = nontrivial_key(c, base)
        if key and len(key) < 3000:
            res.nontrivial.add(key)
        for check in applicable_checks(c):
            case = dict(c, check=check)
            if check == 'doc':
                if doc is None:
                    res.count('doc:unmodelled')
                    continue
                f = oracle_case(case, doc=doc)
            else:
                f = oracle_case(case)
            res.count('check:' + check)
            if check in ('elemform', 'replace') and {'elemform': t_elem_form, 'replace': t_replace}[check](c['nodes']) != c['nodes']:
                res.count('applied:' + check)
            elif check in ('for', 'if', 'with', 'choose') and t_toplevel(c['nodes'], c['data'], check)[1] > 0:
                res.count('applied:' + check)
            if f:
                res.failures.append(f)
        if use_model:
            if impl is None:
                res.count('impl:unmodelled')
            else:
                res.streams['impl-render'] = res.streams.get('impl-render', 0) + 1
                b2 = base if base[0] != 'err' else ['err', ERRMAP.get(base[1], base[1])]
                if base[0] != 'invalid' and impl != b2:
                    res.disagreements.append({'stream': 'impl-render', 'case': c, 'model': repr(impl)[:600],
                                              'real': repr(b2)[:600], 'source': G.source(c['lang'], c['nodes'])})
                elif base[0] == 'ok' and impl_ex is not None:
                    # event by event: chunking of text and the Markup flag included
                    res.streams['impl-exact-events'] = res.streams.get('impl-exact-events', 0) + 1
                    if impl_ex != real_ex:
                        res.disagreements.append({'stream': 'impl-exact-events', 'case': c, 'model': repr(impl_ex)[:600],
                                                  'real': repr(real_ex)[:600], 'source': G.source(c['lang'], c['nodes'])})
    if use_model:
        tcases = [(c, pm) for c, pm in zip(cases, preps) if c['lang'] != 'markup']
        for (c, pm), (comp, rend) in zip(tcases, raw_model([c for c, _ in tcases])):
            if comp is None or rend is None:
                res.count('raw-text:unmodelled')
                continue
            # the reader of the source text against the AST the source was printed from (model = model)
            res.streams['raw-text-compile'] = res.streams.get('raw-text-compile', 0) + 1
            if pm is not None and comp != pm:
                res.disagreements.append({'stream': 'raw-text-compile', 'case': c, 'model': repr(comp)[:600],
                                          'real': repr(pm)[:600], 'source': G.source(c['lang'], c['nodes'])})
            base = G.render_real(c['lang'], c['nodes'], c['data'], lookup=lookup_of(c))
            if base[0] == 'invalid':
                continue
            b2 = base if base[0] != 'err' else ['err', ERRMAP.get(base[1], base[1])]
            res.streams['raw-text-render'] = res.streams.get('raw-text-render', 0) + 1
            if rend != b2:
                res.disagreements.append({'stream': 'raw-text-render', 'case': c, 'model': repr(rend)[:600],
                                          'real': repr(b2)[:600], 'source': G.source(c['lang'], c['nodes'])})
        # the specification printer the inversion theorem (raw_print_roundtrip) is about = the printer
        # that wrote the sources of every other stream; and how many generated templates are inside
        # the hypothesis of the theorem
        tc = [c for c in cases if c['lang'] != 'markup']
        for c, pm in zip(tc, print_model(tc)):
            if pm is None:
                res.count('print-text:unmodelled')
                continue
            res.streams['print-text'] = res.streams.get('print-text', 0) + 1
            src = G.source(c['lang'], c['nodes'])
            if pm[0] != src:
                res.disagreements.append({'stream': 'print-text', 'case': c, 'model': repr(pm[0])[:600],
                                          'real': repr(src)[:600], 'source': src})
            res.count('inversion-hypothesis:%s:%s' % (c['lang'], 'inside' if pm[1] else 'outside'))
        scan_part(res, random.Random('%s/%s/C04-scan' % (seed, idx)), min(600, max(20, (3 * n) // 8)))
    res.samples = [{'lang': c['lang'], 'source': G.source(c['lang'], c['nodes']), 'data': c['data']} for c in cases[:2]]
    return res


def run(ctx):
    nsh = 16
    per = ctx.n(160, 3000)
    res = Result()
    for r in pmap('harness.props.c04', 'shard', [(ctx.seed, i, per, True) for i in range(nsh)]):
        res.merge(r)
    res.rule = ('templates from the directive grammar (both text syntaxes and markup; free depth, order and co-occurrence '
                'of directives on one element) x data (falsy/truthy values of every type, empty/singleton/longer '
                'iterables, shadowing names); non-trivial = renders without error, carries >= 2 directives and '
                'produces output; distinct by canonical JSON of (language, template, data)')
    res.samples = res.samples[:6]
    return res


def search(ctx, res, broken):
    found = []
    for d in res.disagreements[:100]:
        if 'nodes' not in d['case']:
            continue
        for check in applicable_checks(d['case']):
            try:
                f = oracle_case(dict(d['case'], check=check))
            except Exception:
                f = None
            if f:
                found.append(f)
    if found:
        return found
    for r in pmap('harness.props.c04', 'shard', [(ctx.seed + 1000 + i, i, 600, True) for i in range(16)]):
        found.extend(r.failures)
    return found


def replay(ctx, case):
    warnings.simplefilter('ignore')
    return oracle_case(case)

"""C12 — match templates rewrite exactly the matching elements; hints only optimise.

Oracle on the real code (generated MarkupTemplates, 1–4 py:match templates, all hint combinations):
  ref       the rendered output equals an independent tree-rewriting reference (declaration-order
            pipeline, XSLT-pattern matching on ancestor chains, select() parts) — "exactly the matching
            elements", pass-through, pipeline order, once / recursive as documented
  staged    the same against the whole-document-per-stage reading of "pipeline"
  nonmatch  inserting a template whose path matches nothing never changes the output
  identity  inserting a template whose body reproduces the element never changes the output
  hints     buffer="false" on bodies with at most one select() and once="true" on templates that match
            at most one element (decided by the reference) never change the output
  rref      (real matcher class: documents with attributes, match paths with descendant steps, `//`,
            attribute predicates and unions) the rendered events equal an independent Python reference
            that evaluates the patterns on ancestor chains
Correspondence: the Lean model of `_match` (gdrv) on the generator's own flattening of the template;
streams match-real (the automaton model with the C05/C17 path model as matcher, match paths from
harness/gen_paths.py's grammar) and match-xspec (the Lean specification whose "matches" relation is the
XPath reference semantics of C05, vs the real events).
"""
import copy, json, random
from harness import proto
from harness import gen_c12 as G
from harness import gen_c12_real as R
from harness.framework import Result, pmap
from harness.proto import Atom

PROP = 'C12'
TRUSTED = [
    'modelled, not verified: MarkupTemplate._match/_strip/select closure (markup.py), MatchDirective hint parsing '
    '(directives.py), and of path.py only the test closures of SingleStepStrategy, SimplePathStrategy and '
    'predicate-free GenericStrategy under ignore_context for the generated match paths, plus Path.select for the six body paths '
    '(. node() * text() *|text() name): hand-written Lean model tied by correspondence',
    'not modelled: the XML parser, _flatten/_apply_directives (the generator flattens its own template description: '
    'py:for unrolled, data streams and included files spliced, py:match registrations in place), _include and the loader, the serializer',
    'theorems are parametric in an abstract matcher (state, step; laws: an END undoes its START, updateonly is not read); '
    'the parameter is discharged with the C05/C17 path model (Model/MatchReal.lean, modelled not verified, tied by the streams '
    'match-real and match-xspec): FlagFree for every path, Lawful up to simulation for paths without position tests; '
    'positional predicates are covered by the model and the correspondence, by no tree-rewrite theorem',
    'the XPath reading of a match path is proved for the three strategies and unions (marks_are_xpath_matches_every_strategy: C05 '
    'pattern_matches_eq_xp, pattern_matches_eq_xp_fragments, C17 single_eq_generic in pattern mode) under the static criterion PatternXp '
    '(no position tests, no attribute axis, no leading `.`) on clean element trees (C05 NodeFor); outside it: streams match-real / match-xspec, oracle rref',
    'the location form of the specification (xpForest/patternSel, driver verb xspec) is proved equal to the marks form (mkKids/patternMarks: '
    'xpath_spec_eq_marks_spec) under the same criterion, and tied to the code by correspondence',
    'once="true" in the tree specification: onceList (replace the first match in document order), proved equal to the stage for lawful matchers '
    '(once_replaces_first_match) and driven by the verb `tree` against the code (stream match-spec)',
    'the forest parser of the driver verb `tree` (specification vs code) is unverified plumbing',
    'the push-style (automaton) reading of the generator pipeline for buffer="false" is validated by correspondence, not proved equal to Python generator semantics',
]
ASSUMPTIONS = [
    'match paths: names / * on child and descendant axes, // , optional [n]; reference-based oracles use predicate-free paths '
    '(positional predicates of match patterns count events per test closure, a C05/C17 matter)',
    'no path step relies on the document root element: match templates are registered after the root START has passed '
    '(known finding C12-root-context)',
    'py:match declarations are children of the root (before or between the content), never inside matched content',
    'xi:include (both loader modes) only as a child of the root: a run-time include inside a matched element is the '
    'known finding C12-include-in-match',
    'bodies are literal markup plus select() calls; buffer="false" only with at most one select() (documented requirement)',
    'real-matcher class: documents with unprefixed names and attributes n, m; match paths without variables; the reference '
    'oracles (rref, match-xspec) use the structured sub-grammar (names/*, child, descendant::, //, [@a], [@a="v"], [not(@a)], '
    'unions, a final attribute step), where genshi\'s predicate values are XPath\'s (outside it the recorded C05 findings apply); '
    'the rref oracle skips unions with an attribute-final operand (known finding C12-union-attribute-operand), the correspondence keeps them',
    'repeat oracle: every rendering of one template object must equal the first one (whatever the absolute semantics of a '
    'positional first step, finding C17-pattern-first-step-position)',
]

FUEL = 400000
LAZY_FUEL = 2000     # bounds the nesting of generators, not the length of the stream


# --------------------------------------------------------------------------
# oracle

def _variant(kids, fn, like=None):
    c = {'kids': copy.deepcopy(kids)}
    if like and 'auto_reload' in like:
        c['auto_reload'] = like['auto_reload']
    fn(c)
    return c


def documented_use(case):
    """buffer="false" only on bodies with at most one select() (the documentation requires buffering otherwise)"""
    return all(t.get('buffer', True) or G.body_nsel(t['body']) <= 1 for t in G.case_templates(case))


def has_late_declaration(kids):
    """a match declaration among the children of the root after some content"""
    seen_content = False
    for it in kids:
        if isinstance(it, dict) and 'match' in it:
            if seen_content:
                return True
        else:
            seen_content = True
    return False


def _without_once(kids):
    """the same document with every once="true" switched off (to count how often such a template would fire)"""
    import copy
    k = copy.deepcopy(kids)
    for t in G.case_templates({'kids': k}):
        if t.get('once'):
            G.set_hints(t, once=False)
    return k


def positional(case):
    return any(G.path_has_pos(t['match']) for t in G.case_templates(case))


import re
_NAME = re.compile(r'^[A-Za-z][A-Za-z0-9]*$')


_STEP = r'(?:[A-Za-z][A-Za-z0-9]*|\*)(?:\[[1-9][0-9]?\])?'
_PATH = re.compile(r'^%s(?:(?://|/descendant::|/)%s)*$' % (_STEP, _STEP))


def _ok_path(p):
    return isinstance(p, str) and bool(_PATH.match(p))


def _ok_body(items):
    for b in items:
        if isinstance(b, str):
            continue
        if isinstance(b, dict):
            if set(b) != {'sel'} or not (b['sel'] in G.SEL_WIRE or _NAME.match(b['sel'])):
                return False
        elif not (isinstance(b, list) and len(b) == 2 and isinstance(b[0], str) and _NAME.match(b[0])
                  and isinstance(b[1], list) and _ok_body(b[1])):
            return False
    return True


def _ok_tmpl(t):
    return (isinstance(t.get('match'), str) and _ok_path(t['match']) and isinstance(t.get('body'), list)
            and _ok_body(t['body']) and all(isinstance(t.get(k), bool) for k in ('buffer', 'once', 'recursive'))
            and ('attrs' not in t or G.hint_flags(t['attrs']) == (t['buffer'], t['once'], t['recursive'])))


def _plain(node):
    return isinstance(node, str) or (isinstance(node, list) and all(_plain(k) for k in node[1]))


def _ok_items(items, decl_ok=True):
    for it in items:
        if isinstance(it, str):
            continue
        if isinstance(it, dict):
            if 'match' in it:
                if not decl_ok or not _ok_tmpl(it):
                    return False
            elif 'for' in it:
                if not (isinstance(it['for'], int) and 0 <= it['for'] <= 3 and _ok_items(it['kids'], False)):
                    return False
            elif 'frag' in it:
                if not _ok_items(it['frag'], False) or any(isinstance(x, dict) for x in it['frag']):
                    return False
            elif 'inc' in it:
                if not (isinstance(it['inc'], list) and _ok_items([it['inc']], False) and _plain(it['inc'])):
                    return False
            else:
                return False
        elif not (isinstance(it, list) and len(it) == 2 and isinstance(it[0], str) and _NAME.match(it[0])
                  and isinstance(it[1], list) and _ok_items(it[1], False)):
            return False
    return True


def well_formed(case):
    """a case the generators could have produced (shrinking must not leave the input language):
    declarations are children of the root, at least one of them, names are names, indices in range"""
    try:
        kids = case['kids']
        if not _ok_items(kids) or not isinstance(case.get('auto_reload', False), bool):
            return False
        n = len(G.case_templates({'kids': kids}))
        kind = case['kind']
        if kind in ('ref', 'staged'):
            return n >= 1
        if kind == 'repeat':
            return n >= 1 and case.get('mode') in ('twice', 'interleaved')
        if kind == 'nonmatch':
            return _ok_tmpl(case['tmpl']) and case['tmpl']['match'] in NEVER and 0 <= case['at'] <= len(kids)
        if kind == 'identity':
            return _ok_path(case['path']) and 0 <= case['at'] <= len(kids)
        if kind == 'hints':
            return n >= 1 and all(0 <= i < n for i in case.get('buffer', []) + case.get('once', []))
        return False
    except Exception:
        return False


def _ok_rnode(n):
    return isinstance(n, str) or (isinstance(n, list) and len(n) == 3 and isinstance(n[0], str) and bool(_NAME.match(n[0]))
                                  and isinstance(n[1], list) and all(_ok_rnode(k) for k in n[1])
                                  and isinstance(n[2], list)
                                  and all(isinstance(a, list) and len(a) == 2 and a[0] in R.ANAMES and isinstance(a[1], str)
                                          and '"' not in a[1] for a in n[2])
                                  and len(set(a[0] for a in n[2])) == len(n[2]))


def _ok_spath(sp):
    try:
        return (isinstance(sp, list) and len(sp) >= 1 and all(
            isinstance(st, list) and len(st) >= 1 and all(
                isinstance(x, list) and len(x) == 3 and isinstance(x[1], str)
                and (x[0] in ('child', 'desc', 'dos') or (x[0] == 'attr' and x is st[-1] and len(st) > 1 and x[2] is None))
                and (x[1] == '*' or _NAME.match(x[1]))
                and (x[2] is None or (isinstance(x[2], list) and x[2][0] in ('has', 'eq', 'not') and x[2][1] in R.ANAMES
                                      and len(x[2]) == (3 if x[2][0] == 'eq' else 2)
                                      and all(isinstance(y, str) and '"' not in y for y in x[2])))
                for x in st) and st[0][0] in ('child', 'dos') for st in sp))
    except Exception:
        return False


def rwell_formed(case):
    """a case of the real-matcher class the generator could have produced"""
    try:
        ts, doc = case['tmpls'], case['doc']
        if not (isinstance(ts, list) and len(ts) >= 1 and isinstance(doc, list) and all(_ok_rnode(n) for n in doc)):
            return False
        for i in range(len(doc) - 1):
            if isinstance(doc[i], str) and isinstance(doc[i + 1], str):
                return False
        for t in ts:
            if not (_ok_spath(t.get('spath')) and t.get('match') == R.spath_text(t['spath']) and isinstance(t.get('body'), list)
                    and _ok_body(t['body']) and all(isinstance(t.get(k), bool) for k in ('buffer', 'once', 'recursive'))
                    and 'attrs' not in t):
                return False
            if not t['buffer'] and G.body_nsel(t['body']) > 1:
                return False
        return True
    except Exception:
        return False


def _render_src(src, data):
    from genshi.template import MarkupTemplate
    try:
        return ['ok', MarkupTemplate(src).generate(**data).render('xml', encoding=None)]
    except Exception as e:  # noqa
        return ['err', type(e).__name__]


def oracle_case(case):
    """-> failure dict or None.  `case` = {'kind': …, 'kids': […], …}"""
    if case.get('kind') == 'rawhints':
        # source-level case outside the generator's template vocabulary: the same template text with
        # %(buffer)s replaced by "true" and by "false" must render alike (body calls select() once)
        r0 = _render_src(case['src'] % {'buffer': 'true'}, case.get('data', {}))
        r1 = _render_src(case['src'] % {'buffer': 'false'}, case.get('data', {}))
        if r0 != r1:
            return {'case': case, 'what': 'buffer="false" does not change the output of a body that calls select() at most once',
                    'expected': r0, 'observed': r1}
        return None
    if case.get('kind') == 'rref':
        if not rwell_formed(case):
            return None
        base = {'tmpls': case['tmpls'], 'doc': case['doc']}
        ref, _ = R.reference(base)
        if ref[0] != 'ok':
            return None
        real = R.render_events(base)
        if real != ref:
            return {'case': case, 'what': 'output equals the declaration-order pipeline of tree rewrites, match paths read as '
                    'XPath patterns (descendant steps, attribute predicates, unions) on ancestor chains',
                    'expected': ref, 'observed': real}
        return None
    if not well_formed(case):
        return None
    kind = case['kind']
    base = {'kids': case['kids']}
    if 'auto_reload' in case:
        base['auto_reload'] = case['auto_reload']

    def bad(what, expected, observed):
        return {'case': case, 'what': what, 'expected': expected, 'observed': observed}

    if kind == 'repeat':
        # one template object, several renderings (one after the other, or two consumed in turns): every
        # rendering must give the output of the first one, and the independent expectation where there is one
        outs = G.render_many(base, case['mode'], 'xml')
        for k, o in enumerate(outs[1:]):
            if o != outs[0]:
                return bad('every rendering of one template object rewrites the same elements (rendering %d of mode %s '
                           'differs from the first rendering)' % (k + 2, case['mode']), outs[0], o)
        if not positional(base) and documented_use(base) and 'auto_reload' not in base:
            ref, _ = G.reference(base)
            if ref[0] == 'ok' and outs[0] != ref:
                return bad('output equals the declaration-order pipeline of tree rewrites (ref reference)', ref, outs[0])
        return None
    if kind in ('ref', 'staged'):
        # the template object is rendered twice: both renderings must meet the expectation
        outs = G.render_many(base, 'twice', 'xml')[:2]
        real = outs[0]
        if len(outs) > 1 and outs[1] != outs[0]:
            return bad('every rendering of one template object rewrites the same elements (the second rendering differs '
                       'from the first)', outs[0], outs[1])
        if kind == 'ref':
            ref, _ = G.reference(base, root_visible=bool(case.get('root_visible', False)))
        else:
            ref, _ = G.reference_staged(base)
        if ref[0] != 'ok':
            return None
        if real != ref:
            return bad('output equals the declaration-order pipeline of tree rewrites (%s reference)' % kind, ref, real)
        return None
    if kind == 'nonmatch':
        r0 = G.render_real(base, 'xml')
        v = _variant(case['kids'], lambda c: c['kids'].insert(case['at'], copy.deepcopy(case['tmpl'])), case)
        r1 = G.render_real(v, 'xml')
        if r0 != r1:
            return bad('a template whose path matches no element leaves the output unchanged', r0, r1)
        return None
    if kind == 'identity':
        r0 = G.render_real(base, 'xml')
        t = {'match': case['path'], 'body': [{'sel': '.'}], 'buffer': True, 'once': False, 'recursive': True}
        v = _variant(case['kids'], lambda c: c['kids'].insert(case['at'], t), case)
        r1 = G.render_real(v, 'xml')
        if r0 != r1:
            return bad('a template whose body reproduces the matched element leaves the output unchanged', r0, r1)
        return None
    if kind == 'hints':
        # preconditions decided independently of genshi: select count from the case, match count from the reference
        ts = G.case_templates(base)
        _, fired = G.reference(base)
        for i in case.get('buffer', []):
            if G.body_nsel(ts[i]['body']) > 1:
                return None
        for i in case.get('once', []):
            if fired.get(i, 0) > 1 or positional(base):
                return None
        r0 = G.render_real(base, 'xml')

        def hint(c):
            tv = G.case_templates(c)
            for i in case.get('buffer', []):
                G.set_hints(tv[i], buffer=False)
            for i in case.get('once', []):
                G.set_hints(tv[i], once=True)
        r1 = G.render_real(_variant(case['kids'], hint, case), 'xml')
        if r0 != r1:
            return bad('buffer="false" (body with at most one select) / once="true" (at most one matching element) '
                       'do not change the output', r0, r1)
        return None
    raise ValueError(kind)


# --------------------------------------------------------------------------
# generation

NEVER = ['zz', 'zz/a', 'a/zz', 'zz/descendant::b', 'zz//a', 'b/zz/a', 'zz[1]', '*/zz']


def top_positions(kids):
    return [i for i, it in enumerate(kids) if isinstance(it, dict) and 'match' in it]


def gen_repeat_case(rng):
    """one template object rendered repeatedly / two renderings interleaved; half of the cases carry a
    multi-step match path with a positional predicate on its first step"""
    c = G.rand_case(rng, hints=True, pos=rng.random() < 0.5, late=0.1, gen_markup=0.15, maxsel=2, inc=0.0, targeted=0.0)
    ts = G.case_templates(c)
    for t in ts:
        if not t['buffer'] and G.body_nsel(t['body']) > 1:
            G.set_hints(t, buffer=True)
    if rng.random() < 0.6:
        t = rng.choice(ts)
        t['match'] = G.rand_path_first_pos(rng, G.DOC_NAMES)
        if rng.random() < 0.6:
            # a body that keeps the element visible, so that a wrong match shows
            t['body'] = G.rand_body(rng, rng.choice(['wrap', 'wrapself', 'const']), maxsel=1)
    return dict(c, kind='repeat', mode='interleaved' if rng.random() < 0.35 else 'twice')


def gen_oracle_case(rng):
    r = rng.random()
    if r < 0.14:
        return gen_repeat_case(rng)
    r = rng.random()
    if r < 0.30:
        # reference class: predicate-free paths of every strategy, all hints, late declarations, generated markup
        c = G.rand_case(rng, hints=True, pos=False, late=0.2, gen_markup=0.25, maxsel=2, inc=0.15)
        for t in G.case_templates(c):
            if not t['buffer'] and G.body_nsel(t['body']) > 1:
                G.set_hints(t, buffer=True)
        return dict(c, kind='ref')
    if r < 0.45:
        c = G.rand_case(rng, hints=True, pos=False, late=0.0, gen_markup=0.25, maxsel=2, inc=0.15)
        for t in G.case_templates(c):
            if not t['buffer'] and G.body_nsel(t['body']) > 1:
                G.set_hints(t, buffer=True)
        return dict(c, kind='staged')
    c = G.rand_case(rng, hints=rng.random() < 0.5, pos=rng.random() < 0.3, late=0.1, gen_markup=0.2, maxsel=2, inc=0.1)
    extra = dict((k, v) for k, v in c.items() if k != 'kids')
    for t in G.case_templates(c):
        if not t['buffer'] and G.body_nsel(t['body']) > 1:
            G.set_hints(t, buffer=True)
    kids = c['kids']
    pos = top_positions(kids)
    if r < 0.62:
        t = {'match': rng.choice(NEVER), 'body': G.rand_body(rng, maxsel=1), 'buffer': rng.random() < 0.7,
             'once': rng.random() < 0.3, 'recursive': rng.random() < 0.8}
        return dict(extra, kind='nonmatch', kids=kids, at=rng.choice(pos + [pos[-1] + 1]), tmpl=t)
    if r < 0.78:
        return dict(extra, kind='identity', kids=kids, at=rng.choice(pos + [pos[-1] + 1]),
                    path=G.rand_path(rng, G.DOC_NAMES + ['w', 'x'], pos_ok=rng.random() < 0.15))
    # hints on the unhinted base
    for t in G.case_templates(c):
        G.set_hints(t, buffer=True, once=False)
    n = len(G.case_templates(c))
    buf = [i for i in range(n) if rng.random() < 0.5]
    once = [i for i in range(n) if rng.random() < 0.4]
    return dict(extra, kind='hints', kids=kids, buffer=buf, once=once)


def gen_corr_case(rng):
    """cases for the model: paths of the two modelled strategies, positional predicates included"""
    c = G.rand_case(rng, hints=True, pos=rng.random() < 0.4, late=0.2, gen_markup=0.2, maxsel=2, inc=0.1)
    if rng.random() < 0.7:
        # mostly inside the documented use of buffer="false" (one select); the rest checks that the model
        # also follows the code when a second select() finds the lazily consumed content exhausted
        for t in G.case_templates(c):
            if not t['buffer'] and G.body_nsel(t['body']) > 1:
                G.set_hints(t, buffer=True)
    return c


# --------------------------------------------------------------------------
# correspondence with the Lean model

def model_request(case, verb='run'):
    w = G.wire_items(case)
    if w is None:
        return None
    if verb == 'spec':
        # the Lean specification covers lawful matchers only (no position counters)
        if positional(case) or not documented_use(case):
            return None
        return proto.line(Atom('C12'), Atom('tree'), w)
    return proto.line(Atom('C12'), Atom(verb), FUEL if verb == 'run' else LAZY_FUEL, w)


def decode_model(ans):
    try:
        m = proto.dec(ans)
    except Exception:
        return ['bad', ans[:200]]
    if isinstance(m, Atom):
        return [str(m)]
    if m and m[0] == 'ok':
        return ['ok', [[str(x[0]), x[1]] for x in m[1]], [int(x) for x in m[2]]]
    return [str(x) for x in m]


def compare(cases, res, stream, verb='run'):
    lines, idx = [], []
    for i, c in enumerate(cases):
        l = model_request(c, verb)
        if l is None:
            res.count('model:path-outside-fragment')
            continue
        lines.append(l)
        idx.append(i)
    answers = proto.run_lines(lines)
    for i, ans in zip(idx, answers):
        m = decode_model(ans)
        if m == ['unmodelled']:
            res.count('model:unmodelled')
            continue
        real = G.real_simple_events(cases[i])
        if real[0] == 'ok':
            real = ['ok', [[str(x[0]), x[1]] for x in real[1]]]
        res.streams[stream] = res.streams.get(stream, 0) + 1
        hits = m.pop() if m[0] == 'ok' else None
        if verb == 'spec':
            hits = None
            # `once` templates are in the tree specification too (onceList: the first match in document order)
            once_ts = [k for k, t in enumerate(G.case_templates(cases[i])) if t.get('once')]
            if once_ts:
                res.count('spec:once-template')
                if not positional(cases[i]):
                    _, fired0 = G.reference(dict(cases[i], kids=_without_once(cases[i]['kids'])))
                    if any(fired0.get(k, 0) > 1 for k in once_ts):
                        res.count('spec:once-template:several-matches')
        if hits is not None and not positional(cases[i]) and documented_use(cases[i]):
            # the model's ghost hit counters against the independent reference's firing counts
            ref, fired = G.reference(cases[i])
            if ref[0] == 'ok':
                res.streams['match-hits'] = res.streams.get('match-hits', 0) + 1
                want = [fired.get(k, 0) for k in range(len(hits))]
                if hits != want:
                    res.disagreements.append({'stream': 'match-hits', 'case': {'kind': 'ref', 'kids': cases[i]['kids']},
                                              'model': repr(hits), 'real': 'reference: ' + repr(want)})
        if m != real:
            res.disagreements.append({'stream': stream, 'case': {'kind': 'ref', 'kids': cases[i]['kids']},
                                      'model': repr(m)[:600], 'real': repr(real)[:600]})
            if 'auto_reload' in cases[i]:
                res.disagreements[-1]['case']['auto_reload'] = cases[i]['auto_reload']


def union_with_attr_operand(case):
    """some match path is a union one of whose location paths ends in an attribute step"""
    return any(t.get('spath') and len(t['spath']) > 1 and any(st[-1][0] == 'attr' for st in t['spath']) for t in case['tmpls'])


def compare_real(cases, res):
    """the real-matcher class: model (automaton + path model) vs real events, Lean XPath specification vs real
    events, and the Python reference oracle on the structured cases"""
    lines = []
    for c in cases:
        w = R.wire_items(c)
        lines.append(proto.line(Atom('C12'), Atom('real'), LAZY_FUEL, w))
        # the XPath-reference specification: structured paths only (the richer predicates of gen_paths'
        # grammar reach the recorded C05 findings, where genshi's predicate values are not XPath's)
        if all(t.get('spath') for t in c['tmpls']):
            lines.append(proto.line(Atom('C12'), Atom('xspec'), w))
        else:
            lines.append(proto.line(Atom('C12'), Atom('xspec'), []))
    answers = proto.run_lines(lines)

    def dec(ans):
        try:
            m = proto.dec(ans)
        except Exception:
            return ['bad', ans[:200]]
        if isinstance(m, Atom):
            return [str(m)]
        if m and m[0] == 'ok':
            return ['ok', [[str(x[0])] + [y if not isinstance(y, list) else [list(z) for z in y] for y in x[1:]] for x in m[1]]]
        return [str(x) for x in m]

    for i, c in enumerate(cases):
        real = R.render_events(c)
        res.evaluations += 1
        for t in c['tmpls']:
            R.path_shape(t['match'], res.count)
            res.count('rstrategy:' + ('structured' if t.get('spath') else 'gen_paths'))
        case = dict(c, kind='rref')
        for stream, ans in (('match-real', answers[2 * i]), ('match-xspec', answers[2 * i + 1])):
            m = dec(ans)
            if m == ['unmodelled']:
                res.count('model:%s:unmodelled' % stream)
                continue
            res.streams[stream] = res.streams.get(stream, 0) + 1
            if stream == 'match-xspec' and any(t['once'] for t in c['tmpls']):
                res.count('xspec:once-template')      # xpOnceForest: the first XPath match in document order
            if m != real:
                res.disagreements.append({'stream': stream, 'case': case, 'model': repr(m)[:600], 'real': repr(real)[:600]})
        if union_with_attr_operand(c):
            # known finding C12-union-attribute-operand (the union dispatcher reports one operand per event; the same
            # root as C05-union-attribute-and-owner): correspondence only, the oracle stays outside the defect class
            res.count('rref:skipped:union-with-attribute-operand')
            continue
        ref, fired = R.reference(c)
        if ref[0] == 'ok':
            res.count('oracle:rref')
            if fired:
                key = R.canon(c)
                if len(key) < 1500:
                    res.nontrivial.add(key)
                res.count('rref:some-element-replaced')
            if real != ref:
                res.failures.append({'case': case, 'what': 'output equals the declaration-order pipeline of tree rewrites, match '
                                     'paths read as XPath patterns (descendant steps, attribute predicates, unions) on ancestor chains',
                                     'expected': ref, 'observed': real})


# --------------------------------------------------------------------------

def nontrivial_key(case):
    """a case is non-trivial when some template replaces some element (by the reference)"""
    base = {'kids': case['kids']}
    try:
        ref, fired = G.reference(base)
    except Exception:
        return None
    if ref[0] != 'ok' or not fired:
        return None
    return G.canon(case)


def shard(arg):
    seed, idx, n_oracle, n_corr = arg
    rng = random.Random('%s/%s/C12' % (seed, idx))
    res = Result()
    for _ in range(n_oracle):
        case = gen_oracle_case(rng)
        res.evaluations += 1
        res.count('oracle:' + case['kind'])
        ts = G.case_templates({'kids': case['kids']})
        if case['kind'] == 'repeat':
            res.count('repeat:' + case['mode'])
            if any(G.first_step_positional(t['match']) for t in ts):
                res.count('repeat:first-step-positional-multistep')
        res.count('templates:%d' % len(ts))
        if has_late_declaration(case['kids']):
            # a py:match after some content: the subject of late_registration_applies_from_there_on,
            # lazy_eq_eager_late and (kind hints) buffer_hint_irrelevant_late
            res.count('late-declaration:' + case['kind'])
            if case['kind'] == 'hints' and any(0 <= i < len(ts) for i in case.get('buffer', [])):
                res.count('late-declaration:hints:some-template-unbuffered')
        txt = json.dumps(case['kids'])
        for tag, name in (('"inc"', 'include'), ('"for"', 'py:for'), ('"frag"', 'data-stream')):
            if tag in txt:
                res.count('construct:' + name + (':runtime' if name == 'include' and case.get('auto_reload') else ''))
        for t in ts:
            res.count('strategy:' + G.path_strategy(t['match']))
            if not t.get('buffer', True):
                res.count('hint:buffer=false')
            if t.get('once'):
                res.count('hint:once')
            if not t.get('recursive', True):
                res.count('hint:recursive=false')
        key = nontrivial_key(case)
        if key and len(key) < 1500:
            res.nontrivial.add(key)
        f = oracle_case(case)
        if f:
            res.failures.append(f)
        if len(res.samples) < 2 and key:
            res.samples.append(case)
    cases = [gen_corr_case(rng) for _ in range(n_corr)]
    for c in cases:
        res.evaluations += 1
        key = nontrivial_key({'kind': 'ref', 'kids': c['kids']})
        if key and len(key) < 1500:
            res.nontrivial.add(key)
    compare(cases, res, 'match-eager')
    compare(cases, res, 'match-lazy', 'lazy')
    compare(cases, res, 'match-spec', 'spec')
    n_real = max(1, n_corr // 4)
    rcases = []
    for k in range(n_real):
        if k % 2 == 0:
            rc = R.rand_case(rng, structured=True)
        else:
            rc = R.rand_case(rng, structured=False, positional=rng.random() < 0.3)
        for t in rc['tmpls']:
            if not t['buffer'] and G.body_nsel(t['body']) > 1:
                t['buffer'] = True
        rcases.append(rc)
    compare_real(rcases, res)
    return res


def run(ctx):
    nsh = 16
    per_o = ctx.n(500, 9000)
    per_c = ctx.n(400, 6000)
    res = Result()
    for r in pmap('harness.props.c12', 'shard', [(ctx.seed, i, per_o, per_c) for i in range(nsh)]):
        res.merge(r)
    res.rule = ('generated MarkupTemplates with 1-4 py:match templates (paths of all three strategies, bodies wrap/drop/'
                'duplicate/reproduce/constant/inner/text, hints in all combinations and spellings, late declarations, py:for and '
                'data-stream markup); non-trivial = the independent reference replaces at least one element; distinct by canonical JSON')
    res.samples = res.samples[:6]
    return res


def search(ctx, res, broken):
    found = []
    for d in res.disagreements[:300]:
        if d['case'].get('kind') == 'rref':
            f = oracle_case(d['case'])
            if f:
                found.append(f)
            continue
        for kind in ('ref', 'staged'):
            c = dict(d['case'], kind=kind)
            if positional(c) or not documented_use(c):
                continue
            f = oracle_case(c)
            if f:
                found.append(f)
    if found:
        return found
    for r in pmap('harness.props.c12', 'shard', [(ctx.seed + 1000 + i, i, 3000, 0) for i in range(16)]):
        found.extend(r.failures)
    return found


def replay(ctx, case):
    return oracle_case(case)

"""C03 — template expressions evaluate exactly as Python evaluates them.

Oracle on the real code: `Expression(src, lookup).evaluate(data)` against an independent reference
evaluation of CPython's own parse tree of `src` (a small AST interpreter that states the documented
semantics: Python's operators on the real objects, names resolved local scope -> data -> builtins ->
undefined, attribute/item fallback, strict/lenient undefined). Whenever no documented extension
was exercised the reference itself is cross-checked against CPython's `eval(src, builtins+data)`,
so CPython stays the definition of Python semantics.  A second stream checks expression
boundaries in text (`interpolate`).

Correspondence: the Lean `xform` (Genshi.Py.xform) against the real transformers on the same
trees (wire form of the resulting `ast`), and the Lean model of `interpolation.lex` against the real one."""
import ast, builtins, copy, json, operator, re, warnings
from harness import proto, gen_pyexpr as G, gen_pyeval as CG
from harness.framework import Result, pmap
from harness.proto import Atom

PROP = 'C03'
warnings.simplefilter('ignore', SyntaxWarning)
TRUSTED = [
    'modelled, not verified: genshi/template/eval.py TemplateASTTransformer / ExpressionASTTransformer (Lean Genshi.Py.xform, tied by tree correspondence), LookupBase rules (Lean lookup functions), interpolation.lex (Lean model, tied by correspondence)',
    'CPython is the definition of Python semantics: the theorem is relative to an uninterpreted operator semantics; the reference interpreter of the oracle is cross-checked against eval() on every case that uses no documented extension',
    'compile() of the regenerated source and the byte-code interpreter are exercised, not modelled',
    'modelled, not verified: the concrete value semantics C.sem / C.bindArgs of Model/PyEvalC.lean (operators, containers, call machinery on None/bool/int/str/tuple/list/dict/object/range/generator/closure values), tied to CPython and to genshi on every generated case by the streams ceval-*; outside its domain the model answers unmodelled (counted)',
]
ASSUMPTIONS = [
    'the Lean evaluators capture variables by value: a closure / generator expression created in a comprehension and used after its loop variable was rebound (Python closes over the variable) is not generated for the ceval streams',
    'ceval streams: a case on which CPython gives different outcomes for a list comprehension and for list(<the same generator expression>) is not judged (counted ceval:cpython-inlining-uncertain; CPython 3.12.1 comprehension inlining)',
    'context data keys are ordinary identifiers that do not shadow NotImplemented / Ellipsis (those two names always mean the builtins)',
    'values are compared up to a canonical form: scalars by repr, containers recursively, generators by their items, functions and other objects by type',
    'a case on which the reference (CPython compiling its own tree with the lookups plugged in) and plain eval() disagree although no extension was used is not judged (counted as oracle-uncertain): CPython 3.12.1 raises a spurious UnboundLocalError for a free name that is also the loop variable of a comprehension nested in the iterable of another comprehension inside a lambda',
]

UNBOUND = object()


class Unsupported(Exception):
    pass


class Obj(object):
    """data object with attributes only"""

    def __init__(self, name, attrs):
        self._name = name
        self.__dict__.update(attrs)

    def __repr__(self):
        return '<Obj %s>' % self._name


class ObjItems(Obj):
    """attributes and items (different values), to observe which one an access used"""

    def __init__(self, name, attrs, items):
        Obj.__init__(self, name, attrs)
        self._items = items

    def __getitem__(self, k):
        return self._items[k]


class ObjProp(Obj):
    """a property that raises AttributeError: must propagate, not fall back to items"""
    @property
    def broken(self):
        raise AttributeError('broken')

    def __getitem__(self, k):
        if not isinstance(k, str):
            raise KeyError(k)        # (also keeps `*obj` / iteration finite)
        return 'item:%s' % (k,)


FUNCS = {
    'inc': lambda v=0, *a, **k: (v + 1) if isinstance(v, (int, float)) else v,
    'pair': lambda *a, **k: (a, sorted(k.items())),
    'ident': lambda v=None, **k: v,
}


class Ctx(object):
    """context manager: `with ctx(v) as w` binds w = v + 1 and counts its exits"""
    exits = 0

    def __init__(self, v=0):
        self.v = v

    def __enter__(self):
        return self.v + 1 if isinstance(self.v, int) else self.v

    def __exit__(self, *exc):
        Ctx.exits += 1
        return False

    def __repr__(self):
        return '<Ctx %r>' % (self.v,)


def build_value(spec):
    if isinstance(spec, dict):
        if '$cm' in spec:
            return Ctx
        if '$obj' in spec:
            return Obj(spec.get('name', 'o'), dict((k, build_value(v)) for k, v in spec['$obj'].items()))
        if '$objitems' in spec:
            return ObjItems(spec.get('name', 'oi'), dict((k, build_value(v)) for k, v in spec['$objitems'][0].items()),
                            dict((k, build_value(v)) for k, v in spec['$objitems'][1].items()))
        if '$objprop' in spec:
            return ObjProp('op', dict((k, build_value(v)) for k, v in spec['$objprop'].items()))
        if '$fn' in spec:
            return FUNCS[spec['$fn']]
        if '$tuple' in spec:
            return tuple(build_value(v) for v in spec['$tuple'])
        if '$float' in spec:
            return float(spec['$float'])
        if '$dict' in spec:
            return dict((build_value(k), build_value(v)) for k, v in spec['$dict'])
        raise ValueError(spec)
    if isinstance(spec, list):
        return [build_value(v) for v in spec]
    return spec


def build_data(spec):
    return dict((k, build_value(v)) for k, v in sorted(spec.items()))


def rand_data(rng):
    scal = lambda: rng.choice([0, 1, 2, 3, -1, 7, {'$float': '2.5'}, 'abc', '', 'k', True, None, 10])
    ints = lambda: rng.choice([0, 1, 2, 3, 5, -2])
    d = {}
    for nm in ['a', 'b', 'c', 'x', 'y', 'n']:
        if rng.random() < 0.85:
            d[nm] = ints() if rng.random() < 0.75 else scal()
    if rng.random() < 0.9:
        d['items'] = [ints() for _ in range(rng.randrange(0, 4))] if rng.random() < 0.8 else \
            [[1, 2], [3, 4]]
    if rng.random() < 0.9:
        keys = rng.sample(['a', 'k', 'b', 'x', 'items', 'val'], rng.randrange(0, 4))
        d['d'] = {'$dict': [[k, scal()] for k in keys] + ([[1, 'one']] if rng.random() < 0.3 else [])}
    if rng.random() < 0.9:
        attrs = dict((k, scal()) for k in rng.sample(['a', 'b', 'k', 'val', 'x'], rng.randrange(0, 4)))
        r = rng.random()
        if r < 0.5:
            d['obj'] = {'$obj': attrs}
        elif r < 0.85:
            d['obj'] = {'$objitems': [attrs, dict((k, 'item-' + k) for k in rng.sample(['a', 'k', 'missing', 'val'], 2))]}
        else:
            d['obj'] = {'$objprop': attrs}
    if rng.random() < 0.9:
        d['f'] = {'$fn': rng.choice(sorted(FUNCS))}
    if rng.random() < 0.8:
        d['s'] = rng.choice(['abc', '', 'hello world'])
    if rng.random() < 0.15:
        # context data shadows a builtin: the data wins
        d[rng.choice(['abs', 'max', 'len', 'int'])] = rng.choice([{'$fn': 'inc'}, {'$fn': 'ident'}, 7])
    return d


def full_data(rng):
    """a context in which every name the program generator reads is defined (int-valued where expected)"""
    ints = lambda: rng.choice([0, 1, 2, 3, 5, -2])
    d = dict((nm, ints()) for nm in ['a', 'b', 'c', 'x', 'y', 'n'])
    d['items'] = [ints() for _ in range(rng.randrange(1, 4))]
    d['d'] = {'$dict': [[k, ints()] for k in ['a', 'k', 'b', 'x', 'val']]}
    d['obj'] = {'$obj': dict((k, ints()) for k in ['a', 'b', 'k', 'val', 'x'])}
    d['f'] = {'$fn': 'inc'}
    d['s'] = rng.choice(['abc', '', 'hello world'])
    d['ctx'] = {'$cm': 1}
    return d


# --------------------------------------------------------------------------
# canonical form of results

def canon(v, depth=0):
    from genshi.template.eval import Undefined
    if depth > 6:
        return ['deep']
    if isinstance(v, Undefined):
        return ['Undefined', v._name]
    if v is None or v is Ellipsis or v is NotImplemented or isinstance(v, (bool, int, float, complex, str, bytes, slice, range)):
        # (object addresses inside a str(), e.g. '<function <lambda> at 0x7f..>', are not part of the value)
        if isinstance(v, int) and not isinstance(v, bool) and v.bit_length() > 4096:
            # (beyond the int->str conversion limit: compared by a digest of the binary form)
            import hashlib
            return ['int', 'huge:%d:%s' % (v.bit_length(), hashlib.sha256(v.to_bytes(v.bit_length() // 8 + 2, 'big', signed=True)).hexdigest()[:16])]
        return [type(v).__name__, re.sub(r' at 0x[0-9a-fA-F]+', ' at 0x?', repr(v))]
    if isinstance(v, (list, tuple)):
        return [type(v).__name__, [canon(x, depth + 1) for x in v]]
    if isinstance(v, dict):
        return ['dict', [[canon(k, depth + 1), canon(x, depth + 1)] for k, x in v.items()]]
    if isinstance(v, (set, frozenset)):
        return [type(v).__name__, sorted(json.dumps(canon(x, depth + 1)) for x in v)]
    if isinstance(v, Obj):
        return ['Obj', v._name]
    if type(v).__name__ == 'generator':
        try:
            return ['generator', [canon(x, depth + 1) for x in v]]
        except Exception as e:  # noqa
            return ['generator-raises', type(e).__name__]
    if isinstance(v, type):
        return ['type', v.__name__]
    if callable(v):
        return ['callable']
    return ['object', type(v).__name__]


def outcome(fn):
    try:
        return ['ok', canon(fn())]
    except (RecursionError, Unsupported, TooBig):
        raise
    except Exception as e:  # noqa
        return ['err', type(e).__name__]


# --------------------------------------------------------------------------
# the reference: CPython evaluates its own tree of the expression, with every free name load,
# attribute load and item load replaced by a call to a function stating the documented rule
# (no source is regenerated; bound names of lambdas and comprehensions stay ordinary Python
# variables, determined by Python's scoping rules: parameter defaults and the first iterable of
# a comprehension belong to the enclosing scope)

class TooBig(Exception):
    """the case would compute an astronomically large value; it is skipped before the real code runs it"""


def _size_ok(v):
    if isinstance(v, int) and not isinstance(v, bool):
        return -(1 << 512) < v < (1 << 512)
    if isinstance(v, (str, bytes, list, tuple)):
        return len(v) < 20000
    return True


def _guard(fn, kind):
    def g(l, r):
        if not (_size_ok(l) and _size_ok(r)):
            raise TooBig()
        if kind == 'Pow' and isinstance(l, (int, float, complex)) and isinstance(r, (int, float)):
            if isinstance(r, int) and not -64 <= r <= 64:
                raise TooBig()
            if isinstance(l, int) and not isinstance(l, bool) and not -(1 << 64) < l < (1 << 64):
                raise TooBig()
        if kind == 'LShift' and isinstance(r, int) and r > 256:
            raise TooBig()
        if kind == 'Mult':
            for a, b in ((l, r), (r, l)):
                if isinstance(a, (str, bytes, list, tuple)) and isinstance(b, int) and b * max(1, len(a)) > 20000:
                    raise TooBig()
        return fn(l, r)
    return g


GUARDED = {'Pow': _guard(operator.pow, 'Pow'), 'LShift': _guard(operator.lshift, 'LShift'),
           'Mult': _guard(operator.mul, 'Mult'), 'Add': _guard(operator.add, 'Add')}


def has_slice(s):
    return isinstance(s, ast.Slice) or (isinstance(s, ast.Tuple) and any(isinstance(e, ast.Slice) for e in s.elts))


def _call(name, args):
    return ast.Call(ast.Name(name, ast.Load()), args, [])


class RefTransformer(ast.NodeTransformer):
    def __init__(self):
        self.scopes = []

    def bound(self, name):
        return any(name in s for s in self.scopes)

    def visit_Name(self, node):
        if isinstance(node.ctx, ast.Load) and not self.bound(node.id):
            return _call('__ref_name', [ast.Constant(node.id)])
        return node

    def visit_Attribute(self, node):
        v = self.visit(node.value)
        if isinstance(node.ctx, ast.Load):
            return _call('__ref_attr', [v, ast.Constant(node.attr)])
        return ast.Attribute(v, node.attr, node.ctx)

    def visit_Subscript(self, node):
        v = self.visit(node.value)
        s = self.visit(node.slice)
        if isinstance(node.ctx, ast.Load) and not has_slice(node.slice):
            return _call('__ref_item', [v, s])
        return ast.Subscript(v, s, node.ctx)

    def visit_BinOp(self, node):
        l, r = self.visit(node.left), self.visit(node.right)
        k = type(node.op).__name__
        if k in GUARDED:
            return _call('__ref_bin', [ast.Constant(k), l, r])
        return ast.BinOp(l, node.op, r)

    def visit_Lambda(self, node):
        a = node.args
        names = set(x.arg for x in a.posonlyargs + a.args + a.kwonlyargs)
        for x in (a.vararg, a.kwarg):
            if x is not None:
                names.add(x.arg)
        new = ast.arguments(posonlyargs=a.posonlyargs, args=a.args, vararg=a.vararg, kwonlyargs=a.kwonlyargs,
                            kw_defaults=[None if d is None else self.visit(d) for d in a.kw_defaults], kwarg=a.kwarg,
                            defaults=[self.visit(d) for d in a.defaults])       # enclosing scope
        self.scopes.append(names)
        body = self.visit(node.body)
        self.scopes.pop()
        return ast.Lambda(new, body)

    def target_names(self, t, out):
        if isinstance(t, ast.Name):
            out.add(t.id)
        elif isinstance(t, (ast.Tuple, ast.List)):
            for e in t.elts:
                self.target_names(e, out)
        elif isinstance(t, ast.Starred):
            self.target_names(t.value, out)

    def comp(self, node, fields):
        gens = node.generators
        names = set()
        for g in gens:
            self.target_names(g.target, names)
        first_iter = self.visit(gens[0].iter)           # enclosing scope
        self.scopes.append(names)
        new_gens = []
        for i, g in enumerate(gens):
            it = first_iter if i == 0 else self.visit(g.iter)
            new_gens.append(ast.comprehension(self.visit(g.target), it, [self.visit(c) for c in g.ifs],
                                              getattr(g, 'is_async', 0)))
        vals = [self.visit(getattr(node, f)) for f in fields]
        self.scopes.pop()
        return type(node)(*(vals + [new_gens]))

    def visit_ListComp(self, node):
        return self.comp(node, ['elt'])

    def visit_SetComp(self, node):
        return self.comp(node, ['elt'])

    def visit_GeneratorExp(self, node):
        return self.comp(node, ['elt'])

    def visit_DictComp(self, node):
        return self.comp(node, ['key', 'value'])

    def unsupported(self, node):
        raise Unsupported(type(node).__name__)
    visit_NamedExpr = visit_Await = visit_Yield = visit_YieldFrom = unsupported


class Ref(object):
    def __init__(self, data, strict):
        from genshi.template import eval as ev
        self.data = data
        self.strict = strict
        self.ext = 0          # number of times a documented extension decided the result
        self.Undefined = ev.Undefined
        self.UndefinedError = ev.UndefinedError
        self.UNDEF = ev.UNDEFINED
        self.builtins = builtins.__dict__

    def undefined(self, key, *owner):
        self.ext += 1
        if self.strict:
            raise self.UndefinedError(key, *owner)
        return self.Undefined(key, *owner)

    def name(self, name):
        if name in self.data:
            return self.data[name]
        if name in self.builtins:
            return self.builtins[name]
        return self.undefined(name)

    def attr(self, obj, name):
        try:
            return getattr(obj, name)
        except AttributeError:
            if hasattr(type(obj), name):
                raise
            try:
                v = obj[name]
            except (KeyError, TypeError):
                return self.undefined(name, obj)
            self.ext += 1
            return v

    def item(self, obj, key):
        try:
            return obj[key]
        except (AttributeError, KeyError, IndexError, TypeError):
            if isinstance(key, str):
                v = getattr(obj, key, self.UNDEF)
                if v is self.UNDEF:
                    return self.undefined(key, obj)
                self.ext += 1
                return v
            raise

    def bin(self, kind, l, r):
        return GUARDED[kind](l, r)

    def run(self, tree):
        """evaluate an ast.Expression"""
        new = RefTransformer().visit(copy.deepcopy(tree))
        ast.fix_missing_locations(new)
        code = compile(new, '<reference>', 'eval')
        return eval(code, {'__ref_name': self.name, '__ref_attr': self.attr, '__ref_item': self.item,
                           '__ref_bin': self.bin, '__builtins__': {}})

# --------------------------------------------------------------------------
# oracle

def oracle_scope(case):
    """name resolution against CPython's own compiler: the names it resolves as local (cell, free) variables of
    a lambda / generator expression are the same in the code genshi compiles, and every other name load goes
    through the lookup functions"""
    from harness.props import c13
    st, problems = c13.scope_problems(case['src'], 'eval')
    if st != 'bad':
        return None
    return {'case': case, 'what': "names are resolved as CPython's compiler resolves them: bound names are left alone, every "
                                  'other name load goes through the lookup functions',
            'expected': 'no difference', 'observed': problems[:4]}


def oracle_case(case):
    kind = case.get('kind', 'eval')
    if kind == 'lex':
        return oracle_lex(case)
    if kind == 'scope':
        return oracle_scope(case)
    if kind == 'tmpl':
        return oracle_tmpl(case)
    from genshi.template.eval import Expression
    src, lookup = case['src'], case['lookup']
    try:
        tree = ast.parse(src.strip(), mode='eval')
    except (SyntaxError, ValueError, RecursionError, MemoryError):
        return None
    try:
        expr = Expression(src, lookup=lookup)
    except Exception:  # noqa: rejected at construction, allowed
        return None
    ref = Ref(build_data(case['data']), lookup == 'strict')
    try:
        want = outcome(lambda: ref.run(tree))
    except (Unsupported, TooBig):
        return None
    data = build_data(case['data'])
    got = outcome(lambda: expr.evaluate(data))
    if ref.ext == 0:
        d3 = build_data(case['data'])
        g = dict(builtins.__dict__)
        g.update(d3)
        py = outcome(lambda: eval(compile(tree, '<ref>', 'eval'), g))
        if py != want:
            # the two statements of "what Python computes" disagree, so there is no trustworthy expected
            # value: the case is not judged (counted by classify() as oracle-uncertain).  Seen with CPython
            # 3.12.1's comprehension inlining: inside a lambda, `[j for j in [[b for x in items]] if x]`
            # raises UnboundLocalError for the free name x.
            return None
    if got != want:
        return {'case': case, 'what': 'Expression(%r, lookup=%r).evaluate(data) gives what Python gives (names: data, builtins, undefined; documented attribute/item fallback)' % (src, lookup),
                'expected': want, 'observed': got, 'extensions_used': ref.ext}
    return None


def classify(case):
    """distribution key: outcome class of the reference"""
    if case.get('kind') == 'lex':
        return 'lex'
    from genshi.template.eval import Expression
    try:
        tree = ast.parse(case['src'].strip(), mode='eval')
        Expression(case['src'], lookup=case['lookup'])
    except Exception:  # noqa
        return 'rejected'
    ref = Ref(build_data(case['data']), case['lookup'] == 'strict')
    try:
        o = outcome(lambda: ref.run(tree))
    except Unsupported as e:
        return 'ref-unsupported'
    except TooBig:
        return 'skipped-too-big'
    if ref.ext == 0:
        g = dict(builtins.__dict__)
        g.update(build_data(case['data']))
        try:
            if outcome(lambda: eval(compile(tree, '<ref>', 'eval'), g)) != o:
                return 'oracle-uncertain:reference-vs-eval'
        except (Unsupported, TooBig, RecursionError):
            return 'oracle-uncertain:reference-vs-eval'
    return ('value' if o[0] == 'ok' else 'raises:' + o[1]) + (':ext' if ref.ext else '')


# -- expression boundaries in text

def oracle_lex(case):
    """pre ${src} post  ->  TEXT pre, EXPR src, TEXT post ; $name / $$ likewise"""
    from genshi.template.interpolation import interpolate
    from genshi.template.base import TemplateSyntaxError
    parts = case['parts']
    if case.get('raw'):
        return None
    text, want = '', []
    for p in parts:
        k, s = p
        if k == 't':
            text += s
            if s:
                if want and want[-1][0] == 'TEXT':
                    want[-1][1] += s
                else:
                    want.append(['TEXT', s])
        elif k == 'e':
            text += '${' + s + '}'
            if s.strip():               # an empty ${} yields nothing
                want.append(['EXPR', s.strip()])
        elif k == 'n':
            text += '$' + s
            want.append(['EXPR', s])
        elif k == 'd':
            text += '$$'
            if want and want[-1][0] == 'TEXT':
                want[-1][1] += '$'
            else:
                want.append(['TEXT', '$'])
    try:
        got = [[str(k), (d.source if str(k) == 'EXPR' else d)] for k, d, _ in interpolate(text)]
    except TemplateSyntaxError as e:
        got = ['TemplateSyntaxError']
    except Exception as e:  # noqa
        got = ['err', type(e).__name__]
    if got != want:
        return {'case': case, 'what': 'interpolate(%r) splits text and expressions at the ${...} / $name boundaries' % text,
                'expected': want, 'observed': got}
    return None


# --------------------------------------------------------------------------
# generation

def gen_cases(rng, n):
    cases = []
    eg = G.ExprGen(rng, unsupported=0.01, yield_=False, maxdepth=4)
    tries = 0
    while len(cases) < n and tries < n * 4:
        tries += 1
        eg.bound = []
        eg.maxdepth = rng.choice([2, 3, 3, 4, 5])
        eg.p_undef = rng.choice([0.0, 0.0, 0.05, 0.15])
        typed = rng.random() < 0.6
        tree = eg.int_expr(0) if typed else eg.expr(0)
        src = G.unparse_ok(ast.Expression(tree), 'eval')
        if src is None or not in_hypothesis(src):
            continue
        data = rand_data(rng)
        if typed and rng.random() < 0.8:
            for nm in ['a', 'b', 'c', 'x', 'y', 'n']:      # mostly-defined, int-valued context
                if not isinstance(data.get(nm), int) or isinstance(data.get(nm), bool):
                    data[nm] = rng.choice([0, 1, 2, 3, 5, -2])
        cases.append({'kind': 'eval', 'src': src, 'lookup': rng.choice(['strict', 'lenient']), 'data': data})
    return cases


# -- attribute / item priority: both accesses exist, Python's own meaning must win

DICT_ATTRS = ['keys', 'items', 'values', 'get', 'copy', 'update', 'pop']
WRAPS = ['%s', '%s', '[%s for i in items]', '(lambda p: %s)(1)', '%s if a else %s', '(%s, a)', 'f(%s)', 'len([%s])',
         'sum(1 for j in [%s])', '[%s][0]']


def priority_cases(rng, n):
    """expressions in which attribute access and item access BOTH succeed with different results:
    (a) plain dicts whose keys are names of dict methods, read with dot notation (and called),
    (b) objects with an attribute x and an item 'x' of different values read as o.x,
    (c) the same objects read as o['x'] (and the one-sided fall-backs next to them)"""
    cases = []
    scal = lambda: rng.choice([0, 1, 2, 7, 'abc', 'k', None, True])
    for _ in range(n):
        data = rand_data(rng)
        for nm in ('a', 'items'):
            data.setdefault(nm, 1 if nm == 'a' else [1, 2])
        data.setdefault('f', {'$fn': 'ident'})
        shape = rng.choice(['dict-method', 'dict-method', 'dict-method', 'both-attr', 'both-item', 'both-mixed'])
        if shape == 'dict-method':
            nm = rng.choice(['d', 'row'])
            coll = rng.sample(DICT_ATTRS, rng.randrange(1, 4))
            plain = rng.sample(['a', 'b', 'k'], rng.randrange(0, 3))
            keys = coll + plain
            rng.shuffle(keys)
            data[nm] = {'$dict': [[k, scal()] for k in keys]}
            m = rng.choice(coll)
            forms = ['%s.%s' % (nm, m), '%s[%r]' % (nm, m), '(%s.%s, %s[%r])' % (nm, m, nm, m)]
            if m in ('keys', 'items', 'values'):
                forms += ['sorted(%s.%s(), key=str)' % (nm, m), 'list(%s.%s())' % (nm, m), 'len(%s.%s())' % (nm, m)] * 2
            elif m == 'get':
                forms += ['%s.get(%r)' % (nm, rng.choice(keys)), '%s.get("zz", 5)' % nm] * 2
            elif m == 'copy':
                forms += ['%s.copy()' % nm] * 2
            elif m == 'pop':
                forms += ['%s.pop("zz", 3)' % nm]
            core = rng.choice(forms)
        else:
            shared = rng.sample(['x', 'k', 'val', 'a'], rng.randrange(1, 3))
            attrs = dict((k, rng.choice([1, 2, 'attr-' + k])) for k in shared)
            its = dict((k, 'item-' + k) for k in shared)
            attrs['only_attr'] = 5
            its['only_item'] = 'item-only'
            data['obj'] = {'$objitems': [attrs, its]}
            k = rng.choice(shared)
            if shape == 'both-attr':
                core = rng.choice(['obj.%s' % k, 'obj.%s' % k, 'obj.only_item', '(obj.%s, obj.only_attr)' % k])
            elif shape == 'both-item':
                core = rng.choice(['obj[%r]' % k, 'obj[%r]' % k, 'obj["only_attr"]', '(obj[%r], obj["only_item"])' % k])
            else:
                core = rng.choice(['(obj.%s, obj[%r])' % (k, k), 'obj.%s == obj[%r]' % (k, k), '[obj[%r], obj.%s]' % (k, k)])
        w = rng.choice(WRAPS)
        src = w % ((core,) * w.count('%s'))
        cases.append({'kind': 'eval', 'src': src, 'lookup': rng.choice(['strict', 'lenient']), 'data': data, 'shape': 'priority:' + shape})
    return cases


# -- lambdas with every parameter kind, CALLED (positional, keyword, star arguments): which parameter receives which
#    argument / default is decided by the regenerated `arguments` node (seeded change C03-4, missed before: the
#    generators never called a lambda that has more than one keyword-only parameter)

def lambda_call_cases(rng, n):
    """`(lambda p, q=D, /, r=D, *rest, lo=D, hi, **kw: BODY)(ARGS)`: positional-only, ordinary, keyword-only parameters
    with defaults in every admissible pattern (kw_defaults with holes: a keyword-only parameter WITH a default before one
    WITHOUT), *args / **kw, called with positional, keyword, * and ** arguments (mostly admissible; some calls are
    wrong on purpose: the TypeError must be the same); the body shows which parameter got which value"""
    cases = []
    for _ in range(n):
        pool = ['p', 'q', 'r', 'u', 'v', 'w', 'lo', 'hi', 'sep']
        rng.shuffle(pool)
        npo, nar, nko = rng.choice([0, 0, 1, 2]), rng.choice([0, 1, 1, 2]), rng.choice([0, 1, 2, 2, 3, 3])
        po = [pool.pop() for _ in range(npo)]
        ar = [pool.pop() for _ in range(nar)]
        ko = [pool.pop() for _ in range(nko)]
        va = 'rest' if rng.random() < 0.3 else None
        ka = 'kw' if rng.random() < 0.3 else None
        dexpr = lambda: rng.choice(['a', 'b', 'x', '10', '20', 'n + 1', 'y * 2', "'d'", 'a + b', 'None', '-1', 'nope', 'items'])
        ndef = rng.randrange(0, npo + nar + 1) if rng.random() < 0.7 else 0
        pdef = dict((nm, dexpr()) for nm in (po + ar)[npo + nar - ndef:])
        kdef = dict((nm, dexpr()) for nm in ko if rng.random() < 0.5)
        ps = []
        for i, nm in enumerate(po):
            ps.append(nm + ('=' + pdef[nm] if nm in pdef else ''))
        if po:
            ps.append('/')
        for nm in ar:
            ps.append(nm + ('=' + pdef[nm] if nm in pdef else ''))
        if va:
            ps.append('*' + va)
        elif ko:
            ps.append('*')
        for nm in ko:
            ps.append(nm + ('=' + kdef[nm] if nm in kdef else ''))
        if ka:
            ps.append('**' + ka)
        names = po + ar + ko
        r = rng.random()
        if r < 0.6 or not names:
            body = '(' + ''.join(nm + ', ' for nm in names) + (va + ', ' if va else '') + ('sorted(%s.items()), ' % ka if ka else '') + ')'
        elif r < 0.8:
            body = ' + '.join('%s * %d' % (nm, 10 ** i) for i, nm in enumerate(names))
        else:
            body = '[%s for i in range(2)]' % rng.choice(names)
        aexpr = lambda: rng.choice(['1', '2', '3', 'a', 'b', 'c', 'x', 'a + 1', 'n', "'s'", 'items', 'None', 'zz'])
        # an admissible call
        pos_params = po + ar
        need = npo + nar - ndef
        npos_given = rng.randrange(min(need, len(pos_params)), len(pos_params) + 1) if rng.random() < 0.7 else max(npo, min(need, len(pos_params)))
        npos_given = max(npos_given, min(npo - sum(1 for nm in po if nm in pdef), npo))
        args = [aexpr() for _ in range(npos_given)]
        if va and rng.random() < 0.6:
            args += [aexpr() for _ in range(rng.randrange(1, 3))] if npos_given == len(pos_params) else []
        kws = []
        for nm in pos_params[npos_given:]:
            if nm in ar and (nm not in pdef or rng.random() < 0.5):
                kws.append('%s=%s' % (nm, aexpr()))
        for nm in ko:
            if nm not in kdef or rng.random() < 0.5:
                kws.append('%s=%s' % (nm, aexpr()))
        rng.shuffle(kws)
        if ka and rng.random() < 0.6:
            kws.append('%s=%s' % (rng.choice(['z1', 'z2', 'extra']), aexpr()))
        star = False
        if args and rng.random() < 0.15:
            k = rng.randrange(0, len(args))
            args = args[:k] + ['*[%s]' % ', '.join(args[k:])]
            star = True
        if kws and rng.random() < 0.12:
            kws = ['**{%s}' % ', '.join('%r: %s' % tuple(kw.split('=', 1)) for kw in kws)]
            star = True
        wrong = None
        if rng.random() < 0.12:
            wrong = rng.choice(['drop', 'unknown', 'extra-pos', 'dup'])
            if wrong == 'drop' and (args or kws):
                (args if args and (not kws or rng.random() < 0.5) else kws).pop()
            elif wrong == 'unknown':
                kws.append('nokw=1')
            elif wrong == 'extra-pos':
                args = args + ['7'] * 3
            elif wrong == 'dup' and ar and npos_given >= len(pos_params) and not star:
                kws.append('%s=0' % ar[-1])
        lam = '(lambda %s: %s)' % (', '.join(ps), body)
        call = '%s(%s)' % (lam, ', '.join(args + kws))
        w = rng.choice(['%s', '%s', '%s', '[%s for j in items]', '(lambda g: %s)(1)', '(%s, a)', 'len([%s])', '%s if a else 0',
                        '(lambda fn: fn)(%s)'])
        if w == '(lambda fn: fn)(%s)':
            # the function passed around first, called afterwards
            src = '(lambda fn: fn(%s))(%s)' % (', '.join(args + kws), lam)
        else:
            src = w % call
        data = rand_data(rng)
        for nm in ['a', 'b', 'c', 'x', 'y', 'n']:
            if rng.random() < 0.9 and (not isinstance(data.get(nm), int) or isinstance(data.get(nm), bool)):
                data[nm] = rng.choice([0, 1, 2, 3, 5, -2])
        data.setdefault('items', [1, 2])
        holes = [nm in kdef for nm in ko]
        shape = 'lamcall:' + ('kwhole' if any(holes[i] and not all(holes[i:]) for i in range(len(holes))) else
                              'kwonly' if ko else 'plain') + ('+po' if po else '') + ('+va' if va else '') + ('+ka' if ka else '') + \
                ('+star' if star else '') + ('+wrong' if wrong else '')
        cases.append({'kind': 'eval', 'src': src, 'lookup': rng.choice(['strict', 'lenient']), 'data': data, 'shape': shape})
    return cases


LOOKUP_POOL = ['x', 'k', 'a', 'keys', 'items', 'get', 'values', 'p', 'missing']


def gen_lookup_objects(rng, n):
    """descriptions of record-like objects (Model/PyLookupObj.lean): (kind, attrs, cls, items), biased towards
    names that exist both as an attribute and as an item"""
    out = []
    for _ in range(n):
        if rng.random() < 0.4:
            keys = rng.sample(LOOKUP_POOL, rng.randrange(0, 5))
            items = [[k, rng.randrange(1, 50)] for k in keys]
            cls = [[m, 9000 + i] for i, m in enumerate(LOOKUP_POOL) if hasattr(dict, m)]
            desc = ['dict', [], cls, items]
        else:
            names = rng.sample(LOOKUP_POOL, rng.randrange(0, 5))
            cls = []
            for m in rng.sample(LOOKUP_POOL, rng.randrange(0, 3)):
                cls.append([m, None if rng.random() < 0.4 else rng.randrange(100, 150)])
            props = set(m for m, v in cls if v is None)
            attrs = [[k, rng.randrange(1, 50)] for k in names if k not in props]     # (a property would shadow it)
            if rng.random() < 0.75:
                src = names if rng.random() < 0.6 else rng.sample(LOOKUP_POOL, rng.randrange(0, 5))
                items = [[k, rng.randrange(50, 99)] for k in src]
            else:
                items = None
            desc = ['obj', attrs, cls, items]
        present = sorted(set([a for a, _ in desc[1]] + [m for m, _ in desc[2]] + [i for i, _ in (desc[3] or [])]))
        r = rng.random()
        key = rng.choice(present) if present and r < 0.6 else rng.choice(LOOKUP_POOL) if r < 0.93 else rng.randrange(0, 3)
        out.append({'kind': 'lookup', 'obj': desc, 'key': key, 'which': rng.choice(['attr', 'item']),
                    'strict': rng.random() < 0.5})
    return out


def build_lookup_object(desc):
    kind, attrs, cls, items = desc
    if kind == 'dict':
        return dict((k, v) for k, v in items)
    ns = {}
    for m, v in cls:
        if v is None:
            def raiser(self, _m=m):
                raise AttributeError(_m)
            ns[m] = property(raiser)
        else:
            ns[m] = v
    if items is not None:
        table = dict((k, v) for k, v in items)
        ns['__getitem__'] = lambda self, k, _t=table: _t[k]
    o = type('O', (object,), ns)()
    o.__dict__.update(dict((k, v) for k, v in attrs))
    return o


def real_lookup(case):
    from genshi.template import eval as ev
    cls = ev.StrictLookup if case['strict'] else ev.LenientLookup
    o = build_lookup_object(case['obj'])
    try:
        if case['which'] == 'attr':
            v = cls.lookup_attr(o, case['key'])
        else:
            v = cls.lookup_item(o, (case['key'],))
    except Exception as e:  # noqa
        return [Atom('err'), type(e).__name__]
    if isinstance(v, ev.Undefined):
        return [Atom('undefined'), v._name]
    if isinstance(v, int):
        return [Atom('ok'), Atom(str(v))]
    nm = getattr(v, '__name__', None)
    if nm in LOOKUP_POOL and case['obj'][0] == 'dict':
        return [Atom('ok'), Atom(str(9000 + LOOKUP_POOL.index(nm)))]       # a bound method of dict
    return [Atom('ok'), Atom('other')]


def compare_lookup(cases, res):
    """Lean lookupAttr / lookupItem on the concrete object world vs LookupBase.lookup_attr / lookup_item"""
    lines, meta = [], []
    for c in cases:
        if c['which'] == 'attr' and not isinstance(c['key'], str):
            continue
        kind, attrs, cls, items = c['obj']
        lines.append(proto.line(Atom('C03'), Atom('lookup'), Atom(c['which']), bool(c['strict']),
                                [Atom('obj'), attrs, cls, items], c['key']))
        meta.append(c)
    for c, ans in zip(meta, proto.run_lines(lines)):
        if ans == 'unmodelled':
            res.count('model:lookup:unmodelled')
            continue
        res.streams['lookup-rules'] = res.streams.get('lookup-rules', 0) + 1
        model, real = proto.dec(ans), real_lookup(c)
        kind, attrs, cls, items = c['obj']
        k = c['key']
        has_attr = any(a == k for a, _ in attrs) or any(m == k and v is not None for m, v in cls)
        has_item = items is not None and any(i == k for i, _ in items)
        res.count('lookup:%s:%s' % (c['which'], 'both' if has_attr and has_item else 'attr-only' if has_attr else
                                    'item-only' if has_item else 'neither'))
        if has_attr and has_item:
            res.nontrivial.add('lookup:%s:both:%s:%s' % (c['which'], kind, k))
        if model != real:
            res.disagreements.append({'stream': 'lookup-rules', 'case': c, 'model': repr(model), 'real': repr(real)})


def in_hypothesis(src):
    return True


LEX_EXPRS = ['a', 'a + 1', '{"k": 1}["k"]', '"}"', "'${'", 'd["a"]', '{1: {2: 3}}[1][2]', '"""}"""', "f(x, '}')", 'x if y else "{"',
             '[i for i in items]', 'a.b', ' a ', "'\\''", '"\\"}"', '{}', 'dict(a=1)', "'a' '}'", 'r"\\\\"', "b'}'"]
LEX_TEXT = ['', ' ', 'hey ', 'x{y}z', '}', '{', 'a.b', '\n', 'é', '"', "'", '#', '1 $ 2 ', 'cost: ']
LEX_NAMES = ['a', 'a.b', 'foo.bar.baz', '_x', 'a1', 'x.y1']


LEX_ALPHA = ['${', '${', '${', '$', '$', '{', '}', '}', "'", '"', '#', '\\', ' ', '\n', 'a', 'b', '.', '1', '_', '(', ')', '+', ':', ',', '\t', 'x', '[', ']', '!', '?', '`', '\r']


def gen_lex_raw(rng, n):
    """arbitrary short texts over an alphabet rich in $ { } quotes # backslash (model correspondence only:
    the boundary oracle has nothing to say about malformed text)"""
    out = []
    for _ in range(n):
        out.append({'kind': 'lex', 'raw': True, 'parts': [['r', ''.join(rng.choice(LEX_ALPHA) for _ in range(rng.randrange(1, 14)))]]})
    return out


def gen_lex(rng, n):
    out = []
    for _ in range(n):
        parts = []
        for _ in range(rng.randrange(1, 6)):
            r = rng.random()
            if r < 0.4:
                t = rng.choice(LEX_TEXT)
                parts.append(['t', t])
            elif r < 0.75:
                parts.append(['e', rng.choice(LEX_EXPRS)])
            elif r < 0.9:
                parts.append(['n', rng.choice(LEX_NAMES)])
                parts.append(['t', rng.choice([' ', '-', ' x', '!', ')'])])
            else:
                parts.append(['d', ''])
                parts.append(['t', rng.choice([' ', '5', 'x', ''])])
        # the documented forms only: a `$` in literal text must be followed by a blank or end (else it is markup)
        ok = True
        for i, p in enumerate(parts):
            if p[0] == 't' and '$' in p[1]:
                nxt = parts[i + 1] if i + 1 < len(parts) else None
                if p[1].rstrip(' ').endswith('$') and nxt is not None and nxt[0] != 't':
                    ok = False
        if ok:
            out.append({'kind': 'lex', 'parts': parts})
    return out


HAND = [
    ('(lambda *, lo=0, hi=10, x: (lo, hi, x))(lo=1, x=5)', {}), ('(lambda *, lo=a, hi=b, x: (lo, hi, x))(x=5)', {'a': 0, 'b': 10}),
    ('(lambda first, *rest, pad="-", width: (first, rest, pad, width))(1, 2, width=n)', {'n': 7}),
    ('(lambda p, q=1, /, r=2, *rest, lo=3, hi, **kw: (p, q, r, rest, lo, hi, sorted(kw.items())))(0, hi=a, z=1)', {'a': 4}),
    ('(lambda a, b=2, *, c=3: (a, b, c))(1)', {}), ('(lambda *, x, lo=0: (lo, x))(x=5)', {}),
    ('(-2) ** 2', {}), ('(-a) ** 2', {'a': 3}), ('(not a) == b', {'a': 0, 'b': 1}), ('(not a) + 1', {'a': 0}),
    ('(-items)[0]', {'items': [1]}), ('x >= (not y)', {'x': 1, 'y': 0}), ('1e999', {}), ('(lambda a=a: a)()', {'a': 5}),
    ('(lambda a, /: a)(1)', {}), ('(lambda *, k=a: k)()', {'a': 2}), ('[x for x in x]', {'x': [1, 2]}),
    ('[y for x in items for y in x]', {'items': [[1], [2]]}), ('d.a', {'d': {'$dict': [['a', 1]]}}), ('obj["a"]', {'obj': {'$obj': {'a': 1}}}),
    ('d["a" + "b"]', {'d': {'$dict': []}}), ('d[-1]', {'d': {'$dict': []}}), ('items[-1]', {'items': [1, 2]}), ('nope', {}), ('nope.x', {}),
    ('d.missing', {'d': {'$dict': []}}), ('obj.missing', {'obj': {'$obj': {}}}), ('d["missing"]', {'d': {'$dict': []}}),
    ('items[5]', {'items': []}), ('obj.broken', {'obj': {'$objprop': {}}}), ('not nope', {}), ('nope or 1', {}), ('[i for i in nope]', {}),
    ('f(*items, **d)', {'f': {'$fn': 'pair'}, 'items': [1], 'd': {'$dict': [['k', 2]]}}), ('a if b else c', {'a': 1, 'b': 0, 'c': 2}),
    ('a < b < c', {'a': 1, 'b': 2, 'c': 3}), ('sum(i * i for i in items if i)', {'items': [0, 1, 2]}), ('{**d, "z": 1}', {'d': {'$dict': [['k', 2]]}}),
    ('sorted(d.keys())', {'d': {'$dict': [['keys', 1], ['b', 2]]}}), ('d.keys', {'d': {'$dict': [['keys', 1]]}}), ('d["keys"]', {'d': {'$dict': [['keys', 1]]}}),
    ('list(row.items())', {'row': {'$dict': [['items', 3], ['a', 1]]}}), ('d.get("b")', {'d': {'$dict': [['get', 0], ['b', 2]]}}),
    ('(obj.x, obj["x"])', {'obj': {'$objitems': [{'x': 1}, {'x': 'item-x'}]}}), ('obj.y', {'obj': {'$objitems': [{'x': 1}, {'y': 'item-y'}]}}),
    ('obj["x"]', {'obj': {'$objitems': [{'x': 1}, {'y': 'item-y'}]}}),
    ('Ellipsis', {}), ('...', {}), ('x[...]', {'x': {'$dict': []}}), ('items[1:][0]', {'items': [1, 2]}), ('items[::2]', {'items': [1, 2, 3]}),
]


def nontrivial_key(case, cls):
    if case.get('kind') == 'lex':
        return 'lex:' + ''.join(p[0] for p in case['parts'])
    try:
        tree = ast.parse(case['src'], mode='eval')
    except SyntaxError:
        return None
    kinds = sorted(set(type(n).__name__ for n in ast.walk(tree)) - {'Load', 'Store', 'Expression'})
    if len(kinds) < 3 or cls in ('rejected', 'ref-unsupported'):
        return None
    return case['lookup'] + ':' + cls + ':' + ','.join(kinds)


def lex_text(case):
    text = ''
    for k, s_ in case['parts']:
        text += {'t': s_, 'e': '${' + s_ + '}', 'n': '$' + s_, 'd': '$$', 'r': s_}[k]
    return text


def real_lex(text):
    from genshi.template.interpolation import lex
    from genshi.template.base import TemplateSyntaxError
    try:
        return [Atom('ok'), [[Atom('T') if e else Atom('F'), c] for e, c in lex(text, [None, -1, 0], None)]]
    except TemplateSyntaxError:
        return Atom('err')


def _listify(node):
    """the transformer builds some sequence fields as tuples (the `(k,)` of `_lookup_item`); `ast.NodeTransformer`
    and `ast.walk` only descend into lists"""
    if isinstance(node, ast.AST):
        for f in node._fields:
            v = getattr(node, f, None)
            if isinstance(v, tuple):
                v = list(v)
                setattr(node, f, v)
            if isinstance(v, list):
                for x in v:
                    _listify(x)
            else:
                _listify(v)
    return node


def compare_model(cases, res):
    """Lean xform vs the real ExpressionASTTransformer (trees), Lean lex vs interpolation.lex"""
    from genshi.template import eval as ev
    lines, meta = [], []
    for c in cases:
        if c.get('kind') == 'lex':
            text = lex_text(c)
            lines.append(proto.line(Atom('C03'), Atom('lex'), text))
            meta.append(('lex', c, real_lex(text)))
            continue
        try:
            node = ev._parse(c['src'], 'eval')
            req = proto.line(Atom('C03'), Atom('xform'), G.to_wire(node.body))
        except RecursionError:
            res.count('model:recursion-limit')
            continue
        except SyntaxError:
            continue
        try:
            want = [Atom('ok'), G.to_wire(ev.ExpressionASTTransformer().visit(copy.deepcopy(node)).body)]
        except RecursionError:
            res.count('model:recursion-limit')
            continue
        except Exception as e:  # noqa: the real transformer never raises on a parsed tree
            want = Atom('raises:' + type(e).__name__)
        lines.append(req)
        meta.append(('xform', c, want))
        if isinstance(want, list):
            # the rewriting undone (Lean unxf on the real transformed tree) gives back the tree that was parsed:
            # the executable form of xform_invertible, and the tie of the oracle helper c13._Unrewrite to unxf
            from harness.props import c13
            try:
                back = c13._Unrewrite().visit(_listify(ev.ExpressionASTTransformer().visit(copy.deepcopy(node))))
                lines.append(proto.line(Atom('C03'), Atom('unxf'), want[1]))
                meta.append(('unxf', c, ([Atom('ok'), G.to_wire(back.body)], [Atom('ok'), G.to_wire(node.body)])))
            except RecursionError:
                pass
    answers = proto.run_lines(lines)
    for (what, c, want), ans in zip(meta, answers):
        if ans == 'unmodelled':
            res.count('model:%s:unmodelled' % what)
            continue
        res.streams[what] = res.streams.get(what, 0) + 1
        try:
            model = proto.dec(ans)
        except Exception:  # noqa
            model = Atom(ans)
        if what == 'lex':
            res.count('model:lex:' + ('err' if want == 'err' else 'ok'))
        if what == 'unxf':
            py_back, orig = want
            reserved = any(x in c['src'] for x in ('_lookup_', '__data__'))
            if model != py_back:
                res.disagreements.append({'stream': 'unxf-vs-_Unrewrite', 'case': c, 'model': repr(model)[:700], 'real': repr(py_back)[:700]})
            elif model != orig and not reserved:
                res.disagreements.append({'stream': 'unxf-roundtrip', 'case': c, 'model': repr(model)[:700], 'real': repr(orig)[:700]})
            continue
        if model != want:
            res.disagreements.append({'stream': what, 'case': c, 'model': repr(model)[:700], 'real': repr(want)[:700]})


# --------------------------------------------------------------------------
# the concrete Lean evaluator (Model/PyEvalC.lean) against genshi and against CPython

class _Uninline(ast.NodeTransformer):
    def visit_ListComp(self, node):
        self.generic_visit(node)
        return ast.Call(ast.Name('__ref_list', ast.Load()), [ast.GeneratorExp(node.elt, node.generators)], [])


def _run_uninlined(ref, tree):
    new = RefTransformer().visit(copy.deepcopy(tree))
    new = _Uninline().visit(new)
    ast.fix_missing_locations(new)
    code = compile(new, '<reference-uninlined>', 'eval')
    return eval(code, {'__ref_name': ref.name, '__ref_attr': ref.attr, '__ref_item': ref.item, '__ref_bin': ref.bin,
                       '__ref_list': list, '__builtins__': {}})


def ceval_real(case):
    """what genshi computes, what the reference (CPython on its own tree + documented lookups) computes, what plain
    eval computes when no extension was used; each as a canonical outcome (None: not available)"""
    from genshi.template.eval import Expression
    src, lookup = case['src'], case['lookup']
    tree = ast.parse(src.strip(), mode='eval')
    try:
        expr = Expression(src, lookup=lookup)
    except Exception:  # noqa
        return None
    ref = Ref(build_data(case['data']), lookup == 'strict')
    try:
        want = outcome(lambda: ref.run(tree))
    except (Unsupported, TooBig):
        return None
    # CPython 3.12 inlines list comprehensions; 3.12.1 then resolves some names wrongly (see ASSUMPTIONS).  The same
    # tree with every list comprehension written as list(<generator expression>) (never inlined, same meaning) must
    # give the same outcome, else CPython is no reference for this case.
    ref2 = Ref(build_data(case['data']), lookup == 'strict')
    try:
        want2 = outcome(lambda: _run_uninlined(ref2, tree))
    except (Unsupported, TooBig):
        return None
    if CG.norm_outcome(want2) != CG.norm_outcome(want):
        return 'cpython-inlining-uncertain'
    got = outcome(lambda: expr.evaluate(build_data(case['data'])))
    py = None
    if ref.ext == 0:
        g = dict(builtins.__dict__)
        g.update(build_data(case['data']))
        py = outcome(lambda: eval(compile(tree, '<ref>', 'eval'), g))
    return {'genshi': CG.norm_outcome(got), 'ref': CG.norm_outcome(want), 'eval': py and CG.norm_outcome(py), 'ext': ref.ext}


def compare_ceval(cases, res):
    """stream `ceval`: the Lean evaluator run (a) with the documented lookup rules on the parsed tree and (b) Python-style
    on the rewritten tree (globals __data__ / _lookup_*), against Expression.evaluate of the real genshi, against CPython
    evaluating its own tree with the documented lookups plugged in, and (no extension used) against plain eval()"""
    lines, meta = [], []
    for c in cases:
        try:
            real = ceval_real(c)
            tree = ast.parse(c['src'].strip(), mode='eval')
            wire = G.to_wire(tree.body)
        except RecursionError:
            res.count('ceval:recursion-limit')
            continue
        if real is None or isinstance(real, str):
            res.count('ceval:' + (real or 'rejected-or-skipped'))
            continue
        dw = CG.data_wire(c['data'])
        st = c['lookup'] == 'strict'
        lines.append(proto.line(Atom('C03'), Atom('ceval'), False, st, dw, wire))
        lines.append(proto.line(Atom('C03'), Atom('ceval'), True, st, dw, wire))
        meta.append((c, real))
    answers = proto.run_lines(lines)
    for k, (c, real) in enumerate(meta):
        outs = []
        for ans in answers[2 * k:2 * k + 2]:
            if ans.startswith('unmodelled'):
                outs.append(None)
                continue
            outs.append(CG.model_outcome(proto.dec(ans)))
        gs, py = outs
        res.evaluations += 1
        if gs is None or py is None:
            res.count('ceval:unmodelled' + ('-fuel' if 'unmodelled-fuel' in answers[2 * k:2 * k + 2] else ''))
            if (gs is None) != (py is None):
                res.count('ceval:unmodelled-one-side')
            continue
        res.streams['ceval'] = res.streams.get('ceval', 0) + 1
        cls = ('value' if gs[0] == 'ok' else 'raises:' + gs[1]) + (':ext' if real['ext'] else '')
        res.count('ceval:' + cls)
        for f in c.get('feat', []):
            res.count('ceval-feat:' + f)
        if c.get('feat'):
            res.nontrivial.add('ceval|%s|%s|%s' % (c['lookup'], cls, ','.join(c['feat'])))
        case = {'kind': 'eval', 'src': c['src'], 'lookup': c['lookup'], 'data': c['data']}
        if gs != py:
            res.disagreements.append({'stream': 'ceval-xform', 'case': case, 'model': repr(py)[:500], 'real': 'documented semantics in the model: ' + repr(gs)[:500]})
        if gs != real['genshi']:
            res.disagreements.append({'stream': 'ceval-genshi', 'case': case, 'model': repr(gs)[:500], 'real': repr(real['genshi'])[:500]})
        if gs != real['ref']:
            res.disagreements.append({'stream': 'ceval-cpython-ref', 'case': case, 'model': repr(gs)[:500], 'real': repr(real['ref'])[:500]})
        if real['eval'] is not None and real['eval'] == real['ref'] and gs != real['eval']:
            res.disagreements.append({'stream': 'ceval-cpython-eval', 'case': case, 'model': repr(gs)[:500], 'real': repr(real['eval'])[:500]})
        if real['eval'] is not None:
            res.count('ceval:plain-eval-compared')


# --------------------------------------------------------------------------
# expressions observed through templates: ${...}, py:with, py:for targets

class _Rec(object):
    def __init__(self):
        self.vals = []

    def __call__(self, v):
        # canonical form at once: a generator object is consumed while the names bound by py:with / py:for still are
        # in the context (afterwards its free names would resolve in the outer frames)
        self.vals.append(canon(v))
        return ''


def tmpl_observe(case):
    """the value(s) the template hands to `rec`, as a canonical outcome (None: template rejected at construction)"""
    from genshi.template import MarkupTemplate
    data = build_data(case['data'])
    rec = _Rec()
    data['rec'] = rec
    try:
        t = MarkupTemplate(case['src'], lookup=case['lookup'])
    except Exception:  # noqa
        return None

    try:
        t.generate(**data).render('xml')
    except (RecursionError, Unsupported, TooBig):
        raise
    except Exception as e:  # noqa
        return CG.norm_outcome(['err', type(e).__name__])
    if case['form'] == 'D':
        return CG.norm_outcome(['ok', ['list', list(rec.vals)]])
    if len(rec.vals) != 1:
        return ['err', 'recorded %d values' % len(rec.vals)]
    return CG.norm_outcome(['ok', rec.vals[0]])


def tmpl_expr_case(case):
    data = dict(case['data'])
    data.update(case.get('bind') or {})
    return {'kind': 'eval', 'src': case['expr'], 'lookup': case['lookup'], 'data': data}


def oracle_tmpl(case):
    """the expression inside a template evaluates to what Python gives for it (names bound by py:with / py:for are
    context names)"""
    got = tmpl_observe(case)
    if got is None:
        return None
    real = ceval_real(tmpl_expr_case(case))
    if real is None or isinstance(real, str):
        return None
    if real['eval'] is not None and real['eval'] != real['ref']:
        return None
    if got != real['ref']:
        return {'case': case, 'what': 'the expression %r evaluated inside the template %r (lookup=%s) gives what Python gives for it' % (case['expr'], case['src'], case['lookup']),
                'expected': real['ref'], 'observed': got, 'extensions_used': real['ext']}
    return None


def compare_templates(cases, res):
    """stream `ceval-template`: the Lean evaluator on the equivalent plain expression vs what the template computed"""
    lines, meta = [], []
    for c in cases:
        res.evaluations += 1
        try:
            f = oracle_tmpl(c)
            got = tmpl_observe(c)
            ec = tmpl_expr_case(c)
            wire = G.to_wire(ast.parse(ec['src'].strip(), mode='eval').body)
        except RecursionError:
            res.count('tmpl:recursion-limit')
            continue
        if f:
            res.failures.append(f)
        if got is None:
            res.count('tmpl:rejected')
            continue
        res.count('tmpl:form-%s:%s' % (c['form'], 'value' if got[0] == 'ok' else 'raises:' + got[1]))
        lines.append(proto.line(Atom('C03'), Atom('ceval'), False, c['lookup'] == 'strict', CG.data_wire(ec['data']), wire))
        meta.append((c, got))
    answers = proto.run_lines(lines)
    for (c, got), ans in zip(meta, answers):
        if ans.startswith('unmodelled'):
            res.count('tmpl:unmodelled')
            continue
        gs = CG.model_outcome(proto.dec(ans))
        res.streams['ceval-template'] = res.streams.get('ceval-template', 0) + 1
        res.nontrivial.add('tmpl|%s|%s|%s|%s' % (c['form'], c['lookup'], gs[0] if gs[0] == 'ok' else gs[1], ','.join(c.get('feat', []))))
        if gs != got:
            res.disagreements.append({'stream': 'ceval-template', 'case': c, 'model': repr(gs)[:500], 'real': repr(got)[:500]})


def shard(arg):
    import random, sys, resource
    sys.setrecursionlimit(3000)
    try:
        resource.setrlimit(resource.RLIMIT_AS, (6 << 30, 6 << 30))   # safety net: MemoryError instead of the OOM killer
    except (ValueError, OSError):
        pass
    seed, idx, n, nlex = arg
    rng = random.Random('%s/%s/C03' % (seed, idx))
    res = Result()
    cases = gen_cases(rng, n)
    if idx == 0:
        cases = [{'kind': 'eval', 'src': s, 'lookup': lk, 'data': d} for s, d in HAND for lk in ('strict', 'lenient')] + cases
    cases += priority_cases(rng, max(20, n // 8))
    cases += lambda_call_cases(rng, max(30, n // 6))
    cases += gen_lex(rng, nlex)
    cases += gen_lex_raw(rng, nlex * 4)
    for c in cases:
        res.evaluations += 1
        try:
            cls = classify(c)
            res.count('outcome:' + cls)
            if c.get('shape'):
                res.count(c['shape'] + ':' + cls.split(':')[0])
            k = nontrivial_key(c, cls)
            if k:
                res.nontrivial.add(k)
            f = oracle_case(c)
        except RecursionError:
            res.count('recursion-limit')
            continue
        if f:
            res.failures.append(f)
    # name resolution against the compiler (same expressions, no data needed)
    from harness.props import c13
    seen = set()
    for c in cases:
        if c.get('kind', 'eval') != 'eval' or c['src'] in seen:
            continue
        seen.add(c['src'])
        res.evaluations += 1
        try:
            st, problems = c13.scope_problems(c['src'], 'eval')
        except RecursionError:
            res.count('scope:recursion-limit')
            continue
        res.count('scope:' + st)
        if st == 'bad':
            res.failures.append(oracle_scope({'kind': 'scope', 'src': c['src']}))
    compare_model(cases, res)
    compare_lookup(gen_lookup_objects(rng, max(100, n // 2)), res)
    ccases = CG.gen_ceval_cases(rng, max(150, min(n // 2, 4000)))
    if idx == 0:
        ccases = [{'kind': 'ceval', 'src': s_, 'lookup': lk, 'data': d_, 'feat': ['hand']} for s_, d_ in CG.HAND_CEVAL for lk in ('strict', 'lenient')] + ccases
    # the called-lambda shapes of the oracle also through the model (context names outside the model's domain dropped)
    for c in lambda_call_cases(rng, max(40, min(n // 10, 1000))):
        names = set(re.findall(r'[A-Za-z_][A-Za-z0-9_]*', c['src']))
        data = dict((k, v) for k, v in c['data'].items() if k in names)
        if all(CG.in_domain(v) for v in data.values()):
            ccases.append({'kind': 'ceval', 'src': c['src'], 'lookup': c['lookup'], 'data': data, 'feat': [c['shape']]})
    compare_ceval(ccases, res)
    tcases = CG.gen_template_cases(rng, max(60, min(n // 6, 1500)))
    if idx == 0:
        tcases = [{'kind': 'tmpl', 'form': f_, 'src': s_, 'expr': e_, 'bind': b_, 'lookup': lk, 'data': d_, 'feat': ['hand']}
                  for f_, s_, e_, b_, d_ in CG.HAND_TMPL for lk in ('strict', 'lenient')] + tcases
    compare_templates(tcases, res)
    res.samples = [c for c in cases[:3]]
    return res


def run(ctx):
    nsh = 16
    args = [(ctx.seed, i, ctx.n(900, 25000), ctx.n(150, 3000)) for i in range(nsh)]
    res = Result()
    for r in pmap('harness.props.c03', 'shard', args):
        res.merge(r)
    res.rule = ('expressions from the grammar generator evaluated against generated context data in both lookup modes; '
                'non-trivial = at least three node types and a reference outcome; distinct by (lookup, outcome class, node-type set); '
                'plus text/expression boundary cases')
    res.samples = res.samples[:6]
    return res


def search(ctx, res, broken):
    found = []
    for d in res.disagreements[:300]:
        c = d.get('case')
        if isinstance(c, dict) and 'src' in c:
            for lk in ('strict', 'lenient'):
                for data in (c.get('data') or {}, {'a': 3, 'b': 1, 'x': [1, 2], 'items': [1, 2], 'd': {'$dict': [['a', 1]]}}):
                    f = oracle_case({'kind': 'eval', 'src': c['src'], 'lookup': lk, 'data': data})
                    if f:
                        found.append(f)
    if found:
        return found
    for s, d in HAND:
        for lk in ('strict', 'lenient'):
            f = oracle_case({'kind': 'eval', 'src': s, 'lookup': lk, 'data': d})
            if f:
                found.append(f)
    if found:
        return found
    args = [(ctx.seed + 1000 + i, i, 5000, 500) for i in range(16)]
    for r in pmap('harness.props.c03', 'shard', args):
        found.extend(r.failures)
    return found


def replay(ctx, case):
    return oracle_case(case)

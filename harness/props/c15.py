"""C15 — the loader cache serves the current template and stays within its bound; LRUCache is a
bounded LRU map under every operation sequence.

Two halves, each with (a) a property oracle on the real code that never uses the Lean model's
implementation half and (b) the correspondence of the real code with the Lean models in gdrv:

* container: every sequence over {get k, set k} (3 keys, caps 0-3) up to a length bound, the reads
  {in, len, iter} applied at every reached state (they are checked to be pure, so interleavings
  with reads are covered), plus random long sequences over the whole alphabet and 5 keys. Oracle:
  an OrderedDict reference + the structural invariant. Correspondence: outputs and the complete
  linked structure head/tail/prv/nxt/_dict against the concrete model, outputs and recency list
  against the abstract one.
* loader: seeded histories (see harness/gen_loader.py).
"""
import collections, itertools, json, os, random
from harness import proto, stage
from harness import gen_lru as G
from harness import gen_loader as GL
from harness.framework import Result, pmap
from harness.proto import Atom, B, N

PROP = 'C15'
TRUSTED = [
    'modelled, not verified: genshi/util.py LRUCache and genshi/template/loader.py TemplateLoader.load / directory() (hand-written Lean models tied by correspondence)',
    'not modelled: os.path (join/dirname/normpath/isabs), os.stat / the file system (histories use a logical clock set with os.utime), open(), the template parsers (a parse is "content -> template or TemplateSyntaxError"), threading.RLock (depth counter only)',
    'the reads in/len/iter are checked to leave the structure untouched at every reached state instead of being enumerated inside sequences',
    'string-level path model (Genshi/Model/LoaderPath.lean): posixpath normpath/join/dirname/isabs are modelled on character lists and compared with the standard library on seeded strings (stream path-functions); prefixed() and callables returning (filepath, filename, fileobj, uptodate) are model entries; package() is a callable with uptodate=None; the in-place rewrite of a file that is being read is driven by shadowing the name open in the loader module for one call (RealRun.load_rewrite) and lands between the time stamp and the first read',
]
ASSUMPTIONS = [
    'path model: POSIX path syntax; every directory named on a path exists and there are no symbolic links, so that open(p) and getmtime(p) look at normpath(p) (generator and validate() keep every directory chain inside the tree of existing directories)',
    'operations of the overridden interface only (__getitem__ __setitem__ __contains__ __len__ __iter__); the inherited dict methods are known finding C15-inherited-dict',
    'capacity is a non-negative int and is not changed after construction',
    'every modification of a file changes its mtime: to the next value of a logical clock (W, T) or to any value, older ones included, that differs from the file\'s current mtime and from every mtime the loader remembers for that file (WA; a different content under a remembered mtime is the inherent limit of reloading by modification time, theorem mtime_reuse_serves_stale); a modification during a load is a replacement (new file renamed over the name) of the file the load opens, landing before or right after the open() of directory() (history op LR); in-place rewrites of a file that is being read are not covered',
]

NKEYS = 3
MUT = [['G', 0], ['G', 1], ['G', 2], ['P', 0], ['P', 1], ['P', 2]]


def _lru_class():
    from genshi.util import LRUCache
    return LRUCache


def concretise(seq):
    """give every store a distinct value (its position + 10)"""
    return [op + [10 + i] if op[0] == 'P' else list(op) for i, op in enumerate(seq)]


def lru_oracle(cap, ops, nkeys=NKEYS, LRUCache=None, every_step=True, trace=None):
    """the property on the real container for one sequence: outputs equal the bounded-LRU
    reference, the structure invariant holds after every step, reads leave it untouched.
    Returns (failure-or-None, outs, dump, items)"""
    LRUCache = LRUCache or _lru_class()
    case = {'kind': 'lru', 'cap': cap, 'ops': ops}
    spec = G.Spec(cap)
    cache = LRUCache(cap)
    num = G.Numbering()
    outs = []
    before = None
    for n, op in enumerate(ops):
        exp = spec.apply(op)
        last = n == len(ops) - 1
        first_read = op[0] in 'CLI' and (n == 0 or ops[n - 1][0] not in 'CLI')
        if op[0] in 'CLI':
            # a block of reads must leave the structure as it was before the block
            if every_step or first_read:
                before = G.dump(cache, num, nkeys)
        else:
            before = None
        try:
            if op[0] == 'P':
                new = num.before_put(cache, op[1])
                got = G.apply_real(cache, op)
                num.after_put(cache, op[1], new)
            else:
                got = G.apply_real(cache, op)
        except Exception as e:  # noqa
            return ({'case': case, 'what': 'operation %d %r raises' % (n, op), 'expected': repr(exp),
                     'observed': type(e).__name__}, outs, None, None)
        outs.append(got)
        if got != exp:
            return ({'case': case, 'what': 'operation %d %r: result differs from the bounded LRU map' % (n, op),
                     'expected': repr(exp), 'observed': repr(got)}, outs, None, None)
        bad = G.structure_ok(cache) if (every_step or last or op[0] not in 'CLI' and ops[n + 1][0] in 'CLI') else None
        if bad:
            return ({'case': case, 'what': 'structure invariant after operation %d %r' % (n, op),
                     'expected': 'well-formed bounded doubly linked list', 'observed': bad}, outs, None, None)
        if trace is not None:
            # the complete structure after this step (forward walk with prv/nxt/key/value, backward
            # walk, _dict, len) and what iteration yields
            trace.append((got, G.dump(cache, num, nkeys),
                          [(x.key, x.value) for x in (G.walk(cache.head, 'nxt', len(cache._dict) + 2) or [])]))
        if before is not None and (every_step or last) and G.dump(cache, num, nkeys) != before:
            return ({'case': case, 'what': 'read operation %d %r changes the structure' % (n, op),
                     'expected': repr(before), 'observed': repr(G.dump(cache, num, nkeys))}, outs, None, None)
    items = [(n.key, n.value) for n in (G.walk(cache.head, 'nxt', len(cache._dict) + 2) or [])]
    if items != spec.items():
        return ({'case': case, 'what': 'recency order after the sequence', 'expected': repr(spec.items()),
                 'observed': repr(items)}, outs, None, None)
    return None, outs, G.dump(cache, num, nkeys), items


def lru_compare(batch, res, stream):
    """batch: list of (cap, nkeys, ops, outs, dump, items) from runs the oracle accepted;
    compare with gdrv (concrete and abstract model at once)"""
    lines = [G.model_line(cap, nk, ops) for cap, nk, ops, _, _, _ in batch]
    answers = proto.run_lines(lines)
    for (cap, nk, ops, outs, dmp, items), ans in zip(batch, answers):
        res.streams[stream] = res.streams.get(stream, 0) + 1
        exp = G.expected_answer(outs, dmp, items)
        if ans != exp:
            res.disagreements.append({'stream': stream, 'case': {'kind': 'lru', 'cap': cap, 'ops': ops},
                                      'model': ans[:600], 'real': exp[:600]})


def lru_shard(arg):
    """all sequences over MUT starting with `prefix`, total length <= L, each followed by the reads"""
    cap, prefix, L, own_short = arg
    if own_short and MUT[prefix[0]][0] == 'G':
        L = 2       # only the short sequences that start with a miss
    LRUCache = _lru_class()
    res = Result()
    batch = []
    seqs = []
    if own_short:
        for n in range(len(prefix)):
            seqs.extend(itertools.product(range(len(MUT)), repeat=n))
    for n in range(0, L - len(prefix) + 1):
        for tail in itertools.product(range(len(MUT)), repeat=n):
            seqs.append(tuple(prefix) + tail)
    for s in seqs:
        ops = concretise([MUT[i] for i in s]) + G.READS
        # every prefix is itself enumerated: check the structure after the last store/get and
        # the purity of the reads once
        fail, outs, dmp, items = lru_oracle(cap, ops, NKEYS, LRUCache, every_step=False)
        res.evaluations += 1
        res.count('lru:len%d' % len(s))
        if fail:
            res.failures.append(fail)
            if len(res.failures) >= 5:
                break
            continue
        evicted = sum(1 for o in ops if o[0] == 'P') > cap and len(items) == cap
        if evicted or any(o == 'KE' for o in outs):
            if len(s) <= 6:
                code = 0
                for i in s:
                    code = code * 6 + i + 1
                res.nontrivial.add(code * 4 + cap)
            else:
                res.count('lru:nontrivial-longer-than-6')
        batch.append((cap, NKEYS, ops, outs, dmp, items))
    lru_compare(batch, res, 'lru-exhaustive')
    return res


def rand_lru_ops(rng, nkeys, n):
    ops = []
    for i in range(n):
        r = rng.random()
        k = rng.randrange(nkeys)
        if r < 0.4:
            ops.append(['P', k, 100 + i])
        elif r < 0.75:
            ops.append(['G', k])
        elif r < 0.85:
            ops.append(['C', k])
        elif r < 0.92:
            ops.append(['L'])
        else:
            ops.append(['I'])
    return ops


def lru_trace_compare(batch, res, stream):
    """batch: (cap, nkeys, ops, trace); the model gives output + structure after every step"""
    lines = ['C15 lrutrace %d %d %s' % (cap, nk, G.fe([op[0] if len(op) == 1 else op for op in ops]))
             for cap, nk, ops, _ in batch]
    answers = proto.run_lines(lines)
    for (cap, nk, ops, trace), ans in zip(batch, answers):
        res.streams[stream] = res.streams.get(stream, 0) + len(ops)
        exp = G.fe([[G.wire_out(o), d + [True], G.wire_out(o), [[k, v] for k, v in items]] for o, d, items in trace])
        if ans != exp:
            res.disagreements.append({'stream': stream, 'case': {'kind': 'lru', 'cap': cap, 'nkeys': nk, 'ops': ops},
                                      'model': ans[:800], 'real': exp[:800]})


def lru_random_shard(arg):
    """seeded random sequences over the whole alphabet; capacities up to 7 (4 and 5 with >= 6 keys
    so that a hit can land on a node that is neither head, second nor tail); oracle and model
    comparison of the complete structure after every step"""
    seed, idx, n = arg
    rng = random.Random('%s/%s/C15-lru' % (seed, idx))
    LRUCache = _lru_class()
    res = Result()
    batch = []
    for j in range(n):
        if j % 2 == 0:
            cap = rng.choice([4, 5])
            nkeys = rng.choice([6, 7, 8])
            length = rng.randrange(20, 41)
        else:
            nkeys = rng.choice([2, 3, 5, 8])
            cap = rng.choice([0, 1, 2, 3, 4, 5, 7])
            length = rng.randrange(1, 60)
        ops = rand_lru_ops(rng, nkeys, length)
        trace = []
        fail, outs, dmp, items = lru_oracle(cap, ops, nkeys, LRUCache, every_step=True, trace=trace)
        res.evaluations += 1
        res.count('lru-random:cap%d' % cap)
        if fail:
            res.failures.append(fail)
            if len(res.failures) >= 5:
                break
            continue
        # hits on an inner node (not head, not second, not tail) of a list of >= 4
        prev = []
        for op, (got, _, its) in zip(ops, trace):
            if op[0] in 'GP' and len(prev) >= 4:
                pos = [k for k, _ in prev].index(op[1]) if op[1] in [k for k, _ in prev] else -1
                if 2 <= pos < len(prev) - 1:
                    res.count('lru-random:inner-node-%s' % ('hit' if op[0] == 'G' else 'restore'))
            prev = its
        res.nontrivial.add('lru-random:%d:%d:%s' % (cap, nkeys, json.dumps(ops)[:200]))
        batch.append((cap, nkeys, ops, trace))
    lru_trace_compare(batch, res, 'lru-random-every-step')
    if batch:
        res.samples.append({'kind': 'lru', 'cap': batch[0][0], 'ops': batch[0][2][:12]})
    return res


def inherited_case(case):
    """known finding C15-inherited-dict: methods inherited from dict see the empty base dict"""
    LRUCache = _lru_class()
    c = LRUCache(case['cap'])
    for op in case['ops']:
        G.apply_real(c, op)
    k = case['key']
    obs = {'in': k in c, 'get': c.get(k), 'keys': sorted(c.keys()), 'len': len(c)}
    exp = {'in': k in c, 'get': (c[k] if k in c else None), 'keys': sorted(c), 'len': len(c)}
    if obs != exp:
        return {'case': case, 'what': 'methods inherited from dict (get/keys) agree with the overridden interface',
                'expected': exp, 'observed': obs}
    return None


# --------------------------------------------------------------------------
# loader histories

def judge_load(bad, i, cfg, strict, run, spec, exp, kind, val, before, after):
    """the clauses of the property for one load: expectation `exp` of the reference against what
    the real loader did; returns a failure or None (may mark a touched key in the reference)"""
    if run.lock_depth() != 0:
        return bad(i, 'the lock is released on every exit', 0, run.lock_depth())
    if not run.path_intact():
        return bad(i, 'a load does not change the configured search path', len(cfg['path']),
                   len(run.loader.search_path))
    if after['len'] > cfg['cap']:
        return bad(i, 'at most max_cache_size templates are cached', cfg['cap'], after['len'])
    if exp['kind'] == 'ok':
        if kind != 'ok':
            return bad(i, 'load succeeds', 'a template with content v%d' % exp['content'], 'raises ' + val)
        d = run.describe(val)
        if d['content'] != exp['content'] or d['loc'] != tuple(exp['loc']):
            return bad(i, 'returned template is parsed from the %s' % (
                'current content of the file found first on the search path' if strict else
                'current content of the file it came from / first on the path when parsed'),
                {'content': exp['content'], 'file': list(exp['loc'])},
                {'content': d['content'], 'file': list(d['loc'] or [])})
        if d['obj'] != exp['serve'][1]:
            return bad(i, 'object identity (%s)' % ('the same object while nothing changed'
                       if exp['serve'][0] == 'cached' else 'a newly parsed template'),
                       'template #%d' % exp['serve'][1], 'template #%d' % d['obj'])
        if [(tuple(k), o) for k, o in after['order']] != exp['cache']:
            return bad(i, 'cache contents, most recently used first (least recently used evicted first)',
                       [[list(k), o] for k, o in exp['cache']], [[list(k or ()), o] for k, o in after['order']])
    else:
        if kind != 'err' or val != exp['err']:
            return bad(i, 'load fails', exp['err'], val if kind == 'err' else 'returns a template')
        if after['mapping'] != before['mapping'] or after['uptodate'] != before['uptodate']:
            return bad(i, 'a failed load leaves the cache and _uptodate as they were',
                       sorted(before['mapping']), sorted(after['mapping']))
        if after['order'] != before['order']:
            key = exp['key']
            moved = [x for x in before['order'] if x[0] == key] + [x for x in before['order'] if x[0] != key]
            if exp['touched'] and after['order'] == moved:
                spec.touch_failed(key)      # the lookup counted as a use; nothing else changed
            else:
                return bad(i, 'a failed load leaves the cache order as it was (or only marks the requested key as used)',
                           [[list(k), o] for k, o in before['order']], [[list(k or ()), o] for k, o in after['order']])
    if len(run.inst_log) != exp['instantiated']:
        return bad(i, 'number of templates parsed so far (a parse happens exactly when the template is not served from the cache)',
                   exp['instantiated'], len(run.inst_log))
    if cfg['callback'] and (len(run.cb_log) != len(run.inst_log) or
                            any(a is not b for a, b in zip(run.cb_log, run.inst_log))):
        return bad(i, 'the callback runs exactly once per parse, with the parsed template',
                   'callbacks = parsed templates (%d)' % len(run.inst_log), '%d callbacks' % len(run.cb_log))
    return None


def run_history(cfg, ops, strict, root, want_answers=True):
    """the property oracle on the real loader for one history (+ what the real loader did, for
    the correspondence). Returns (failure-or-None, answers, stats)"""
    import copy
    case = {'kind': 'hist', 'cfg': cfg, 'ops': ops, 'strict': strict}
    GL.validate(cfg, ops)
    run = GL.RealRun(cfg, root)
    spec = GL.PropSpec(cfg, strict=strict)
    answers = []
    stats = collections.Counter()
    fail = None
    seen = []

    def bad(i, what, expected, observed):
        return {'case': case, 'what': 'operation %d %s: %s' % (i, json.dumps(ops[i]), what),
                'expected': expected, 'observed': observed}
    try:
        for i, op in enumerate(ops):
            if op[0] not in ('L', 'LR'):
                if op[0] == 'WA':
                    loc = (op[1], op[2], op[3])
                    if loc in spec.fs and op[6] < spec.fs[loc][2]:
                        stats['mtime-backwards'] += 1
                        if loc in [e.loc for e in spec.cache.values()]:
                            stats['mtime-backwards:file of a cached template'] += 1
                    else:
                        stats['mtime-explicit-not-backwards'] += 1
                spec.fs_op(op)
                run.fs_op(op)
                answers.append('U')
                continue
            r = op[1]
            key = GL.resolve(cfg, r)
            if key is None:
                answers.append('unmodelled')
                continue
            if key not in seen:
                seen.append(key)
            before = run.snapshot()
            if op[0] == 'L':
                exp = spec.load(r)
                kind, val = run.load(r)
                after = run.snapshot()
                if want_answers:
                    answers.append(GL.real_answer(run, kind, val, seen))
                if not fail:
                    fail = judge_load(bad, i, cfg, strict, run, spec, exp, kind, val, before, after)
            else:
                # a load during which the file it opens is replaced: the property holds if what
                # happened is the load and the write in one of the two orders
                kind, val, fired = run.load_race(r, op[2], op[3], op[4])
                after = run.snapshot()
                if want_answers:
                    answers.append(GL.real_answer(run, kind, val, seen, fired=fired))
                stats['race:' + ('no file opened' if fired is None else 'before open' if op[2] else 'after open')] += 1
                first_fail = None
                for first in (True, False):
                    cand = copy.deepcopy(spec)
                    exp, _ = cand.load_race(r, op[2], op[3], op[4], fired=fired, first=first)
                    f = judge_load(bad, i, cfg, strict, run, cand, exp, kind, val, before, after)
                    if f is None:
                        first_fail = None
                        break
                    first_fail = first_fail or f
                    if fired is None:
                        break
                spec = cand
                if first_fail is not None:
                    # neither order explains what happened
                    fail = fail or first_fail
                elif not first:
                    stats['race:the other order'] += 1
            stats['load:' + (exp['kind'] if exp['kind'] == 'ok' else exp['err'])] += 1
            if exp['kind'] == 'ok':
                stats['serve:' + exp['serve'][0]] += 1
            elif exp.get('touched') and before['order'] != after['order']:
                stats['failed-load-touched'] += 1
    finally:
        run.close()
    return fail, answers, stats


def hist_compare(batch, res, stream):
    lines = [GL.wire_history(cfg, ops) for cfg, ops, _, _ in batch]
    answers = proto.run_lines(lines)
    for (cfg, ops, strict, real), ans in zip(batch, answers):
        res.streams[stream] = res.streams.get(stream, 0) + 1
        exp = proto.enc([proto.Atom(a) if isinstance(a, str) else a for a in real])
        if ans != exp:
            res.disagreements.append({'stream': stream, 'case': {'kind': 'hist', 'cfg': cfg, 'ops': ops, 'strict': strict},
                                      'model': ans[:1500], 'real': exp[:1500]})


def spec_compare(batch, res, stream):
    """the specification side (`firstOnPathF`, search path walk with load-function faults) against
    what the real loader did: per plain load, `cached` / nothing / raised / nopath / the file found
    first (location, content, whether it parses)"""
    lines = [GL.wire_history(cfg, ops).replace('C15 hist ', 'C15 firstspec ', 1) for cfg, ops, _, _ in batch]
    answers = proto.run_lines(lines)
    for (cfg, ops, strict, real), ans in zip(batch, answers):
        res.streams[stream] = res.streams.get(stream, 0) + 1
        try:
            model = proto.dec(ans)
        except Exception:  # noqa
            model = None
        ok = isinstance(model, list) and len(model) == len(ops)
        nobj = 0
        for op, a, m in zip(ops, real, model if ok else []):
            if not ok:
                break
            if op[0] != 'L' or a == 'unmodelled':
                if op[0] == 'LR' and a != 'unmodelled' and a[0][0] == 'ok':
                    nobj = max(nobj, a[0][1][0] + 1)
                continue
            r0 = a[0]
            m = [str(x) for x in m] if isinstance(m, list) else str(m)
            if r0[0] == 'ok':
                t = r0[1]
                if t[0] < nobj:
                    want = 'cached'
                else:
                    want = ['file', str(t[1]), str(t[2]), str(t[3]), str(t[4]), 'F']
                    nobj = t[0] + 1
                res.count('firstspec:' + ('cached' if want == 'cached' else 'file'))
                if m != want:
                    ok = False
            else:
                err = str(r0[1])
                res.count('firstspec:' + err)
                if err == 'TemplateNotFound':
                    ok = m == 'nothing'
                elif err == 'LoadFuncError':
                    ok = m == 'raised'
                elif err == 'TemplateError':
                    ok = m == 'nopath'
                elif err == 'TemplateSyntaxError':
                    ok = isinstance(m, list) and m[0] == 'file' and m[5] == 'T'
                elif err == 'CallbackError':
                    ok = isinstance(m, list) and m[0] == 'file' and m[5] == 'F'
                    nobj += 1
                else:
                    ok = False
        if not ok:
            res.disagreements.append({'stream': stream, 'case': {'kind': 'hist', 'cfg': cfg, 'ops': ops, 'strict': strict},
                                      'model': ans[:1500], 'real': proto.enc([proto.Atom(a) if isinstance(a, str) else a for a in real])[:1500]})


def hist_shard(arg):
    seed, idx, n, maxlen = arg
    rng = random.Random('%s/%s/C15-hist' % (seed, idx))
    res = Result()
    root = os.path.join(proto.ROOT, '.build', 'c15-%d-%d' % (os.getpid(), idx))
    batch = []
    for j in range(n):
        cfg, ops, shadow = GL.gen_history(rng, maxlen)
        fail, answers, stats = run_history(cfg, ops, not shadow, root)
        res.evaluations += 1
        for k, v in stats.items():
            res.count(k, v)
        res.count('hist:cap%d' % cfg['cap'])
        res.count('hist:' + ('auto_reload' if cfg['auto_reload'] else 'no_reload'))
        res.count('hist:shadow' if shadow else 'hist:strict')
        if fail:
            res.failures.append(fail)
            if len(res.failures) >= 5:
                break
            continue
        nl = sum(1 for o in ops if o[0] == 'L')
        if nl >= 2 and stats['serve:cached'] and (stats['serve:new'] >= 2 or
                        any(k in stats for k in ('load:TemplateSyntaxError', 'load:CallbackError', 'load:LoadFuncError'))):
            res.nontrivial.add('hist:%s/%s/%d' % (seed, idx, j))
        batch.append((cfg, ops, not shadow, answers))
        if j < 1:
            res.samples.append({'kind': 'hist', 'cfg': cfg, 'ops': ops[:8]})
    hist_compare(batch, res, 'loader-histories')
    spec_compare(batch, res, 'first-on-path-spec')
    return res


def prefixed_case(case, root):
    """`prefixed()` load functions on the real loader, oracle only: search path items are
    directory names `['D', d]` and `['P', d]` = prefixed(sub=<dir d>) (serves `sub/<name>` from
    `<dir d>/<name>`, has nothing else); after the writes of the case every load must return the
    template of the file found first on the search path, or raise TemplateNotFound when no item
    has it — in particular an item that does not have the name is passed over, whatever it is"""
    from genshi.template.loader import TemplateLoader, prefixed
    from genshi.template import MarkupTemplate
    import shutil
    shutil.rmtree(root, ignore_errors=True)
    dirs = []
    for d in range(3):
        p = os.path.join(root, 'd%d' % d)
        os.makedirs(p)
        dirs.append(p)
    try:
        path = [dirs[e[1]] if e[0] == 'D' else prefixed(sub=dirs[e[1]]) for e in case['path']]
        loader = TemplateLoader(path, auto_reload=True, max_cache_size=case.get('cap', 5))
        fs = {}
        clock = 1
        for i, op in enumerate(case['ops']):
            if op[0] == 'W':
                d, sub, base, content = op[1:5]
                p = os.path.join(dirs[d], 'sub', 't%d.html' % base) if sub else os.path.join(dirs[d], 't%d.html' % base)
                os.makedirs(os.path.dirname(p), exist_ok=True)
                with open(p, 'wb') as f:
                    f.write(GL.content_bytes(content, False))
                os.utime(p, (GL.T0 + clock, GL.T0 + clock))
                clock += 1
                fs[(d, sub, base)] = content
                continue
            sub, base = op[1], op[2]
            exp = None
            for e in case['path']:
                if e[0] == 'D':
                    loc = (e[1], sub, base)
                elif sub:
                    loc = (e[1], False, base)       # the prefix is stripped
                else:
                    continue                        # prefixed() does not have this name
                if loc in fs:
                    exp = fs[loc]
                    break
            try:
                t = loader.load(GL.fname(sub, base))
                text = t.generate().render(encoding=None)
                m = __import__('re').search(r'v(\d+)', text)
                got = int(m.group(1)) if m else text
            except Exception as ex:  # noqa
                got = type(ex).__name__
            want = 'TemplateNotFound' if exp is None else exp
            if got != want:
                return {'case': case, 'what': 'operation %d %s: a load returns the template of the file found first on the search path (items: directories and prefixed() load functions)' % (i, json.dumps(op)),
                        'expected': want, 'observed': got}
    finally:
        shutil.rmtree(root, ignore_errors=True)
    return None


def prefixed_shard(arg):
    seed, n = arg
    rng = random.Random('%s/C15-prefixed' % seed)
    res = Result()
    root = os.path.join(proto.ROOT, '.build', 'c15-prefixed-%d' % os.getpid())
    fixed = [{'kind': 'prefixed', 'path': [['P', 1], ['D', 0]], 'ops': [['W', 0, False, 0, 100], ['L', False, 0]]}]
    for j in range(n):
        if j < len(fixed):
            case = fixed[j]
        else:
            path = [[rng.choice('DP'), rng.randrange(3)] for _ in range(rng.randrange(1, 4))]
            ops = []
            c = 100
            locs = []
            # first the files, then loads and rewrites of existing files: no file is *created* after
            # a load, so the history stays outside the class of finding C15-shadow
            for _ in range(rng.randrange(1, 6)):
                c += 1
                loc = (rng.randrange(3), rng.random() < 0.3, rng.randrange(2))
                locs.append(loc)
                ops.append(['W', loc[0], loc[1], loc[2], c])
            for _ in range(rng.randrange(2, 9)):
                if rng.random() < 0.3:
                    c += 1
                    loc = rng.choice(locs)
                    ops.append(['W', loc[0], loc[1], loc[2], c])
                else:
                    ops.append(['L', rng.random() < 0.5, rng.randrange(2)])
            case = {'kind': 'prefixed', 'path': path, 'ops': ops, 'cap': rng.choice([1, 2, 5])}
        res.evaluations += 1
        res.count('prefixed:histories')
        if any(e[0] == 'P' for e in case['path']) and any(e[0] == 'D' for e in case['path']):
            res.count('prefixed:mixed with directories')
        f = prefixed_case(case, root)
        if f:
            res.failures.append(f)
            if len(res.failures) >= 3:
                break
    res.streams['prefixed-oracle'] = res.evaluations
    return res


# --------------------------------------------------------------------------
# the loader over string-level path names (lean/Genshi/Model/LoaderPath.lean)

def path_history(cfg, ops, root):
    """one history on the real loader: (oracle failure | None, [expected model answer per op], stats).
    Oracle = the property text with the standard library's posixpath (gen_loaderpath.Ref): a load
    that is not answered from the cache ends as the walk over the search path of that call says;
    a cached key is answered with the cached object (without auto_reload, or while its own
    up-to-date check says so)."""
    import posixpath
    from harness import gen_loaderpath as P
    P.validate(cfg, ops)
    run = P.RealRun(cfg, root)
    ref = P.Ref(cfg)
    answers, stats = [], collections.Counter()
    fail = None
    case = {'kind': 'pathhist', 'cfg': cfg, 'ops': ops}

    def bad(i, what, expected, observed):
        return {'case': case, 'what': 'op %d %s: %s' % (i, json.dumps(ops[i]), what), 'expected': expected, 'observed': observed}
    try:
        for i, op in enumerate(ops):
            if op[0] not in ('L', 'LW'):
                run.fs_op(op)
                ref.fs_op(op)
                answers.append(Atom('U'))
                continue
            key = ref.key(op)
            realkey = run.real(key) if posixpath.isabs(key) else key
            cache = run.loader._cache
            cached = cache._dict[realkey].value if realkey in cache._dict else None
            current = False
            if cached is not None and cfg['auto_reload']:
                try:
                    u = run.loader._uptodate[realkey]
                    current = u is not None and bool(u())
                except (KeyError, OSError):
                    current = False
            from_cache = cached is not None and (not cfg['auto_reload'] or current)
            walk = ref.walk(op)
            walk0 = walk          # the specification column of the model describes the state before the call
            target = None
            if op[0] == 'LW' and not from_cache and walk[0] == 'file':
                # the file this load opens is rewritten in place while it is read: afterwards (and
                # for the template class) it has the new content
                target = posixpath.normpath(walk[1])
                ref.fs_op(['W', target, op[7], op[8]])
                walk = ref.walk(op)
                stats['pathload:rewritten in place while read'] += 1
            isabs = posixpath.isabs(key) or bool(op[2] and posixpath.isabs(op[2]))
            n_inst, n_cb = len(run.inst_log), len(run.cb_log)
            utd_before = dict(run.loader._uptodate)
            map_before = dict((k, id(v.value)) for k, v in cache._dict.items())
            if op[0] == 'LW':
                kind, val, rewritten = run.load_rewrite(op)
                if fail is None and (None if rewritten is None else run.model(os.path.normpath(rewritten))) != target:
                    fail = bad(i, 'harness: the file rewritten during the load is the file found first on the search path',
                               target, rewritten and run.model(rewritten))
            else:
                kind, val = run.load(op)
            d = run.describe(val) if kind == 'ok' else None
            stats['pathload:' + ('cached' if from_cache else walk[0])] += 1
            if '..' in key.split('/'):
                stats['pathload:key with leading ..'] += 1
            if key.count('/') >= 2 and not posixpath.isabs(key):
                stats['pathload:relative key two or more levels deep'] += 1
            if posixpath.normpath(op[1]) != op[1]:
                stats['pathload:filename not normalised'] += 1
            if op[2] and posixpath.isabs(op[2]):
                stats['pathload:absolute relative_to'] += 1
            if walk[0] == 'file' and walk[2] != key:
                stats['pathload:load function reports another filename'] += 1
            if fail is None:
                if from_cache:
                    if kind != 'ok' or val is not cached:
                        fail = bad(i, 'a cached key is answered with the cached object', 'the cached template', [kind, d or val])
                    elif len(run.inst_log) != n_inst or len(run.cb_log) != n_cb:
                        fail = bad(i, 'nothing parsed, no callback when served from the cache', [n_inst, n_cb], [len(run.inst_log), len(run.cb_log)])
                else:
                    if walk[0] == 'nopath':
                        exp = ['err', 'TemplateError']
                    elif walk[0] == 'nothing':
                        exp = ['err', 'TemplateNotFound']
                    elif walk[0] == 'raised':
                        exp = ['err', 'LoadFuncError']
                    elif walk[4]:
                        exp = ['err', 'TemplateSyntaxError']
                    elif cfg['callback'] and op[5]:
                        exp = ['err', 'CallbackError']
                    else:
                        exp = ['ok', walk[1], walk[1] if isabs else walk[2], walk[3]]
                    obs = ['ok', d[1], d[2], d[3]] if kind == 'ok' else ['err', val]
                    if obs != exp:
                        fail = bad(i, 'a load returns a template parsed from the file found first on the search path (current content)', exp, obs)
                    elif kind == 'ok' and d[0] != n_inst:
                        fail = bad(i, 'a parsed template is a new object', n_inst, d[0])
                if fail is None and kind == 'err':
                    map_after = dict((k, id(v.value)) for k, v in cache._dict.items())
                    if map_after != map_before or dict(run.loader._uptodate) != utd_before:
                        fail = bad(i, 'a failed load leaves the cache and _uptodate as they were', sorted(map_before), sorted(map_after))
                if fail is None and (run.lock_depth() != 0 or len(run.loader.search_path) != run.npath):
                    fail = bad(i, 'lock free and configured search path unchanged after the call', [0, run.npath],
                               [run.lock_depth(), len(run.loader.search_path)])
                if fail is None and len(cache._dict) > cfg['cap']:
                    fail = bad(i, 'cache within its bound', cfg['cap'], len(cache._dict))
            # the real loader in the vocabulary of Driver/C15Path.lean
            res = [Atom('ok'), d] if kind == 'ok' else [Atom('err'), Atom(val)]
            if from_cache:
                spec = Atom('cached')
            elif walk0[0] == 'file':
                spec = [Atom('file'), walk0[1], walk0[2], walk0[3], B(walk0[4])]
            else:
                spec = Atom(walk0[0])
            answers.append([res, key, run.cache_order(), len(run.cb_log), len(run.inst_log), run.lock_depth(),
                            run.utd(realkey), spec] + ([N if target is None else target] if op[0] == 'LW' else []))
    finally:
        run.close()
    return fail, answers, stats


def path_shard(arg):
    seed, shard, n = arg
    from harness import gen_loaderpath as P
    res = Result()
    root = os.path.join(proto.ROOT, '.build', 'c15p-%d' % os.getpid())
    batch = []
    for k in range(n):
        rng = random.Random('%s/%d/%d/C15-path' % (seed, shard, k))
        cfg, ops = P.gen_history(rng)
        res.evaluations += 1
        fail, answers, stats = path_history(cfg, ops, root)
        for kk, v in stats.items():
            res.count(kk, v)
        for e in cfg['path']:
            res.count('pathload:entry ' + e[0])
        if stats:
            res.nontrivial.add('path:%s/%d/%d' % (seed, shard, k))
        if len(res.samples) < 2:
            res.samples.append({'cfg': cfg, 'ops': ops[:6]})
        if fail:
            res.failures.append(fail)
            if len(res.failures) >= 3:
                break
        else:
            batch.append((cfg, ops, answers))
    path_compare(batch, res, 'path-histories')
    return res


def path_compare(batch, res, stream):
    from harness import gen_loaderpath as P
    lines = []
    for cfg, ops, _ in batch:
        path, wops = P.wire_history(cfg, ops)
        lines.append(proto.line(Atom('C15'), Atom('phist'), cfg['cap'], B(cfg['auto_reload']), B(cfg['callback']), path, wops))
    for (cfg, ops, answers), ans in zip(batch, proto.run_lines(lines)):
        res.streams[stream] = res.streams.get(stream, 0) + 1
        exp = proto.enc(answers)
        if ans != exp:
            # first differing load, for the report
            try:
                got = proto.dec(ans)
                want = proto.dec(exp)
                j = next((i for i, (a, b) in enumerate(zip(got, want)) if a != b), None)
                detail = {'op': j, 'model': proto.enc(got[j])[:600], 'real': proto.enc(want[j])[:600]} if j is not None else {}
            except Exception:  # noqa
                detail = {}
            res.disagreements.append({'stream': stream, 'case': {'kind': 'pathhist', 'cfg': cfg, 'ops': ops},
                                      'model': json.dumps(detail) if detail else ans[:800], 'real': exp[:800]})


def path_functions_shard(arg):
    """`normpath` / `dirname` / `isabs` / `join` of the model against posixpath on seeded strings
    over the alphabet the path names are made of"""
    import posixpath
    seed, n = arg
    res = Result()
    rng = random.Random('%s/C15-pathfns' % seed)
    strs = []
    parts = ['', '', '.', '..', '..', 'a', 'sub', 'deep', 't0.html', 'R', '...', 'a.b']
    for _ in range(n):
        k = rng.randrange(0, 7)
        s = '/'.join(rng.choice(parts) for _ in range(k))
        if rng.random() < 0.4:
            s = rng.choice(['/', '//', '///', '/./', '/../']) + s
        if rng.random() < 0.15:
            s += rng.choice(['/', '//', '/.'])
        strs.append(s)
    ans = proto.run_lines([proto.line(Atom('C15'), Atom('ppath'), strs)])[0]
    exp = []
    for i, s in enumerate(strs):
        nxt = strs[i + 1] if i + 1 < len(strs) else s
        exp.append([posixpath.normpath(s), posixpath.dirname(s), B(posixpath.isabs(s)), posixpath.join(s, nxt)])
    res.evaluations += len(strs)
    res.streams['path-functions'] = len(strs)
    res.count('pathfns:strings', len(strs))
    res.count('pathfns:with ..', sum(1 for s in strs if '..' in s.split('/')))
    if ans != proto.enc(exp):
        try:
            got = proto.dec(ans)
            j = next(i for i, (a, b) in enumerate(zip(got, proto.dec(proto.enc(exp)))) if a != b)
            res.disagreements.append({'stream': 'path-functions', 'case': {'kind': 'selfcheck', 'string': strs[j], 'next': strs[j + 1] if j + 1 < len(strs) else strs[j]},
                                      'model': proto.enc(got[j]), 'real': proto.enc(exp[j])})
        except Exception:  # noqa
            res.disagreements.append({'stream': 'path-functions', 'case': {'kind': 'selfcheck'}, 'model': ans[:500], 'real': proto.enc(exp)[:500]})
    return res


def corpus_shard(_):
    """corpus/C15/*.json: inputs that once exposed something; oracle + both models, run first"""
    import glob
    res = Result()
    LRUCache = _lru_class()
    root = os.path.join(proto.ROOT, '.build', 'c15-corpus-%d' % os.getpid())
    hist_batch, lru_batch = [], []
    for path in sorted(glob.glob(os.path.join(proto.ROOT, 'corpus', 'C15', '*.json'))):
        with open(path) as f:
            case = json.load(f)
        res.evaluations += 1
        res.count('corpus')
        if case['kind'] == 'lru':
            trace = []
            fail, outs, dmp, items = lru_oracle(case['cap'], case['ops'], case.get('nkeys', NKEYS), LRUCache, trace=trace)
            if fail:
                res.failures.append(fail)
            else:
                lru_batch.append((case['cap'], case.get('nkeys', NKEYS), case['ops'], trace))
        elif case['kind'] == 'prefixed':
            fail = prefixed_case(case, root + '-p')
            if fail:
                res.failures.append(fail)
        else:
            fail, answers, stats = run_history(case['cfg'], case['ops'], case.get('strict', True), root)
            if fail:
                res.failures.append(fail)
            else:
                hist_batch.append((case['cfg'], case['ops'], case.get('strict', True), answers))
    lru_trace_compare(lru_batch, res, 'corpus')
    hist_compare(hist_batch, res, 'corpus')
    return res


def lru_args(ctx):
    L = ctx.n(7, 9)
    args = []
    for cap in range(4):
        first = True
        for p in itertools.product(range(len(MUT)), repeat=2):
            if MUT[p[0]][0] == 'G' and not first:
                # a leading get on the empty cache is a miss that changes nothing (checked on the
                # sequences of length 1): the sequence behaves like its tail, which is enumerated
                continue
            # capacity 0 keeps the cache empty, capacity 1 holds a single node and capacity 3 never
            # evicts with 3 keys: one step shorter than capacity 2
            args.append((cap, list(p), L if cap == 2 else min(L - 1, 7), first))
            first = False
    return args, L


MODELLED = {'__contains__', '__getitem__', '__iter__', '__len__', '__setitem__'}
HELPERS_OK = {'__init__', '__repr__', '_insert_item', '_manage_size', '_update_item'}


def run(ctx):
    import time, inspect
    res = Result()
    own = set(k for k, v in vars(_lru_class()).items() if inspect.isfunction(v))
    extra = sorted(m for m in own - MODELLED - HELPERS_OK if not m.startswith('_') or m.startswith('__'))
    if extra:
        res.notes.append('unmodelled own methods of LRUCache (outside the operation alphabet of the model): %s' % ', '.join(extra))
    for r in pmap('harness.props.c15', 'corpus_shard', [0]):
        res.merge(r)
    args, L = lru_args(ctx)
    t0 = time.time()
    for r in pmap('harness.props.c15', 'lru_shard', args):
        res.merge(r)
    t1 = time.time()
    nr = ctx.n(200, 2000)
    for r in pmap('harness.props.c15', 'lru_random_shard', [(ctx.seed, i, nr) for i in range(16)]):
        res.merge(r)
    t2 = time.time()
    nh = ctx.n(190, 1800)
    for r in pmap('harness.props.c15', 'hist_shard', [(ctx.seed, i, nh, 25) for i in range(16)]):
        res.merge(r)
    for r in pmap('harness.props.c15', 'prefixed_shard', [(ctx.seed, ctx.n(150, 1500))]):
        res.merge(r)
    for r in pmap('harness.props.c15', 'path_shard', [(ctx.seed, i, ctx.n(60, 600)) for i in range(8)]):
        res.merge(r)
    for r in pmap('harness.props.c15', 'path_functions_shard', [(ctx.seed, ctx.n(2000, 20000))]):
        res.merge(r)
    t3 = time.time()
    res.notes.append('wall: lru-exhaustive %.1fs, lru-random %.1fs, loader histories %.1fs' % (t1 - t0, t2 - t1, t3 - t2))
    res.rule = ('container: every sequence over get/set x 3 keys of length <= %d (capacity 2; min(%d-1, 7) for capacities 0, 1 and 3; sequences starting with a miss on the empty cache are represented by their tail) followed by all reads, '
                'plus seeded random sequences over the whole alphabet (half of them 20-40 operations on capacities 4-5 with 6-8 keys, the rest <= 60 operations, 2-8 keys, capacities 0-7) compared after every step; non-trivial = an eviction or a miss occurred; '
                % (L, L))
    res.samples = res.samples[:6]
    return res


def search(ctx, res, broken):
    found = []
    for d in res.disagreements[:200]:
        f = replay(ctx, d['case'])
        if f:
            found.append(f)
    if found:
        return found
    for r in pmap('harness.props.c15', 'lru_random_shard', [(ctx.seed + 1000 + i, i, 4000) for i in range(16)]):
        found.extend(r.failures)
    return found


def replay(ctx, case):
    kind = case.get('kind')
    if kind == 'lru':
        return lru_oracle(case['cap'], case['ops'], case.get('nkeys') or max([NKEYS] + [op[1] + 1 for op in case['ops'] if len(op) > 1]))[0]
    if kind == 'lru-inherited':
        return inherited_case(case)
    if kind == 'prefixed':
        if not case['path']:
            # shrinking empties the search path: then the expected outcome is TemplateError, not
            # what the reference of this stream (which walks a non-empty path) says
            raise ValueError('not a search path')
        for e in case['path']:
            if not (isinstance(e, list) and len(e) == 2 and e[0] in ('D', 'P') and e[1] in range(3)):
                raise ValueError('not a search path')
        for op in case['ops']:
            if not (isinstance(op, list) and ((op[0] == 'W' and len(op) == 5) or (op[0] == 'L' and len(op) == 3))):
                raise ValueError('not a history')
        return prefixed_case(case, os.path.join(proto.ROOT, '.build', 'c15-replay-prefixed-%d' % os.getpid()))
    if kind == 'pathhist':
        return path_history(case['cfg'], case['ops'], os.path.join(proto.ROOT, '.build', 'c15p-replay-%d' % os.getpid()))[0]
    if kind == 'selfcheck':
        return None
    if kind == 'hist':
        root = os.path.join(proto.ROOT, '.build', 'c15-replay-%d' % os.getpid())
        return run_history(case['cfg'], case['ops'], case.get('strict', True), root, want_answers=False)[0]
    raise ValueError(kind)

"""C11 — included templates behave the same whether inlined at prepare time (auto_reload off) or
loaded at render time (auto_reload on).

Per generated directory tree: the real TemplateLoader renders the entry in both modes (the
property itself: the two outcomes are equal), the outcome is compared with the specification-side
evaluator of harness/gen_c11.py ("an include stands for the content of its target"), and both
real outcomes are compared with the Lean model's renderInline / renderRuntime through gdrv
(correspondence).  The theorem's hypothesis is evaluated twice (Python, Lean) and compared."""
import hashlib, json, os, posixpath, random, shutil
from harness import proto
from harness import gen_c11 as G
from harness.framework import Result, pmap, BUILD
from harness.proto import Atom

PROP = 'C11'
TRUSTED = [
    'modelled, not verified: genshi/template/base.py Template._prepare/_include/_flatten, markup.py _extract_includes/_match '
    '(window of applicable match templates, select() as the content of the matched element), loader.py TemplateLoader.load path arithmetic, '
    'directives py:if/for/def/match, the filter pipelines of markup and text templates '
    '(hand-written Lean model Genshi.Incl, tied by two-mode correspondence on generated directory trees, single and several requests per loader, the loader\'s prepared templates after every request and after every load of a load-only sequence -- failed renders and preparations that failed part-way included --, and the three hypotheses inH / inHW / inHS evaluated in Lean and in Python on every tree)',
    'the printer from the abstract template language to genshi source text (harness/gen_c11.py source()) and the canonicaliser of event streams',
    'not modelled: expat / the text-template regex parser (templates are generated well-formed; one fixed ill-formed source per class is used for the '
    'eager-syntax-error finding), expression evaluation beyond variable look-up / truthiness / iteration / string splice, attributes, '
    'py:choose/with/attrs/content/replace/strip, macro arguments, match paths other than a single element name, selections other than *|text(), '
    'absolute paths, search-path load functions other than directories, the loader cache bound and mtime checks (C15), '
    'after a render that hit the recursion limit the sequence is compared on (outcomes and loader state) only when the model answers it alike with fuel 24 and fuel 72 (saturation: the set of templates loaded does not depend on where the limit is); otherwise it is cut there (counted). Fuel and Python frames are different units (macro recursion runs on _flatten\'s explicit stack, match recursion in nested _match generators, includes in nested generate() calls)',
    'fuel stands for Python recursion depth: "terminates" is compared (model fuel 24, Python recursion limit 420, generated terminating trees far below, '
    'diverging ones far above), not the exact depth at which CPython gives up; trees whose rendering exceeds a deterministic work bound on the real code '
    '(loads, events, match templates, match-list walks) are skipped and counted',
]
ASSUMPTIONS = [
    'files do not change while a loader is in use',
    'every file is included under one template class (its own); hrefs are relative',
    'macro, loop-variable and data names are disjoint; macros take no arguments; macro calls do not occur in files reachable from macro bodies '
    '(a macro that recurses through an include is a RecursionError at run time but an endless loop in _flatten once inlined; both diverge)',
    'theorem hypothesis inH: every file well-formed (finding C11-eager-syntax), no statically named include and no macro call inside an element a match '
    'template may rewrite or inside a match template body (findings C11-match-range, C11-match-range-select), static includes name the class of their '
    'target, text templates make no macro calls (finding C11-match-range-text)',
]

FUEL = 24
NL = 5          # request lines per case
TREES = os.path.join(BUILD, 'c11')


# --------------------------------------------------------------------------
# wire

def w_nodes(nodes):
    return [w_node(n) for n in nodes]


def w_href(h):
    if h[0] == 'static':
        return [Atom('fix'), h[1]]
    return [Atom('dyn')] + [[Atom(p[0]), p[1]] for p in h[1]]


def w_node(n):
    k = n[0]
    if k in ('text', 'var', 'call'):
        return [Atom(k), n[1]]
    if k == 'select':
        return [Atom('content')]
    if k == 'elem':
        return [Atom('elem'), n[1], w_nodes(n[2])]
    if k == 'if':
        return [Atom('if'), [Atom(n[1][0]), n[1][1]], w_nodes(n[2])]
    if k == 'for':
        return [Atom('for'), n[1], n[2], w_nodes(n[3])]
    if k == 'def':
        return [Atom('def'), n[1], w_nodes(n[2])]
    if k == 'match':
        return [Atom('match'), n[1], w_nodes(n[2])]
    if k == 'include':
        return [Atom('include'), w_href(n[1]), Atom(n[2]), None if n[3] is None else w_nodes(n[3])]
    raise ValueError(k)


def resolve_cls(nodes, own):
    """parse=None means the includer's own class (markup.py: `.get(parse) or self.__class__`;
    base.py _prepare: `cls or self.__class__`)"""
    out = []
    for n in nodes:
        k = n[0]
        if k in ('elem', 'if', 'def', 'match'):
            out.append(n[:2] + [resolve_cls(n[2], own)])
        elif k == 'for':
            out.append(n[:3] + [resolve_cls(n[3], own)])
        elif k == 'include':
            cls = {'xml': 'markup', 'text': 'text', None: own}[n[2]]
            out.append(['include', n[1], cls, None if n[3] is None else resolve_cls(n[3], own)])
        else:
            out.append(n)
    return out


def w_files(case):
    dirs = []
    for d in case['dirs']:
        fs = []
        for path, f in d:
            if 'raw' in f:
                fs.append([path, Atom(f['kind']), None])
            else:
                fs.append([path, Atom(f['kind']), w_nodes(resolve_cls(f['body'], f['kind']))])
        dirs.append(fs)
    return dirs


def w_value(v):
    if isinstance(v, str):
        return [Atom('v'), v]
    return [Atom('l')] + [w_value(x) for x in v]


def w_data(case):
    return [[k, w_value(v)] for k, v in sorted(case['data'].items())]


def w_reqs(case):
    return [[e, Atom(G.kind_of_file(case, e)), [[k, w_value(v)] for k, v in sorted(d.items())]]
            for e, d in G.requests(case)]


FUEL2 = 3 * FUEL   # the second fuel of the saturation test (see the sequence comparison in shard())


def seq_lines(case):
    files = w_files(case)
    return [proto.line(Atom('C11'), Atom('chainc'), Atom(m), fuel, files, w_reqs(case))
            for m in ('inline', 'runtime') for fuel in (FUEL, FUEL2)]


def _split_top(toks):
    """the items of a parenthesised token list, each as its token list"""
    assert toks[0] == '(' and toks[-1] == ')'
    items, depth, cur = [], 0, []
    for t in toks[1:-1]:
        cur.append(t)
        if t == '(':
            depth += 1
        elif t == ')':
            depth -= 1
        if depth == 0:
            items.append(cur)
            cur = []
    return items


def seq_outcomes(ans):
    """decode a `chainc` answer into (outcomes, prepared names after each request) (None: unmodelled)"""
    if ans == 'unmodelled':
        return None
    outs, caches = [], []
    for item in _split_top(ans.split()):
        o, c = _split_top(item)
        outs.append(model_outcome(' '.join(o)))
        caches.append(sorted(str(x) for x in proto.dec(' '.join(c))))
    return outs, caches


def model_lines(case):
    files, data = w_files(case), w_data(case)
    kind = Atom(G.entry_kind(case))
    return [proto.line(Atom('C11'), Atom('render'), Atom(m), FUEL, files, case['entry'], kind, data)
            for m in ('inline', 'runtime')] + [proto.line(Atom('C11'), Atom('inh'), files, Atom('w')),
                                               proto.line(Atom('C11'), Atom('kept'), files, case['entry'], kind),
                                               proto.line(Atom('C11'), Atom('render'), Atom('inplace'), FUEL, files,
                                                          case['entry'], kind, data)]


ERRMAP = {'NotFound': 'TemplateNotFound', 'Syntax': 'TemplateSyntaxError', 'Undefined': 'UndefinedError'}


def model_outcome(ans):
    """decode a render answer into the vocabulary of gen_c11.render_real"""
    if ans == 'unmodelled':
        return None
    if ans == 'fuel':
        return ['err', 'RecursionError']
    v = proto.dec(ans)
    if v[0] == 'err':
        return ['err', ERRMAP[str(v[1])]]
    out = []
    for e in v[1:]:
        k, s = str(e[0]), e[1]
        if k == 'T':
            if not s:
                continue
            if out and out[-1][0] == 'T':
                out[-1][1] += s
            else:
                out.append(['T', s])
        else:
            out.append([k, s])
    return ['ok', out]


# --------------------------------------------------------------------------
# the property on the real code

def case_key(case):
    return hashlib.sha1(json.dumps(case, sort_keys=True).encode()).hexdigest()[:16]


def sources(case):
    return [[i, p, G.source(f)] for i, d in enumerate(case['dirs']) for p, f in d]


def oracle_then(case, real, gate=True):
    """the further requests answered by the same loaders: position by position, inline mode
    answers like run-time mode and like the specification"""
    if gate and not (G.in_hypothesis(case) and G.modelled(case)):
        return None
    for i, (a, b) in enumerate(zip(real.get('inline_then', []), real.get('runtime_then', []))):
        if a[0] == 'skip' or b[0] == 'skip':
            continue
        entry, data = G.requests(case)[i + 1]
        if a != b:
            return {'case': case, 'what': 'request %d (%s) through the same loader: auto_reload off answers like auto_reload on' % (i + 2, entry),
                    'expected': {'runtime': b}, 'observed': {'inline': a}, 'sources': sources(case)}
        sp = G.spec_render(case, entry, data)
        if a != sp:
            return {'case': case, 'what': 'request %d (%s) through the same loader: both modes produce the content of the include targets in place' % (i + 2, entry),
                    'expected': {'spec': sp}, 'observed': {'both': a}, 'sources': sources(case)}
    return None


def oracle(case, real, spec, gate=True):
    """failure dict or None.  real = {'inline': outcome, 'runtime': outcome}"""
    if gate and not (G.in_hypothesis(case) and G.modelled(case)):
        return None
    a, b = real['inline'], real['runtime']
    if a[0] == 'skip' or b[0] == 'skip':
        return None
    if a != b:
        return {'case': case, 'what': 'rendering with auto_reload off (includes inlined) equals rendering with auto_reload on',
                'expected': {'runtime': b}, 'observed': {'inline': a}, 'sources': sources(case)}
    if spec is not None and a != spec:
        return {'case': case, 'what': 'both modes produce the content of the include targets in place (data visible, macros and match templates '
                                      'from that point on, fallback exactly when missing, not-found without fallback)',
                'expected': {'spec': spec}, 'observed': {'both': a}, 'sources': sources(case)}
    return None


def tree_dir(tag):
    return os.path.join(TREES, '%d-%s' % (os.getpid(), tag))


def evaluate(case, tag, gate=True):
    real = G.run_real(case, tree_dir(tag))
    if real['inline'][0] == 'skip' or real['runtime'][0] == 'skip':
        # over the load budget on the real code: neither the specification evaluator nor the
        # model is run on it (they would do the same unbounded amount of work)
        return real, None, None
    spec = G.spec_render(case)
    return real, spec, oracle(case, real, spec, gate) or oracle_then(case, real, gate)


def spec_stats(case):
    """what the case exercises, measured on the specification-side evaluator"""
    sp = G.Spec(case)
    f = G.find_file(case, case['entry'])
    if f is None or 'raw' in f:
        return {}
    try:
        sp.render(f['body'], case['entry'], 0, 0, None)
    except (G.SpecError, G.Diverged):
        pass
    return sp.stats


def fb_depth(nodes):
    """deepest nesting of xi:fallback inside xi:fallback in a node list"""
    d = 0
    for n in nodes:
        k = n[0]
        if k in ('elem', 'if', 'def', 'match'):
            d = max(d, fb_depth(n[2]))
        elif k == 'for':
            d = max(d, fb_depth(n[3]))
        elif k == 'include' and n[3] is not None:
            d = max(d, 1 + fb_depth(n[3]))
    return d


def shard(arg):
    seed, idx, n, mode = arg
    res = Result()
    cases = []
    for i in range(n):
        rng = random.Random('%s/%s/%s/%s/C11' % (seed, mode, idx, i))
        if mode == 'zone':
            case = G.gen_case(rng, zone=True, illformed=rng.random() < 0.3)
        elif mode == 'ill':
            # one ill-formed file in an otherwise ordinary tree (inside inHW), several requests through one loader:
            # preparations that fail part-way, at load time and inside run-time includes
            case = G.gen_case(rng, illformed=True, seq=True)
        else:
            case = G.gen_case(rng)
        cases.append(case)
    evald = []
    for i, case in enumerate(cases):
        res.evaluations += 1
        real, spec, fail = evaluate(case, '%s-%s-%d' % (mode, idx, i))
        if spec is None:
            res.count('skipped:load-budget')
            continue
        evald.append((case, real, spec, fail))
    lines = []
    for case, _, _, _ in evald:
        lines.extend(model_lines(case))
    seq_at = {}
    for i, (case, real, _, _) in enumerate(evald):
        if case.get('then') and not any(o[0] == 'skip' for o in real['inline_then'] + real['runtime_then']):
            seq_at[i] = len(lines)
            lines.extend(seq_lines(case))
    lseq_at = {}
    for i, (case, real, _, _) in enumerate(evald):
        if real.get('load_seq') is not None:
            lseq_at[i] = len(lines)
            lines.append(proto.line(Atom('C11'), Atom('loads'), w_files(case),
                                    [[n, Atom(G.kind_of_file(case, n))] for n in G.load_order(case)]))
    answers = proto.run_lines(lines)
    for i, (case, real, spec, fail) in enumerate(evald):
        if i in lseq_at and answers[lseq_at[i]] != 'unmodelled':
            # preparation alone: every file (and a missing name) loaded in turn through one loader with auto_reload off,
            # nothing rendered -- outcome and the loader's prepared templates after each load, failed preparations included
            ml = []
            for item in _split_top(answers[lseq_at[i]].split()):
                o, c = _split_top(item)
                o = ' '.join(o)
                ml.append(['ok' if o == 'ok' else model_outcome(o)[1], sorted(str(x) for x in proto.dec(' '.join(c)))])
            res.streams['load-sequence'] = res.streams.get('load-sequence', 0) + 1
            for o, c in real['load_seq']:
                if o == 'TemplateSyntaxError':
                    res.count('load-sequence:failed-preparation:%d-prepared-so-far' % min(len(c), 3))
            if ml != real['load_seq']:
                res.disagreements.append({'stream': 'load-sequence', 'case': case, 'model': repr(ml)[:600],
                                          'real': repr(real['load_seq'])[:600], 'sources': sources(case)})
        if i in seq_at:
            res.count('requests-through-one-loader:%d' % len(G.requests(case)))
            for j, m in enumerate(('inline', 'runtime')):
                dec = seq_outcomes(answers[seq_at[i] + 2 * j])
                dec2 = seq_outcomes(answers[seq_at[i] + 2 * j + 1])
                if dec is None or dec2 is None:
                    continue
                mo, mc = dec
                ro = [real[m]] + real[m + '_then']
                # the model keeps what a failed render had loaded and prepared (renderSeqF), like the loader does:
                # the whole sequence is compared.  Only where a render hits the recursion limit the two sides stop
                # at different depths (fuel 24 vs 420 Python frames) and have loaded different sets: from the
                # request after that one on the comparison would be about the limits, not about the code
                # (the same after a TemplateSyntaxError: an ill-formed file -- outside the property's quantifier -- met
                # while a template is being prepared leaves the templates prepared inside it before that point in the
                # loader; the model's preparation drops its cache on an error)
                # Saturation: fuel and Python frames are different units, so "which templates had been loaded when
                # the limit was hit" is compared only where it does not depend on the limit: the model answers the
                # whole sequence alike (outcomes and loader states) with fuel 24 and with fuel 72.  Then every
                # template the endless descent ever loads is loaded within the first 24 levels, and the sequence is
                # compared to its end.  Otherwise it is cut after the request that hit the limit, as before (counted).
                CUT = (['err', 'RecursionError'],)
                saturated = dec == dec2
                if any(o in CUT for o in ro):
                    res.count('sequence:RecursionError:' + ('saturated-no-cut' if saturated else 'not-saturated-cut'))
                if saturated:
                    CUT = ()
                k = next((x + 1 for x, o in enumerate(ro) if o in CUT), len(ro))
                if k < len(ro):
                    res.count('sequence:cut-after-%s' % ro[k - 1][1])
                if any(o[0] != 'ok' for o in ro[:k - 1]):
                    res.count('sequence:request-after-failed-render:' + m)
                res.streams['sequence-' + m] = res.streams.get('sequence-' + m, 0) + 1
                if mo[:k] != ro[:k]:
                    res.disagreements.append({'stream': 'sequence-' + m, 'case': case, 'model': repr(mo[:k])[:600],
                                              'real': repr(ro[:k])[:600], 'sources': sources(case)})
                if m == 'inline' and real.get('inline_prepared') is not None:
                    # the loader's state itself: which templates it holds prepared after every request, failed
                    # requests included (up to the first one that hit the recursion limit / an ill-formed file, exclusive)
                    kk = next((x for x, o in enumerate(ro) if o in CUT), len(ro))
                    rc = real['inline_prepared'][:kk]
                    res.streams['loader-after-request'] = res.streams.get('loader-after-request', 0) + 1
                    for x, o in enumerate(ro[:kk]):
                        if o[0] != 'ok':
                            res.count('loader-after-failed-render:%s:%d-prepared' % (o[1], min(len(rc[x]), 3)))
                    if mc[:kk] != rc:
                        res.disagreements.append({'stream': 'loader-after-request', 'case': case, 'model': repr(mc[:kk])[:600],
                                                  'real': repr(rc)[:600], 'sources': sources(case)})
        inh = G.in_hypothesis(case) and G.modelled(case)
        res.count('hypothesis:' + ('inside' if inh else 'outside'))
        res.count('outcome:' + (real['runtime'][0] if real['runtime'][0] == 'ok' else real['runtime'][1]))
        res.count('files:%d' % sum(len(d) for d in case['dirs']))
        res.count('entry:' + G.entry_kind(case))
        res.count('fallback-nesting:%d' % max([fb_depth(f['body']) for d in case['dirs'] for _, f in d if 'body' in f] or [0]))
        if real['inline'] != real['runtime']:
            res.count('modes-differ:' + ('inside' if inh else 'outside-hypothesis'))
        st = spec_stats(case)
        for k, v in st.items():
            if v:
                res.count('exercised:' + k)
        if st.get('include-found') or st.get('include-fallback') or st.get('include-notfound'):
            res.nontrivial.add(case_key(case))
        if fail:
            res.failures.append(fail)
        # correspondence: model vs code, mode by mode, inside and outside the hypothesis
        for j, m in enumerate(('inline', 'runtime')):
            mo = model_outcome(answers[NL * i + j])
            if mo is None:
                res.count('model:unmodelled')
                continue
            res.streams['render-' + m] = res.streams.get('render-' + m, 0) + 1
            if mo != real[m]:
                res.disagreements.append({'stream': 'render-' + m, 'case': case, 'model': repr(mo)[:600],
                                          'real': repr(real[m])[:600], 'sources': sources(case)})
        lean_inh, lean_inhw, lean_inhs = [x == 'T' for x in answers[NL * i + 2].strip('() ').split()]
        res.streams['hypothesis'] = res.streams.get('hypothesis', 0) + 1
        if lean_inh != G.in_hypothesis(case):
            res.disagreements.append({'stream': 'hypothesis', 'case': case, 'model': repr(lean_inh),
                                      'real': repr(G.in_hypothesis(case)), 'sources': sources(case)})
        # inHW (ill-formed files allowed): where the theorem inline_eq_runtime_illformed_partial speaks
        inhw = G.in_hypothesis_w(case)
        res.streams['hypothesis-w'] = res.streams.get('hypothesis-w', 0) + 1
        if lean_inhw != inhw:
            res.disagreements.append({'stream': 'hypothesis-w', 'case': case, 'model': repr(lean_inhw),
                                      'real': repr(inhw), 'sources': sources(case)})
        inhs = G.in_hypothesis_s(case)
        res.streams['hypothesis-s'] = res.streams.get('hypothesis-s', 0) + 1
        if lean_inhs != inhs:
            res.disagreements.append({'stream': 'hypothesis-s', 'case': case, 'model': repr(lean_inhs),
                                      'real': repr(inhs), 'sources': sources(case)})
        if inhw and not G.static_targets_wellformed(case) and G.modelled(case):
            a, b = real['inline'], real['runtime']
            res.count('ill-formed-inside-inHW:' + ('modes-agree' if a == b else
                                                   'inline-raises-syntax-error-only' if a == ['err', 'TemplateSyntaxError'] else
                                                   'OTHER'))
        # the Lean specification evaluator (an include is rendered as its target's nodes in place), where
        # `runtime_eq_spec_partial` speaks (no match template defined in the file set): against the real code
        sa = answers[NL * i + 4]
        if sa == 'na':
            res.count('spec-lean:match-templates-outside-inHS')
        else:
            so = model_outcome(sa)
            if so is None:
                res.count('spec-lean:unmodelled')
            else:
                res.streams['spec-lean'] = res.streams.get('spec-lean', 0) + 1
                res.count('spec-lean:' + (so[0] if so[0] == 'ok' else so[1]))
                if G.case_match_tags(case):
                    res.count('spec-lean:with-match-templates' + (':match-applied' if st.get('match-applied') or st.get('match-applied-across-files') else ''))
                if st.get('include-found') or st.get('include-fallback'):
                    res.count('spec-lean:with-includes')
                if so != real['runtime']:
                    res.disagreements.append({'stream': 'spec-lean', 'case': case, 'model': repr(so)[:600],
                                              'real': repr(real['runtime'])[:600], 'sources': sources(case)})
        if real.get('kept') is not None:
            ka = answers[NL * i + 3]
            mk = None if ka in ('err', 'fuel') else list(proto.dec(ka))[1:] if ka != '( ok )' else []
            res.streams['prepared-static-includes'] = res.streams.get('prepared-static-includes', 0) + 1
            if real['kept']:
                res.count('prepared:kept-static-include')
            g = G.static_graph(case)
            if any(G.find_file(case, t) is not None and not G.on_cycle(g, t) for t in real['kept']):
                res.count('prepared:kept-include-neither-missing-nor-cyclic')
            if mk != real['kept']:
                # informational only: the property speaks about rendered output; a change of what
                # _prepare inlines that leaves every output alone is not a violation
                res.count('prepared:differs-from-model')
                if len(res.notes) < 3:
                    res.notes.append('prepared stream of %s keeps static includes %r, model %r' % (case['entry'], real['kept'], mk))
        if i < 2 and idx == 0:
            res.samples.append({'sources': sources(case), 'data': case['data'], 'inline': real['inline'], 'runtime': real['runtime']})
    return res


PATH_SEGS = ['a', 'sub', 'deep', '..', '.', '', 'x.html', 'zz', '...', 'a.b']


def path_shard(arg):
    """loader path arithmetic: Genshi.Incl.resolve vs os.path on relative names"""
    seed, idx, n = arg
    rng = random.Random('%s/%s/C11-paths' % (seed, idx))
    res = Result()
    pairs = []
    for _ in range(n):
        pos = '/'.join(rng.choice(['sub', 'deep', 'a', 'x.html']) for _ in range(rng.randrange(1, 4)))
        href = '/'.join(rng.choice(PATH_SEGS) for _ in range(rng.randrange(0, 6)))
        pairs.append((pos, href))
    answers = proto.run_lines([proto.line(Atom('C11'), Atom('resolve'), p, h) for p, h in pairs])
    for (pos, href), ans in zip(pairs, answers):
        res.evaluations += 1
        if href.startswith('/'):
            real = Atom('N')
        else:
            real = posixpath.normpath(posixpath.join(posixpath.dirname(pos), href))
        model = proto.dec(ans)
        res.streams['resolve'] = res.streams.get('resolve', 0) + 1
        if model != real:
            res.disagreements.append({'stream': 'resolve', 'case': {'pos': pos, 'href': href}, 'model': repr(model), 'real': repr(real)})
    return res


def corpus_cases():
    d = os.path.join(os.path.dirname(BUILD), 'corpus', 'C11')
    out = []
    if os.path.isdir(d):
        for f in sorted(os.listdir(d)):
            if f.endswith('.json'):
                with open(os.path.join(d, f)) as fh:
                    out.append(json.load(fh))
    return out


def corpus_shard(arg):
    res = Result()
    evald = []
    for i, case in enumerate(corpus_cases()):
        res.evaluations += 1
        real, spec, fail = evaluate(case, 'corpus-%d' % i)
        if spec is None:
            res.count('skipped:load-budget')
            continue
        if fail:
            res.failures.append(fail)
        evald.append((case, real))
    lines = []
    for case, _ in evald:
        lines.extend(model_lines(case))
    seq_at = {}
    for i, (case, real) in enumerate(evald):
        outs = [real['inline'], real['runtime']] + real['inline_then'] + real['runtime_then']
        if case.get('then') and not any(o[0] == 'skip' or o == ['err', 'RecursionError'] for o in outs):
            seq_at[i] = len(lines)
            lines.extend(seq_lines(case))
    answers = proto.run_lines(lines)
    for i, (case, real) in enumerate(evald):
        for j, m in enumerate(('inline', 'runtime')):
            mo = model_outcome(answers[NL * i + j])
            if mo is None:
                continue
            res.streams['corpus-' + m] = res.streams.get('corpus-' + m, 0) + 1
            if mo != real[m]:
                res.disagreements.append({'stream': 'corpus-' + m, 'case': case, 'model': repr(mo)[:600], 'real': repr(real[m])[:600]})
        if i in seq_at:
            # several requests through one loader: outcomes in both modes, and the loader's prepared templates after
            # every request (failed ones included) in inline mode
            for j, m in enumerate(('inline', 'runtime')):
                dec = seq_outcomes(answers[seq_at[i] + 2 * j])
                if dec is None:
                    continue
                mo, mc = dec
                ro = [real[m]] + real[m + '_then']
                res.streams['corpus-sequence-' + m] = res.streams.get('corpus-sequence-' + m, 0) + 1
                if mo != ro:
                    res.disagreements.append({'stream': 'corpus-sequence-' + m, 'case': case, 'model': repr(mo)[:600], 'real': repr(ro)[:600]})
                if m == 'inline' and mc != real['inline_prepared']:
                    res.disagreements.append({'stream': 'corpus-loader-after-request', 'case': case, 'model': repr(mc)[:600],
                                              'real': repr(real['inline_prepared'])[:600]})
    return res


def run(ctx):
    res = Result()
    try:
        nsh = 16
        per = ctx.n(100, 3200)           # inside the hypothesis: 1 600 / 51 200 trees
        perz = ctx.n(30, 800)            # outside it (zone / ill-formed): correspondence only
        peri = ctx.n(15, 400)            # one ill-formed file, inside inHW, sequences: preparations failing part-way
        args = ([(ctx.seed, i, per, 'in') for i in range(nsh)] + [(ctx.seed, i, perz, 'zone') for i in range(nsh)] +
                [(ctx.seed, i, peri, 'ill') for i in range(nsh)])
        for r in pmap('harness.props.c11', 'corpus_shard', [0], procs=1):
            res.merge(r)
        for r in pmap('harness.props.c11', 'shard', args, procs=16):
            res.merge(r)
        for r in pmap('harness.props.c11', 'path_shard', [(ctx.seed, i, ctx.n(2000, 20000)) for i in range(4)], procs=4):
            res.merge(r)
    finally:
        shutil.rmtree(TREES, ignore_errors=True)
    res.rule = ('generated directory trees (1-6 markup/text template files in 1-2 search directories, sub-directories, static / expression-valued / '
                'conditional / looped / nested / missing / fallback-protected / mutually recursive includes, macros, match templates), each rendered '
                'with auto_reload off and on; non-trivial = the specification evaluator performs at least one include (target found, fallback used '
                'or not-found raised); distinct by canonical JSON of the tree')
    res.samples = res.samples[:4]
    return res


def search(ctx, res, broken):
    found = []
    try:
        for k, d in enumerate(res.disagreements[:100]):
            case = d['case']
            if 'dirs' not in case:
                continue
            _, _, f = evaluate(case, 'search-%d' % k, gate=False)
            if f and not (G.in_hypothesis(case) and G.modelled(case)):
                # outside the hypothesis the two modes are known to differ (recorded findings)
                f = None
            if f:
                found.append(f)
        if found:
            return found
        args = [(ctx.seed + 1000 + i, i, 150, 'in') for i in range(16)]
        for r in pmap('harness.props.c11', 'shard', args, procs=16):
            found.extend(r.failures)
    finally:
        shutil.rmtree(TREES, ignore_errors=True)
    return found


def finding_inputs():
    path = os.path.join(os.path.dirname(BUILD), 'findings', 'C11.json')
    with open(path) as f:
        return set(json.dumps(e['input'], sort_keys=True) for e in json.load(f) if 'input' in e)


def replay(ctx, case):
    """the oracle on one case.  A listed finding / fixed entry is judged as it stands (mode vs mode
    and vs the specification); anything else (replay files, shrinking candidates) must be a
    well-shaped case inside the hypothesis, like the generated ones"""
    if not G.valid_case(case):
        return None
    listed = json.dumps(case, sort_keys=True) in finding_inputs()
    try:
        _, _, f = evaluate(case, 'replay', gate=not listed)
        return f
    finally:
        shutil.rmtree(TREES, ignore_errors=True)

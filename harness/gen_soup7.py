"""Generators for C07: HTML tag soup, valid HTML documents (for prefixes / truncations),
chunked readers, and well-formed XML documents together with their generating tree and the
event list the tree stands for (computed from the tree alone, never from a parser).

Everything is driven by a `random.Random` handed in by the caller.
"""

VOID_HTML4 = ['area', 'base', 'basefont', 'br', 'col', 'frame', 'hr', 'img', 'input', 'isindex',
              'link', 'meta', 'param']
TAGS = ['a', 'b', 'p', 'div', 'span', 'ul', 'li', 'table', 'tr', 'td', 'em', 'h1', 'body', 'html',
        'title', 'textarea', 'script', 'style', 'pre', 'form', 'select', 'option', 'x-y', 'a:b',
        'o{p}q', 'svg', 'BR', 'Div', 'IMG', 'brx', 'xbr']
ATTRN = ['id', 'class', 'href', 'title', 'checked', 'selected', 'style', 'data-x', 'xml:lang',
         'onclick', 'A', 'a{b}c', '{x']
ENTS = ['&amp;', '&lt;', '&gt;', '&quot;', '&apos;', '&nbsp;', '&hellip;', '&eacute;', '&junk;', '&#65;',
        '&#x41;', '&#X41;', '&#0;', '&#1114112;', '&#x110000;', '&#xD800;', '&#55296;', '&#99999999999;',
        '&amp;#1114112;', '&amp;#x110000;', '&amp;#99999999999999999999;', '&amp;amp;', '&amp;lt;',
        '&amp;nbsp;', '&amp;#65;', '&amp', '&#', '&#x', '&', '&;', '&#;', '&lt', '&nbsp', '&notit;']
CTRL = ['\x00', '\x01', '\x08', '\x0b', '\x0c', '\x1c', '\x1f', '\x7f', '\x85', '\xa0', ' ',
        ' ', '﻿', '￾', '￿', '\r', '\r\n', '\n', '\t', ' ']
WORDS = ['foo', 'bar', 'x', 'Hello world', 'é', 'ß', 'İ', '\U0001F600', '漢字', '1 < 2', 'a > b',
         'q"q', "q'q", '=', '/', '>', '<', '<<', '>>', '</', '<!', '<?', ']]>', '--', '-->', '{', '}']


def rand_char(rng):
    r = rng.random()
    if r < 0.5:
        return chr(rng.randrange(0x20, 0x7f))
    if r < 0.6:
        return rng.choice(CTRL)
    if r < 0.8:
        return chr(rng.randrange(0xa0, 0x800))
    if r < 0.9:
        return chr(rng.choice([rng.randrange(0x800, 0xd800), rng.randrange(0xe000, 0x10000)]))
    return chr(rng.randrange(0x10000, 0x110000))


def rand_text(rng, n=4):
    out = []
    for _ in range(rng.randrange(0, n + 1)):
        r = rng.random()
        if r < 0.45:
            out.append(rng.choice(WORDS))
        elif r < 0.65:
            out.append(rng.choice(ENTS))
        elif r < 0.8:
            out.append(rng.choice(CTRL))
        else:
            out.append(rand_char(rng))
    return ''.join(out)


def rand_attr(rng):
    n = rng.choice(ATTRN)
    r = rng.random()
    if r < 0.2:
        return n
    v = rand_text(rng, 2)
    if r < 0.5:
        return '%s="%s"' % (n, v.replace('"', ''))
    if r < 0.7:
        return "%s='%s'" % (n, v.replace("'", ''))
    if r < 0.85:
        return '%s=%s' % (n, v.replace(' ', ''))
    return '%s = "%s' % (n, v)   # unterminated / odd spacing


def rand_starttag(rng, tag=None):
    tag = tag or rng.choice(TAGS + VOID_HTML4)
    attrs = ' '.join(rand_attr(rng) for _ in range(rng.choice([0, 0, 1, 1, 2, 3])))
    r = rng.random()
    end = '>' if r < 0.85 else ('/>' if r < 0.95 else rng.choice(['', ' ', '/', ' >>']))
    return '<%s%s%s%s' % (tag, ' ' if attrs else rng.choice(['', '', ' ']), attrs, end)


def soup_piece(rng, open_tags):
    r = rng.random()
    if r < 0.30:
        tag = rng.choice(TAGS + VOID_HTML4)
        open_tags.append(tag)
        return rand_starttag(rng, tag)
    if r < 0.50:
        if open_tags and rng.random() < 0.6:
            tag = open_tags.pop(rng.randrange(len(open_tags)) if rng.random() < 0.3 else -1)
        else:
            tag = rng.choice(TAGS + VOID_HTML4)
        if rng.random() < 0.15:
            tag = tag.upper()
        return '</%s%s' % (tag, rng.choice(['>', '>', '>', ' >', ' x>', '', '/>']))
    if r < 0.72:
        return rand_text(rng)
    if r < 0.78:
        return '<!--%s%s' % (rand_text(rng, 2), rng.choice(['-->', '-->', '--!>', '->', '']))
    if r < 0.83:
        return '<?%s%s' % (rng.choice(['php echo 1', 'x', '', ' ', 'xml version="1.0"', 'a\tb  c ', 'a?', '\xa0a b',
                                       'pi ' + rand_text(rng, 2)]),
                           rng.choice(['?>', '>', '?>', '']))
    if r < 0.88:
        return rng.choice(['<!DOCTYPE html>', '<!doctype html PUBLIC "-//W3C//DTD HTML 4.01//EN">', '<!DOCTYPE',
                           '<![CDATA[x<y]]>', '<![CDATA[', '<![if IE]>', '<![endif]>', '<![foo[x]]>', '<![ foo',
                           '<!ELEMENT br EMPTY>', '<!>', '<!-', '<!x', '</>', '</ >', '< a>', '<>', '<3'])
    if r < 0.93:
        t = rng.choice(['script', 'style', 'textarea', 'title'])
        body = rng.choice(['a<b', 'if (a < b && c) {}', '</x>', '<!-- x -->', '&amp;', '</scr', rand_text(rng, 2)])
        return '<%s>%s%s' % (t, body, rng.choice(['</%s>' % t, '</%s>' % t, '</%s >' % t.upper(), '', '</']))
    return rng.choice(ENTS) + rng.choice(['', ';', ' ', 'x'])


def soup(rng, pieces=None):
    n = pieces if pieces is not None else rng.choice([0, 1, 2, 3, 5, 8, 13, 21])
    open_tags = []
    return ''.join(soup_piece(rng, open_tags) for _ in range(n))


ATTRN_ODD = ['a}b', '}', '{', 'x:y:z', ':', 'a{', '{ns}local', 'xmlns', 'xmlns:p', '{{x}y', 'a:b', '}{', 'x}', 'xml:lang', 'A:B']
UNTERMINATED = ['<!--x', '<!-- a -', '<a href="v', "<a href='v w", '<a href=v', '<a b', '<a', '<', '</a', '</', '<?php echo', '<?', '<![CDATA[x', '<![CDATA[x]]',
                '<!DOCTYPE html', '<!', '<![if', '&#12', '&#x4', '&amp', '&', '<script>x</scr', '<textarea>a</textarea', '<p/', '<br /', '<a b="1"/',
                '<o{p}q {x="', '<a a}b=']
TERMINATORS = ['>', '">', "'>", '-->', '?>', ']]>', ';', '/>', ' >', 'ipt>', '']


def nested_selfclosing(rng):
    """self-closing non-void elements inside same-named ancestors: `<p><div><p/>x</div>y</p>` — handle_startendtag
    pushes the tag and pops to the innermost element of that name"""
    out = []
    stack = []
    for _ in range(rng.choice([2, 3, 4, 6, 9])):
        r = rng.random()
        t = rng.choice(stack) if stack and rng.random() < 0.7 else rng.choice(['p', 'div', 'a', 'b', 'li', 'x-y', 'a:b', 'o{p}q', 'td'])
        if rng.random() < 0.15:
            t = t.upper()
        at = ''.join(' ' + rand_attr(rng) for _ in range(rng.choice([0, 0, 1])))
        if r < 0.4:
            out.append('<%s%s>' % (t, at))
            stack.append(t.lower())
        elif r < 0.7:
            out.append('<%s%s%s/>' % (t, at, rng.choice(['', ' '])))
        elif r < 0.9 and stack:
            out.append('</%s>' % stack.pop(rng.randrange(len(stack))))
        else:
            out.append(rng.choice(['x', ' ', 'text', '&amp;']))
    return ''.join(out)


def odd_attr_names(rng):
    """attribute names holding braces and colons (QName splits at them)"""
    out = []
    for _ in range(rng.choice([1, 2, 3])):
        attrs = []
        for _ in range(rng.choice([1, 2, 3])):
            n = rng.choice(ATTRN_ODD)
            r = rng.random()
            attrs.append(n if r < 0.3 else '%s="%s"' % (n, rng.choice(['', 'v', '{u}w', '&amp;', 'a}b'])) if r < 0.8 else "%s=%s" % (n, rng.choice(['v', '{', '}'])))
        out.append('<%s %s%s' % (rng.choice(['a', 'p', 'br', 'img', 'a:b']), ' '.join(attrs), rng.choice(['>', '/>', ' >'])))
        out.append(rng.choice(['', 'x', '</a>']))
    return ''.join(out)


def boundary_html(rng, boundary=None):
    """a construct that is still open where a read() ends: `boundary` characters of tidy filler, then an unterminated
    construct that starts up to its own length before the boundary, then (perhaps) its end and more markup"""
    c = rng.choice(UNTERMINATED)
    if boundary is None:
        return soup(rng, 2) + c + rng.choice(['', rng.choice(TERMINATORS) + soup(rng, 2)])
    k = rng.randrange(0, len(c) + 2)
    filler = []
    n = 0
    while n < boundary:
        piece = rng.choice(['<p>text</p>', 'x' * 50, '<b>b</b> ', 'caf&eacute; ', '<br>', '\n'])
        filler.append(piece)
        n += len(piece)
    head = ''.join(filler)[:max(0, boundary - k)]
    return head + c + rng.choice(['', rng.choice(TERMINATORS) + soup(rng, 3)])


def pressure_html(rng):
    r = rng.random()
    if r < 0.5:
        return nested_selfclosing(rng)
    if r < 0.7:
        return odd_attr_names(rng)
    return boundary_html(rng)


def valid_html(rng, depth=0, budget=None):
    """a tidy HTML fragment: every non-void element closed, attributes quoted"""
    if budget is None:
        budget = [rng.choice([3, 6, 12, 25])]
    out = []
    for _ in range(rng.randrange(1, 4)):
        if budget[0] <= 0:
            break
        budget[0] -= 1
        r = rng.random()
        if r < 0.25:
            out.append(rng.choice(['text ', 'a &amp; b', '&lt;', 'caf&eacute;', '&#65;&#x42;', 'line\nbreak', 'é漢']))
        elif r < 0.35:
            t = rng.choice(VOID_HTML4)
            out.append('<%s%s>' % (t, rng.choice(['', ' id="v"', ' checked', ' /'])))
        elif r < 0.42:
            out.append('<!-- %s -->' % rng.choice(['c', 'a<b', '']))
        elif r < 0.46:
            out.append('<?php echo "x" ?>')
        elif r < 0.52:
            out.append('<script>if (a<b && c) {x="</p>"}</script>')
        elif depth < 6:
            t = rng.choice(['a', 'b', 'p', 'div', 'span', 'ul', 'li', 'em', 'td'])
            at = rng.choice(['', ' class="c"', ' href="?a=1&amp;b=2"', ' title=\'q"q\' id=x', ' checked', ' data-x="&nbsp;"'])
            out.append('<%s%s>%s</%s>' % (t, at, valid_html(rng, depth + 1, budget), t))
    return ''.join(out)


def valid_html_doc(rng):
    return rng.choice(['', '<!DOCTYPE html>\n']) + '<html><head><title>T &amp; t</title></head><body>' + \
        valid_html(rng) + '</body></html>' + rng.choice(['', '\n'])


def big_html(rng, target):
    """soup or valid markup longer than `target` characters (crosses the 4 KiB read buffer)"""
    parts = []
    n = 0
    while n < target:
        p = soup(rng, 6) if rng.random() < 0.5 else valid_html(rng)
        parts.append(p)
        n += len(p)
    return ''.join(parts)


class ChunkReader(object):
    """file-like object whose read() returns `size` characters (or bytes) whatever is asked for"""

    def __init__(self, data, size):
        self.data, self.size, self.i = data, size, 0

    def read(self, n=-1):
        s = self.size
        out = self.data[self.i:self.i + s]
        self.i += s
        return out


class ScheduleReader(object):
    """read() returns pieces of the given lengths in turn (the last length repeats)"""

    def __init__(self, data, sizes):
        self.data, self.sizes, self.i, self.k = data, list(sizes) or [1], 0, 0

    def read(self, n=-1):
        s = self.sizes[min(self.k, len(self.sizes) - 1)]
        self.k += 1
        out = self.data[self.i:self.i + s]
        self.i += s
        return out


# --------------------------------------------------------------------------
# well-formed XML from a generating tree

XNAMES = ['a', 'b', 'doc', 'item', 'x-y', 'x.y', '_u', 'é', 'Ab']
XPFX = ['p', 'q', 'xs']
XURIS = ['u', 'http://www.w3.org/1999/xhtml', 'urn:x:y', 'U', 'v w']
XTEXT = ['t', 'Hello', ' ', '\n', '  \n  ', '<', '&', '>', '"', "'", ']]>', 'é', '漢', '\U0001F600', '\xa0', ' ',
         '\x85', '\t', 'a&b<c', '{', '}', 'x' * 40]
HTML_ENT = [('nbsp', '\xa0'), ('eacute', 'é'), ('hellip', '…'), ('copy', '\xa9'), ('lt', '<'), ('amp', '&'),
            ('quot', '"'), ('apos', "'"), ('gt', '>')]


def gen_xml_tree(rng, allow_internal_entities=True):
    """a JSON-serialisable tree:
    {'decl': None|[version, encoding|None, standalone(-1|0|1)], 'doctype': None|[name, pubid|None, sysid|None],
     'entities': [[name, value]], 'prolog': [misc], 'root': elem, 'epilog': [misc]}
    elem = {'k':'e', 'name':[prefix, local], 'ns':[[prefix, uri]], 'attrs':[[[prefix, local], [piece...]]], 'kids':[node]}
    node = elem | {'k':'t', 'pieces':[piece]} | {'k':'c', 'text':s} | {'k':'pi', 'target':s, 'data':s} | {'k':'cdata','text':s}
    piece = ['raw', s] | ['ent', name, value] | ['num', 'd'|'x', s(one char)] | ['ient', name] (internal entity, text only)
          | ['xent', name] (external general entity declared in the internal subset ('xentities': [[name, sysid, pubid|None]]):
            never fetched, the reference contributes nothing; text only)
    """
    doc = {'decl': None, 'doctype': None, 'entities': [], 'xentities': [], 'prolog': [], 'epilog': []}
    r = rng.random()
    if r < 0.3:
        doc['decl'] = ['1.0', rng.choice([None, 'utf-8', 'UTF-8', 'iso-8859-1', 'utf-16', 'us-ascii', 'windows-1252', 'x-bogus']), rng.choice([-1, -1, 0])]
    r = rng.random()
    if r < 0.3:
        doc['doctype'] = [None, rng.choice([None, None, '-//W3C//DTD XHTML 1.0 Strict//EN']),
                          None]
        if doc['doctype'][1] or rng.random() < 0.3:
            doc['doctype'][2] = rng.choice(['x.dtd', 'http://www.w3.org/TR/xhtml1/DTD/xhtml1-strict.dtd'])
        if allow_internal_entities and rng.random() < 0.5:
            for nme in rng.sample(['e1', 'foo', 'Bar'], rng.randrange(1, 3)):
                doc['entities'].append([nme, rng.choice(['bar', 'x y', 'é', '', '&#233;t&#233;', 'a&amp;b'])])
        if allow_internal_entities and rng.random() < 0.25:
            for nme in rng.sample(['ext', 'X2'], rng.randrange(1, 3)):
                doc['xentities'].append([nme, rng.choice(['f', 'http://example.org/e.xml', 'x.dtd']), rng.choice([None, None, '-//x//y'])])

    def misc():
        out = []
        for _ in range(rng.choice([0, 0, 1, 2])):
            if rng.random() < 0.5:
                out.append({'k': 'c', 'text': rng.choice([' c ', '', 'a-b', '<x>&amp;'])})
            else:
                out.append({'k': 'pi', 'target': rng.choice(['php', 'x-y', 'target']),
                            'data': rng.choice(['', 'echo 1', 'a="b" ', '<>&'])})
        return out
    doc['prolog'] = misc()
    doc['epilog'] = misc()
    budget = [rng.choice([2, 5, 10, 20, 40])]
    ents = [e[0] for e in doc['entities']]
    xents = [e[0] for e in doc['xentities']]

    def pieces(in_attr):
        out = []
        for _ in range(rng.choice([1, 1, 2, 3])):
            r = rng.random()
            if r < 0.6:
                out.append(['raw', rng.choice(XTEXT)])
            elif r < 0.75:
                n, v = rng.choice(HTML_ENT)
                out.append(['ent', n, v])
            elif xents and not in_attr and r > 0.95:
                out.append(['xent', rng.choice(xents)])
            elif r < 0.9 or not ents:
                c = rng.choice(['A', '<', '&', 'é', '\U0001F600', '\t', '\n', ' ', '\r', ' '])
                out.append(['num', rng.choice('dx'), c])
            else:
                out.append(['ient', rng.choice(ents)])
        return out

    def elem(depth, scope):
        budget[0] -= 1
        ns = []
        scope = dict(scope)
        for _ in range(rng.choice([0, 0, 0, 1, 1, 2])):
            p = rng.choice(XPFX + ['', ''])
            if any(p == q for q, _ in ns):
                continue
            if p == '' and rng.random() < 0.2 and scope.get('', ''):
                u = ''      # undeclare the default namespace
            else:
                u = rng.choice(XURIS)
            ns.append([p, u])
            scope[p] = u
        usable = [p for p in scope if p and scope[p]]
        pfx = rng.choice(usable) if usable and rng.random() < 0.4 else ''
        name = [pfx, rng.choice(XNAMES)]
        attrs = []
        seen = set()
        for _ in range(rng.choice([0, 0, 1, 2, 3])):
            ap = rng.choice(usable) if usable and rng.random() < 0.3 else ''
            if rng.random() < 0.08:
                ap, al = 'xml', rng.choice(['lang', 'space'])
                key = ('http://www.w3.org/XML/1998/namespace', al)
            else:
                al = rng.choice(XNAMES + ['id', 'class'])
                key = (scope.get(ap, '') if ap else '', al)
            if key in seen:
                continue
            seen.add(key)
            attrs.append([[ap, al], pieces(True)])
        kids = []
        if depth < 7:
            for _ in range(rng.choice([0, 1, 1, 2, 3, 4])):
                if budget[0] <= 0:
                    break
                r = rng.random()
                if r < 0.4:
                    kids.append(elem(depth + 1, scope))
                elif r < 0.75:
                    kids.append({'k': 't', 'pieces': pieces(False)})
                elif r < 0.83:
                    kids.append({'k': 'c', 'text': rng.choice([' c ', '', 'a-b', '<x>&amp;', 'é'])})
                elif r < 0.9:
                    kids.append({'k': 'pi', 'target': rng.choice(['php', 'x-y']), 'data': rng.choice(['', 'echo 1', '<>& '])})
                else:
                    kids.append({'k': 'cdata', 'text': rng.choice(['', 'x', '<a>&amp;</a>', ']]', ' \n '])})
        return {'k': 'e', 'name': name, 'ns': ns, 'attrs': attrs, 'kids': kids}
    doc['root'] = elem(0, {})
    if doc['doctype']:
        doc['doctype'][0] = (doc['root']['name'][0] + ':' if doc['root']['name'][0] else '') + doc['root']['name'][1]
    return doc


def _esc_text(s):
    return s.replace('&', '&amp;').replace('<', '&lt;').replace('>', '&gt;').replace('\r', '&#13;')


def _esc_attr(s, q):
    s = s.replace('&', '&amp;').replace('<', '&lt;').replace(q, '&quot;' if q == '"' else '&apos;')
    return s.replace('\t', '&#9;').replace('\n', '&#10;').replace('\r', '&#13;')


def _piece_src(p, in_attr, q='"'):
    if p[0] == 'raw':
        return _esc_attr(p[1], q) if in_attr else _esc_text(p[1])
    if p[0] == 'ent':
        return '&%s;' % p[1]
    if p[0] == 'num':
        return '&#%d;' % ord(p[2]) if p[1] == 'd' else '&#x%x;' % ord(p[2])
    if p[0] in ('ient', 'xent'):
        return '&%s;' % p[1]
    raise ValueError(p)


def _ent_value(doc, name):
    """the replacement text of an internal entity after its own references are resolved
    (the generator only uses numeric and predefined references inside entity values)"""
    import re
    for n, v in doc['entities']:
        if n == name:
            v = re.sub(r'&#(\d+);', lambda m: chr(int(m.group(1))), v)
            return v.replace('&lt;', '<').replace('&amp;', '&')
    raise KeyError(name)


def _piece_val(doc, p):
    if p[0] == 'raw':
        return p[1]
    if p[0] == 'ent':
        return p[2]
    if p[0] == 'num':
        return p[2]
    if p[0] == 'ient':
        return _ent_value(doc, p[1])
    if p[0] == 'xent':
        return ''


def write_xml(doc, rng=None):
    """the harness's own writer. `rng` only varies insignificant spelling (quotes, empty-element form)"""
    import random
    rng = rng or random.Random(0)
    out = []
    if doc['decl']:
        v, e, s = doc['decl']
        out.append('<?xml version="%s"%s%s?>' % (v, ' encoding="%s"' % e if e else '',
                                                  '' if s < 0 else ' standalone="%s"' % ('yes' if s else 'no')))
        out.append(rng.choice(['', '\n']))

    def misc(ns):
        for n in ns:
            node(n)
            out.append(rng.choice(['', '\n', ' ']))

    def node(n):
        k = n['k']
        if k == 't':
            out.append(''.join(_piece_src(p, False) for p in n['pieces']))
        elif k == 'c':
            out.append('<!--%s-->' % n['text'])
        elif k == 'pi':
            out.append('<?%s%s?>' % (n['target'], ' ' + n['data'] if n['data'] else ''))
        elif k == 'cdata':
            out.append('<![CDATA[%s]]>' % n['text'])
        else:
            nm = (n['name'][0] + ':' if n['name'][0] else '') + n['name'][1]
            out.append('<' + nm)
            parts = []
            for p, u in n['ns']:
                parts.append(('xmlns:' + p if p else 'xmlns', [['raw', u]]))
            for (ap, al), ps in n['attrs']:
                parts.append(((ap + ':' if ap else '') + al, ps))
            # namespace declarations may stand anywhere among the attributes; the attributes keep their order
            if rng.random() < 0.4 and n['ns'] and n['attrs']:
                decls, attrs_ = parts[:len(n['ns'])], parts[len(n['ns']):]
                parts = []
                while decls or attrs_:
                    src = decls if (decls and (not attrs_ or rng.random() < 0.5)) else attrs_
                    parts.append(src.pop(0))
            for an, ps in parts:
                q = rng.choice('"\'')
                out.append('%s%s=%s%s%s' % (rng.choice([' ', ' ', '\n', '  ']), an, q,
                                            ''.join(_piece_src(p, True, q) for p in ps), q))
            if not n['kids'] and rng.random() < 0.6:
                out.append(rng.choice(['/>', ' />']))
            else:
                out.append('>')
                for kid in n['kids']:
                    node(kid)
                out.append('</%s%s>' % (nm, rng.choice(['', ' '])))
    misc(doc['prolog'])
    if doc['doctype']:
        nme, pub, sysid = doc['doctype']
        ext = ''
        if pub:
            ext = ' PUBLIC "%s" "%s"' % (pub, sysid)
        elif sysid:
            ext = ' SYSTEM "%s"' % sysid
        internal = ''
        if doc['entities'] or doc.get('xentities'):
            internal = ' [' + ''.join('<!ENTITY %s "%s">' % (n, v) for n, v in doc['entities']) + ''.join(
                '<!ENTITY %s %s>' % (n, 'PUBLIC "%s" "%s"' % (pb, sy) if pb else 'SYSTEM "%s"' % sy) for n, sy, pb in doc.get('xentities', [])) + ']'
        out.append('<!DOCTYPE %s%s%s>' % (nme, ext, internal))
        out.append(rng.choice(['', '\n']))
    node(doc['root'])
    out.append(rng.choice(['', '\n']))
    misc(doc['epilog'])
    return ''.join(out)


def _norm_nl(s):
    """XML 1.0 2.11 end-of-line handling applies to the literal source characters"""
    return s.replace('\r\n', '\n').replace('\r', '\n')


def _attr_val(doc, ps):
    """XML 1.0 3.3.3 attribute-value normalisation (CDATA attributes): literal white space becomes a
    space; characters written as references are kept"""
    out = []
    for p in ps:
        v = _piece_val(doc, p)
        if p[0] == 'raw':
            v = v       # the writer writes \t \n \r of raw pieces as references, so they are kept
        out.append(v)
    return ''.join(out)


def tree_events(doc):
    """what the tree says the document is, as canonical wire-like events (lists):
    ['XD', version, encoding|None, standalone], ['DT', name, pubid, sysid], ['NS', prefix, uri], ['ENS', prefix],
    ['S', [ns, local], [[[ns, local], value]...]], ['E', [ns, local]], ['T', text], ['C', text],
    ['PI', target, data], ['SC'], ['EC'].  Adjacent text is merged; namespace declarations bracket their element
    (END_NS in reverse order of declaration is not required by the property: compared as a bag per element)."""
    ev = []
    if doc['decl']:
        v, e, s = doc['decl']
        ev.append(['XD', v, e, s])

    def text(s):
        if s == '':
            return
        if ev and ev[-1][0] == 'T':
            ev[-1][1] += s
        else:
            ev.append(['T', s])

    def node(n, scope):
        k = n['k']
        if k == 't':
            text(''.join(_norm_nl(_piece_val(doc, p)) if p[0] == 'raw' else _piece_val(doc, p) for p in n['pieces']))
        elif k == 'c':
            ev.append(['C', _norm_nl(n['text'])])
        elif k == 'pi':
            ev.append(['PI', n['target'], _norm_nl(n['data'])])
        elif k == 'cdata':
            ev.append(['SC'])
            text(_norm_nl(n['text']))
            ev.append(['EC'])
        else:
            scope = dict(scope)
            for p, u in n['ns']:
                scope[p] = u
            nsset = sorted([p, u] for p, u in n['ns'])
            ev.append(['NSSET', nsset])
            pfx, loc = n['name']
            qn = [scope.get(pfx, '') if pfx else scope.get('', ''), loc]
            attrs = []
            for (ap, al), ps in n['attrs']:
                if ap == 'xml':
                    ans = 'http://www.w3.org/XML/1998/namespace'
                else:
                    ans = scope[ap] if ap else ''
                attrs.append([[ans, al], _attr_val(doc, ps)])
            ev.append(['S', qn, attrs])
            for kid in n['kids']:
                node(kid, scope)
            ev.append(['E', qn])
            ev.append(['ENSSET', sorted(p for p, _ in n['ns'])])
    for n in doc['prolog']:
        node(n, {})
    if doc['doctype']:
        ev.append(['DT'] + list(doc['doctype']))
    node(doc['root'], {})
    for n in doc['epilog']:
        node(n, {})
    return ev

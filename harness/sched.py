"""Deterministic thread scheduler at source-line granularity (C16; reusable for C10).

Line events come from `sys.monitoring` (Python >= 3.12: LINE events enabled only on the code
objects of the chosen files, about ten times cheaper than `sys.settrace`, which in 3.12 is itself
built on sys.monitoring) with `sys.settrace` as the fallback.

Real threads run the code under test, but only one of them runs at any time.  Inside the files
named in `files` every `line` event is a *yield point*: the running thread asks the schedule
whether to go on or to hand over to another thread.  Everything else (C code, other files) runs
without interruption.  Locks of the code under test must be wrapped in `SchedLock` so that a
thread that cannot get a lock gives the processor away instead of blocking the process.

A schedule is a list of preemptions `[[step, tid], …]`: at yield point number `step` (counted
over all threads from 1) control passes to thread `tid`.  When the running thread finishes or
blocks, the runnable thread with the next higher index (cyclically) continues.  The same schedule
on the same code gives the same execution: the schedule is the replay.

No wait is unbounded: a hand-over that is not answered within `timeout` seconds raises
`SchedTimeout` (an infrastructure error); a state in which every unfinished thread is blocked is
a *deadlock of the code under test* and is reported in `Run.deadlock`.
"""
import os, sys, threading, time, types

USE_MONITORING = hasattr(sys, 'monitoring')
TOOL_ID = 3
_installed = {'codes': (), 'active': None}


class SchedTimeout(Exception):
    """infrastructure failure: a hand-over was not answered in time"""


class _Abort(BaseException):
    """unwinds a worker thread when the run is abandoned (deadlock / timeout)"""


class Run(object):
    """result of one scheduled execution"""

    def __init__(self):
        self.steps = 0            # yield points passed
        self.owner_at = []        # owner_at[i] = thread that passed yield point i+1
        self.alts = []            # alts[i] = other threads runnable at yield point i+1 (tuple)
        self.where = []           # (basename, lineno) of each yield point (only if record_where)
        self.deadlock = None      # None or {'blocked': {tid: what}, 'step': n}
        self.errors = {}          # tid -> exception escaped from the thread body
        self.results = {}         # tid -> return value of the thread body
        self.switches = 0


class Scheduler(object):
    def __init__(self, bodies, files, schedule=(), timeout=20.0, record_where=False, max_steps=200000):
        """bodies: list of callables (thread i runs bodies[i]()); files: file names whose lines
        are yield points (compared by basename suffix match on co_filename)"""
        self.bodies = list(bodies)
        self.n = len(self.bodies)
        self.files = tuple(os.path.abspath(f) for f in files)
        self.schedule = dict((int(s), int(t)) for s, t in schedule)
        self.timeout = timeout
        self.record_where = record_where
        self.max_steps = max_steps
        self.sems = [threading.Semaphore(0) for _ in range(self.n)]
        self.main_sem = threading.Semaphore(0)
        self.state = ['runnable'] * self.n       # runnable | blocked | finished
        self.blocked_on = {}
        self.current = None
        self.abort = False
        self.run = Run()
        self._code_cache = {}
        self._tids = {}

    # ---- tracing ---------------------------------------------------------
    def _traced(self, code):
        r = self._code_cache.get(code)
        if r is None:
            fn = code.co_filename
            r = fn in self.files or os.path.abspath(fn) in self.files
            self._code_cache[code] = r
        return r

    def _global_trace(self, frame, event, arg):
        if event == 'call' and self._traced(frame.f_code):
            return self._local_trace
        return None

    def _local_trace(self, frame, event, arg):
        if event == 'line':
            tid = self._tids.get(threading.get_ident())
            if tid is not None and tid == self.current:
                self.yield_point(tid, frame)
        return self._local_trace

    def _on_line(self, code, lineno):
        tid = self._tids.get(threading.get_ident())
        if tid is not None and tid == self.current and not self.abort:
            self.yield_point(tid, None, (os.path.basename(code.co_filename), lineno))

    def _install(self):
        if not USE_MONITORING:
            return
        mon = sys.monitoring
        if _installed['active'] is None:
            try:
                mon.use_tool_id(TOOL_ID, 'genshi-verif-sched')
            except ValueError:
                pass
        codes = _codes_of_files(self.files)
        if _installed['codes'] != codes:
            for c in _installed['codes']:
                mon.set_local_events(TOOL_ID, c, 0)
            for c in codes:
                mon.set_local_events(TOOL_ID, c, mon.events.LINE)
            _installed['codes'] = codes
        mon.register_callback(TOOL_ID, mon.events.LINE, self._on_line)
        _installed['active'] = self

    def _uninstall(self):
        if USE_MONITORING:
            sys.monitoring.register_callback(TOOL_ID, sys.monitoring.events.LINE, None)

    # ---- scheduling ------------------------------------------------------
    def me(self):
        return self._tids.get(threading.get_ident())

    def _next_runnable(self, after):
        for d in range(1, self.n + 1):
            t = (after + d) % self.n
            if self.state[t] == 'runnable':
                return t
        return None

    def _handover(self, me, to):
        """give the processor to `to` and wait until it is given back"""
        self.current = to
        self.run.switches += 1
        self.sems[to].release()
        self._wait(me)

    def _wait(self, me):
        if not self.sems[me].acquire(timeout=self.timeout):
            self.abort = True
            raise _Abort()
        if self.abort:
            raise _Abort()

    def yield_point(self, tid, frame=None, where=None):
        run = self.run
        run.steps += 1
        if run.steps > self.max_steps:
            self.abort = True
            self.main_sem.release()
            raise _Abort()
        run.owner_at.append(tid)
        run.alts.append(tuple(t for t in range(self.n) if t != tid and self.state[t] == 'runnable'))
        if self.record_where:
            if frame is not None:
                where = (os.path.basename(frame.f_code.co_filename), frame.f_lineno)
            run.where.append(where)
        to = self.schedule.get(run.steps)
        if to is not None and to != tid and 0 <= to < self.n and self.state[to] == 'runnable':
            self._handover(tid, to)

    def block(self, tid, what):
        """the running thread cannot proceed until `what` is released"""
        self.state[tid] = 'blocked'
        self.blocked_on[tid] = what
        nxt = self._next_runnable(tid)
        if nxt is None:
            self.run.deadlock = {'blocked': dict((t, str(w)) for t, w in self.blocked_on.items()),
                                 'step': self.run.steps}
            self.abort = True
            self.main_sem.release()
            raise _Abort()
        self._handover(tid, nxt)

    def unblock_waiters(self, what):
        for t, w in list(self.blocked_on.items()):
            if w is what:
                del self.blocked_on[t]
                self.state[t] = 'runnable'

    def _finish(self, tid):
        self.state[tid] = 'finished'
        nxt = self._next_runnable(tid)
        if nxt is not None:
            self.current = nxt
            self.sems[nxt].release()
        elif any(s == 'blocked' for s in self.state):
            self.run.deadlock = {'blocked': dict((t, str(w)) for t, w in self.blocked_on.items()),
                                 'step': self.run.steps}
            self.abort = True
            self.main_sem.release()
        else:
            self.main_sem.release()

    def _worker(self, tid):
        self._tids[threading.get_ident()] = tid
        try:
            self._wait(tid)
            if not USE_MONITORING:
                sys.settrace(self._global_trace)
            try:
                self.run.results[tid] = self.bodies[tid]()
            except _Abort:
                raise
            except BaseException as e:  # noqa: the body's own failure is a result
                self.run.errors[tid] = e
            finally:
                if not USE_MONITORING:
                    sys.settrace(None)
            self._finish(tid)
        except _Abort:
            if not USE_MONITORING:
                sys.settrace(None)
            self.state[tid] = 'finished'

    def execute(self):
        """run all bodies under the schedule; returns the Run"""
        workers = _pool.take(self.n)
        self._install()
        try:
            for i, w in enumerate(workers):
                w.submit(self, i)
            self.current = 0
            self.sems[0].release()
            ok = self.main_sem.acquire(timeout=self.timeout * 3)
            if self.abort or not ok:
                self.abort = True
                for s in self.sems:
                    s.release()
            idle = [w.wait_idle(self.timeout) for w in workers]
        finally:
            self._uninstall()
        if all(idle):
            _pool.give(workers)
        if not ok and self.run.deadlock is None:
            raise SchedTimeout('scheduled run did not finish within %.0fs (step %d)' % (self.timeout * 3, self.run.steps))
        if not all(idle):
            raise SchedTimeout('worker thread still busy after the run')
        if self.abort and self.run.deadlock is None and self.run.steps > self.max_steps:
            raise SchedTimeout('more than %d yield points' % self.max_steps)
        return self.run


_code_cache = {}


def _codes_of_files(files):
    """all code objects defined in the given source files by modules that are imported"""
    key = tuple(files)
    if key in _code_cache:
        return _code_cache[key]
    out = []
    seen = set()

    def walk(code):
        if code in seen:
            return
        seen.add(code)
        out.append(code)
        for c in code.co_consts:
            if isinstance(c, types.CodeType):
                walk(c)

    def visit(obj, fn, depth=0):
        if id(obj) in seen or depth > 4:
            return
        seen.add(id(obj))
        if isinstance(obj, types.FunctionType):
            if os.path.abspath(obj.__code__.co_filename) == fn:
                walk(obj.__code__)
        elif isinstance(obj, (staticmethod, classmethod)):
            visit(obj.__func__, fn, depth + 1)
        elif isinstance(obj, property):
            for f in (obj.fget, obj.fset, obj.fdel):
                if f is not None:
                    visit(f, fn, depth + 1)
        elif isinstance(obj, type):
            for v in list(vars(obj).values()):
                visit(v, fn, depth + 1)
    for mod in list(sys.modules.values()):
        mf = getattr(mod, '__file__', None)
        if mf and os.path.abspath(mf) in files:
            for v in list(vars(mod).values()):
                visit(v, os.path.abspath(mf))
    _code_cache[key] = tuple(out)
    return _code_cache[key]


class _PoolWorker(object):
    """a persistent thread (creating threads is slow; runs are many)"""

    def __init__(self):
        self.job = None
        self.go = threading.Semaphore(0)
        self.idle = threading.Semaphore(0)
        self.thread = threading.Thread(target=self._loop, daemon=True)
        self.thread.start()

    def _loop(self):
        while True:
            self.go.acquire()
            sch, tid = self.job
            self.job = None
            try:
                sch._worker(tid)
            finally:
                sch._tids.pop(threading.get_ident(), None)
                self.idle.release()

    def submit(self, sch, tid):
        self.job = (sch, tid)
        self.go.release()

    def wait_idle(self, timeout):
        return self.idle.acquire(timeout=timeout)


class _Pool(object):
    def __init__(self):
        self.free = []

    def take(self, n):
        while len(self.free) < n:
            self.free.append(_PoolWorker())
        out, self.free = self.free[:n], self.free[n:]
        return out

    def give(self, workers):
        self.free.extend(workers)


_pool = _Pool()


class SchedLock(object):
    """Cooperative proxy for a lock object of the code under test (Lock or RLock, whatever the
    code created).  acquire() tries the inner lock without blocking; on failure the thread is
    descheduled until somebody releases.  Records (tid, event, depth) into `log` if given."""

    def __init__(self, sched_ref, inner, log=None, name='lock', hook=None, order=None):
        self._sched_ref = sched_ref     # callable returning the current Scheduler (or None)
        # callable returning the current lock-order observer (harness/lockwatch.py) or None:
        # told about every wanted / acquired / blocked / released, also outside scheduled threads
        self._order = order
        self._inner = inner
        self._log = log
        self._name = name
        self._hook = hook               # hook(tid, 'blk'|'acq'|'rel') for trace recording
        self.owner = None               # tid of the holder as seen by the proxy
        self.depth = 0

    def __str__(self):
        return self._name

    def _is_owned(self):
        s = self._sched_ref()
        return self.owner is not None and s is not None and self.owner == s.me()

    def acquire(self, blocking=True, timeout=-1):
        s = self._sched_ref()
        w = self._order() if self._order is not None else None
        if s is None or s.me() is None:
            if w is not None:
                w.want(None, self)
            if blocking and timeout == -1:
                # never wait for ever outside the scheduled threads (set-up phase, oracle): a
                # lock that cannot be had there is a self-deadlock of the code under test
                got = self._inner.acquire(True, 15.0)
                if not got:
                    raise RuntimeError('%s cannot be acquired in the main thread (held and never released)' % self._name)
            else:
                got = self._inner.acquire(blocking, timeout)
            if got and w is not None:
                w.got(None, self)
            return got
        tid = s.me()
        if w is not None:
            w.want(tid, self)
        while not self._inner.acquire(False):
            if not blocking:
                return False
            if self._log is not None:
                self._log.append((tid, 'blocked', self.depth))
            if self._hook is not None:
                self._hook(tid, 'blk')
            if w is not None:
                w.blocked(tid, self)
            s.block(tid, self)
        self.owner = tid
        self.depth += 1
        if w is not None:
            w.got(tid, self)
        if self._log is not None:
            self._log.append((tid, 'acquire', self.depth))
        if self._hook is not None:
            self._hook(tid, 'acq')
        return True

    def release(self):
        s = self._sched_ref()
        self._inner.release()            # raises RuntimeError if not owned, like the real one
        w = self._order() if self._order is not None else None
        if s is None or s.me() is None:
            if w is not None:
                w.released(None, self)
            return
        if w is not None:
            w.released(s.me(), self)
        self.depth -= 1
        if self._log is not None:
            self._log.append((s.me(), 'release', self.depth))
        if self._hook is not None:
            self._hook(s.me(), 'rel')
        if self.depth == 0:
            self.owner = None
            s.unblock_waiters(self)

    __enter__ = acquire

    def __exit__(self, *a):
        self.release()


def explore(make_run, bound, on_run, first=None, limit=None):
    """Preemption-bounded exploration.  make_run(schedule) -> (Run, payload) executes one
    schedule from a fresh state; on_run(schedule, run, payload) -> True to stop.  Enumerates the
    empty schedule, then every extension by one preemption at a later yield point to another
    thread that was runnable there, up to `bound` preemptions.  `first`: restrict the first
    preemption to these (step, tid) pairs (used to shard the search).  Returns the number of runs."""
    count = [0]

    def rec(schedule, depth):
        if limit is not None and count[0] >= limit:
            return True
        run, payload = make_run(schedule)
        count[0] += 1
        if on_run(schedule, run, payload):
            return True
        if depth >= bound:
            return False
        start = schedule[-1][0] if schedule else 0
        for i in range(start, run.steps):
            step = i + 1
            for t in run.alts[i]:
                if depth == 0 and first is not None and (step, t) not in first:
                    continue
                if rec(schedule + [[step, t]], depth + 1):
                    return True
        return False
    rec([], 0)
    return count[0]

"""C01 — seeded generators: templates drawn from a grammar that nests every substitution
site, payloads, and (independently of genshi) the skeleton a conforming re-parse must give.

A case is a JSON value:

  {"mode": "template" | "builder",
   "tmpl": [node...]            (mode template)   |   "expr": bexpr   (mode builder)
   "data": {name: val}, "method": "xml"|"xhtml"|"html", "strip": bool, "impl": "c"|"py"}

node  = {"t":"lit","s":text}
      | {"t":"el","name":n,"attrs":[attr],"kids":[node], optional "pyattrs":{"form":"dict"|"list"|"var","items":[[name,val-or-var]]...},
                                                       optional "content": expr, optional "for": {"var":x,"e":expr}}
      | {"t":"site","form":"brace"|"dollar"|"replace-attr"|"replace-el","e":expr}
      | {"t":"for","var":x,"e":expr,"kids":[node]}            <py:for each="x in e">
      | {"t":"with","var":y,"e":expr,"kids":[node]}           <py:with vars="y=e">
      | {"t":"if","cond":bool,"kids":[node]}                  <py:if test="True|False">
      | {"t":"choose","pick":0|1|2,"kids":[[node],[node]]}   <py:choose> when/otherwise
      | {"t":"def","name":f,"param":x,"kids":[node]}          <py:def function="f(x)">
      | {"t":"match","name":n,"kids":[node]}                   reserved
      | {"t":"cdata","s":text}                                 <![CDATA[text]]> written by the template author (literal; oracle only:
                                                               the Lean model has no CDATA events, such a case has no model counterpart)
      an "el" whose name is script/style (RAW) has no py:content / py:attrs / py:for; its children are literals
      without `</` and sites `${v}` / `$v` with a context variable (wave 4);
      static elements (literal attributes and text only) are written two or three times in a row or
      spread over a body, so that later events of every kind are served from the serializer's cache
attr  = {"name":n,"parts":[{"lit":s} | {"e":expr,"form":"brace"|"dollar"}]}
expr  = {"k":"var","n":name} | {"k":"list","items":[name]} | {"k":"gen","items":[name]}
      | {"k":"call","f":f,"arg":name}
      | {"k":"fmt","m":name,"pieces":[piece],"args":[name],"tuple":bool}      Markup(fmt) % args
      | {"k":"fmtmap","m":name,"pieces":[piece],"keys":[[key,name]]}           Markup(fmt) % dict
      | {"k":"add","m":name,"arg":name} | {"k":"radd","m":name,"arg":name}     Markup + v, v + Markup
      | {"k":"join","m":name,"items":[name]}                                   Markup.join([..])
      | {"k":"esc","arg":name,"q":bool}                                        escape(v, quotes=q)
      | {"k":"tag","el":bnode} | {"k":"frag","kids":[bkid]}
piece = ["S",name,[[attr, ["lit",s] | ["hole",i]]]] | ["E",name] | ["T",s] | ["H",i]
bnode = {"name":n,"attrs":[[kwname, name]],"kids":[bkid],"call":bool}  ; bkid = {"v":name} | {"el":bnode} | {"lst":[name]}
val   = {"k":"s","s":text} | {"k":"m","s":markup,"toks":[tok]} | {"k":"i","n":int} | {"k":"f","x":repr} | {"k":"b","v":bool}
      | {"k":"n"} | {"k":"l","items":[val]} | {"k":"g","items":[val]} | {"k":"o","str":text,"html":null|{"s":markup,"toks":[tok]}}
      | {"k":"fmtstr","s":text}   (a Markup format string / separator written by the template author; only used through "m")
tok   = ["S",name,{attr:value}] | ["E",name] | ["T",text] | ["ALT",[[tok]...]]
"""
import re
from xml.sax.saxutils import escape as xesc, quoteattr

ELEMS = ['div', 'p', 'span', 'b', 'i', 'em', 'ul', 'li', 'a', 'td', 'h1', 'section', 'q', 'u', 'pre', 'textarea']
# elements the template author writes inside Markup literals: the whitespace filter does not see them as
# elements, so no whitespace-preserving ones there
MARKUP_ELEMS = [e for e in ELEMS if e not in ('pre', 'textarea')]
VOID = ['br', 'hr', 'img']
# raw-text elements of html (HTMLSerializer._NOESCAPE_ELEMS): the template author writes literal text
# in them (the property excepts substitution *inside* them under html); what matters to C01 is what
# is written AFTER them.  The literal text has no `<` and no `&`, so that reading it as character
# data and reading it as raw text agree (under html a `>` or `"` comes back verbatim only when the
# serializer did switch escaping off).
RAW = ['script', 'style']
RAW_TEXTS = ['var a = 1;', 'var a = 1;', 'if (a > 1) { f("x") }', 'p > b { color: red }', ' ', 'x', '\n  var b = 2;  \n\n',
             'a = b > c ? "1" : \'2\';']
# wave 4 (package rawtext): the specification-side reader has a raw-text mode now, so the literal text of a raw-text
# element may hold `<` and `&` (never `</`), and raw-text elements may hold substitution sites (`${v}` with a context
# variable): under xml / xhtml `script` is an ordinary element (the value is escaped and comes back verbatim), under
# html the content is raw — the skeleton carries the strings as they were emitted; when they hold `</` the case is the
# property's own exception (not judged, `raw_etago`).
RAW_TEXTS2 = ['if (a < b && c) { }', 'a<b', 'x & y', 'var s = "', '";', ' ', 'p > b { }', '<', '&amp;', '<!-- ', ' -->', ']]>',
              'a = "<b>" + ', ';\n', '// ']
CDATA_TEXTS = ['x < y & z', '<b>', ']] >', 'a', '&amp;', ' \n', '</root>', '"\'']
RAW_ATTRS = [[], [], [['type', 'text/javascript']], [['type', 'text/css'], ['title', 'a"b']]]
ATTRS = ['title', 'class', 'href', 'id', 'alt', 'data-x', 'lang', 'name', 'value', 'style', 'onclick']
KWATTRS = {'title': 'title', 'class_': 'class', 'href': 'href', 'id': 'id', 'data_x': 'data-x', 'alt': 'alt'}

CRIT = list('&<>"\';#34amplt/!-[]?= ')
FRAGS = ['&amp;', '&lt;', '</b>', '<script>', '</script>', '<!--', '-->', ']]>', '<![CDATA[', '&#34;', '&#x3c;',
         '">', "'>", ' onx="1', '<b>', '&', '<', '"', '<?x ?>', '</root>', '<root>', '%s', '%(a)s', '$v0', '${v0}',
         '{', '}', '\\', '&quot;', '&#60;', '&lt', '&amp', '/>', '<a href="', 'javascript:', '&amp;amp;', '--', '\'', '`']
UNI = ['\xe9', '\U0001F600', '\xa0', '\u2028', '\x85', '\xdf', '\u4e2d', '\u0301', '\ufeff', '\U0010ffff', '\u200b', '\x7f', '\ufffd']
WS = [' ', ' ', '\n', '\t', '  ', ' \n', '\n\n']
HTML_ONLY = ['\r', '\x0b', '\x0c', '\x1f', '\x00', '\x01', '\ufffe', '\uffff', '\r\n']

SAFE_MARKUP = [
    {'s': '<i>ok</i>', 'toks': [['S', 'i', {}], ['T', 'ok'], ['E', 'i']]},
    {'s': '&amp;', 'toks': [['T', '&']]},
    {'s': 'plain', 'toks': [['T', 'plain']]},
    {'s': '<br/>', 'toks': [['S', 'br', {}], ['E', 'br']]},
    {'s': '<em title="a&#34;b">x&lt;y</em>', 'toks': [['S', 'em', {'title': 'a"b'}], ['T', 'x<y'], ['E', 'em']]},
    {'s': '', 'toks': []},
]

_XML_BAD = re.compile('[^\x09\x0a\x20-\ud7ff\ue000-\ufffd\U00010000-\U0010ffff]')


def xml_char_only(s):
    """drop what XML 1.0 cannot represent (Char production) and CR (line-end normalisation)"""
    return _XML_BAD.sub('', s)


def fit(s, method, where):
    """keep a payload inside the stated domain of the property for (method, site class):
       xml/xhtml: XML Chars only, no CR (finding C01-xml-unrepresentable); attribute values additionally
       without TAB/LF (XML attribute-value normalisation, finding C01-attr-ws-xml)"""
    if method in ('xml', 'xhtml'):
        s = xml_char_only(s)
        if where == 'attr':
            s = s.replace('\t', ' ').replace('\n', ' ')
    return s


def rand_text(rng, method, maxlen=10):
    n = rng.randrange(0, maxlen)
    out = []
    for _ in range(n):
        r = rng.random()
        if r < 0.30:
            out.append(rng.choice(FRAGS))
        elif r < 0.70:
            out.append(rng.choice(CRIT))
        elif r < 0.80:
            out.append(rng.choice(WS))
        elif r < 0.90:
            out.append(rng.choice(UNI))
        elif r < 0.94 and method == 'html':
            out.append(rng.choice(HTML_ONLY))
        else:
            out.append(chr(rng.choice([rng.randrange(0x20, 0x7f), rng.randrange(0xa0, 0xd7ff),
                                       rng.randrange(0xe000, 0xfffd), rng.randrange(0x10000, 0x10ffff)])))
    return ''.join(out)


def rand_lit(rng):
    """literal template text (written by the template author)"""
    n = rng.randrange(0, 5)
    out = []
    for _ in range(n):
        out.append(rng.choice(['a', 'b c', ' ', '\n', '  \n', '\n\n', '&', '<', '>', '"', 'x=1', '\xe9', '&amp;', ';', '\t', '.', '1', '-']))
    return ''.join(out)


# --------------------------------------------------------------------------
# payload values

def rand_scalar(rng, method, where='text', allow_safe=True):
    """where: 'text' | 'attr' | 'both' (a value bound to a loop / macro / with variable may reach both kinds of site)"""
    fitw = 'text' if where == 'text' else 'attr'
    textual = where != 'attr'
    r = rng.random()
    if r < 0.62:
        return {'k': 's', 's': fit(rand_text(rng, method), method, fitw)}
    if r < 0.70:
        return {'k': 'i', 'n': rng.choice([0, 1, -7, 42, 10 ** 30, -1, 255])}
    if r < 0.75:
        return {'k': 'f', 'x': rng.choice(['1.5', '-0.0', '1e+100', 'nan', 'inf', '-inf', '0.1', '3.0', '1e-07'])}
    if r < 0.78:
        return {'k': 'b', 'v': rng.random() < 0.5}
    if r < 0.90:
        html = None
        if textual and rng.random() < 0.3:
            html = rng.choice(SAFE_MARKUP[:3])
        return {'k': 'o', 'str': fit(rand_text(rng, method), method, fitw), 'html': html}
    if r < 0.97 and allow_safe and textual:
        m = rng.choice(SAFE_MARKUP)
        return {'k': 'm', 's': m['s'], 'toks': m['toks']}
    return {'k': 'n'}


def rand_val(rng, method, where='text'):
    r = rng.random()
    if r < 0.75:
        return rand_scalar(rng, method, where)
    items = [rand_scalar(rng, method, where, allow_safe=(where == 'text')) for _ in range(rng.randrange(0, 4))]
    return {'k': 'l' if r < 0.9 else 'g', 'items': items}


def item_str(v):
    """str(item) as the documentation of Python defines it"""
    k = v['k']
    if k in ('s', 'm'):
        return v['s']
    if k == 'i':
        return str(v['n'])
    if k == 'f':
        return str(float(v['x']))
    if k == 'b':
        return 'True' if v['v'] else 'False'
    if k == 'n':
        return 'None'
    if k == 'o':
        return v['str']
    if k in ('isub', 'fsub'):
        return v['str']
    raise ValueError(k)


class Obj(object):
    def __init__(self, s):
        self.s = s

    def __str__(self):
        return self.s


class HtmlObj(Obj):
    def __init__(self, s, h):
        self.s = s
        self.h = h

    def __html__(self):
        return self.h


def materialise(v, Markup):
    k = v['k']
    if k == 's':
        return v['s']
    if k in ('m', 'fmtstr'):
        return Markup(v['s'])
    if k == 'i':
        return v['n']
    if k == 'f':
        return float(v['x'])
    if k == 'b':
        return bool(v['v'])
    if k == 'n':
        return None
    if k == 'l':
        return [materialise(x, Markup) for x in v['items']]
    if k == 'g':
        return (x for x in [materialise(x, Markup) for x in v['items']])
    if k == 'o':
        if v.get('html'):
            return HtmlObj(v['str'], v['html']['s'])
        return Obj(v['str'])
    if k == 'isub':      # int subclass whose __str__ is data (finding / fix regression C01-number-subclass)
        cls = type('IntSub', (int,), {'__str__': lambda self, s=v['str']: s})
        return cls(v['n'])
    if k == 'fsub':
        cls = type('FloatSub', (float,), {'__str__': lambda self, s=v['str']: s})
        return cls(1.5)
    raise ValueError(k)


# --------------------------------------------------------------------------
# what a conforming re-parse must give (the specification side; no genshi involved)

def T(s):
    return ['T', s]


def scalar_text_toks(v, in_list=False):
    k = v['k']
    if k == 'n':
        return [T('None')] if in_list else []
    if k == 'm':
        if in_list:
            # the property does not say whether the mark survives inside a list: accept both
            return [['ALT', [v['toks'], [T(v['s'])]]]]
        return list(v['toks'])
    if k == 'o' and v.get('html'):
        h = v['html']
        return [['ALT', [[T(v['str'])], [T(h['s'])], h['toks']]]]
    if k in ('isub', 'fsub'):
        return [T(v['str'])]
    return [T(item_str(v))]


def val_text_toks(v):
    if v['k'] in ('l', 'g'):
        out = []
        for x in v['items']:
            out.extend(scalar_text_toks(x, in_list=True))
        return out
    return scalar_text_toks(v)


def raw_scalar_toks(v, in_list=False):
    """a value inside a raw-text element under html: its string as it is emitted (a Markup is its own string)"""
    k = v['k']
    if k == 'm':
        return [T(v['s'])]
    if k == 'o' and v.get('html'):
        return [['ALT', [[T(v['str'])], [T(v['html']['s'])]]]]
    return scalar_text_toks(v, in_list)


def raw_val_toks(v):
    if v['k'] in ('l', 'g'):
        out = []
        for x in v['items']:
            out.extend(raw_scalar_toks(x, in_list=True))
        return out
    return raw_scalar_toks(v)


def raw_contents(case):
    """for every raw-text element instance of an html case: the alternatives of its content (strings)"""
    import itertools
    if case['method'] != 'html' or case['mode'] != 'template':
        return []
    toks = Spec(case).expected()
    out, cur = [], None
    for t in toks:
        if t[0] == 'S' and t[1] in RAW:
            cur = []
        elif t[0] == 'E' and cur is not None:
            alts = set()
            for combo in itertools.islice(itertools.product(*cur), 64):
                alts.add(''.join(combo))
            out.append(sorted(alts))
            cur = None
        elif cur is not None:
            if t[0] == 'T':
                cur.append([t[1]])
            elif t[0] == 'ALT':
                cur.append([''.join(x[1] for x in alt if x[0] == 'T') for alt in t[1]])
    return out


def raw_etago(case):
    """an html case in which the content of some raw-text element holds `</`: the property's own exception (inside
    script/style no escaping takes place, so the payload can end the element) — not judged, and readers differ on
    where such raw text ends (HTML 4: at any `</`; html.parser: at `</script`)"""
    return any('</' in s for alts in raw_contents(case) for s in alts)


def raw_site_shapes(case):
    """dist keys: raw-text elements with substitution sites inside, per method; hostile content; etago"""
    out = []

    def walk(ns, after_raw_site):
        for n in ns:
            if not isinstance(n, dict):
                continue
            if n.get('t') == 'el' and n['name'] in RAW:
                sites = [k for k in n['kids'] if k['t'] == 'site']
                if sites:
                    out.append('raw-site:%s:%s' % (n['name'], case['method']))
                    out.append('raw-site:sites-in-element:%d' % min(len(sites), 3))
                    after_raw_site = True
                if any(k['t'] == 'lit' and any(c in k['s'] for c in '<&') for k in n['kids']):
                    out.append('raw-literal-with-lt-or-amp:%s' % case['method'])
            elif n.get('t') == 'site' and after_raw_site:
                out.append('site-after-raw-site:%s' % case['method'])
            for key in ('kids',):
                if isinstance(n.get(key), list):
                    if n.get('t') == 'choose':
                        for sub in n[key]:
                            after_raw_site = walk(sub, after_raw_site)
                    else:
                        after_raw_site = walk(n[key], after_raw_site)
        return after_raw_site
    if case['mode'] == 'template':
        walk(case['tmpl'], False)
        if out:
            for alts in raw_contents(case):
                for s in alts[:1]:
                    if any(c in s for c in '<&'):
                        out.append('raw-content-hostile:html')
            if raw_etago(case):
                out.append('raw-content-etago:html(not-judged)')
    return out


def val_attr_str(v):
    """the string an attribute-value site must carry, None = contributes nothing"""
    k = v['k']
    if k == 'n':
        return None
    if k in ('l', 'g'):
        if not v['items']:
            return None       # an empty sequence contributes nothing, like None
        return ''.join(item_str(x) for x in v['items'])
    if k in ('isub', 'fsub'):
        return v['str']
    return item_str(v)


def normws(s):
    """what strip_whitespace=True is documented to remove from text"""
    return re.sub('\n{2,}', '\n', re.sub('[ \t]+(?=\n)', '', s))


class Spec(object):
    """walks a case and produces the expected tokens"""

    def __init__(self, case):
        self.case = case
        self.data = case['data']
        self.defs = {}

    def lookup(self, name, env):
        if name in env:
            return env[name]
        return self.data[name]

    # ---- expressions at a text site
    def expr_toks(self, e, env):
        k = e['k']
        if k == 'var':
            return val_text_toks(self.lookup(e['n'], env))
        if k in ('list', 'gen'):
            out = []
            for n in e['items']:
                out.extend(scalar_text_toks(self.lookup(n, env), in_list=True))
            return out
        if k == 'call':
            d = self.defs[e['f']]
            return self.nodes_toks(d['kids'], dict(env, **{d['param']: self.lookup(e['arg'], env)}))
        if k == 'fmt':
            return self.pieces_toks(e['pieces'], [self.lookup(n, env) for n in e['args']])
        if k == 'fmtmap':
            # holes are numbered by position in e['keys']
            return self.pieces_toks(e['pieces'], [self.lookup(n, env) for _, n in e['keys']])
        if k == 'add':
            return list(self.data[e['m']]['toks']) + self.op_arg_toks(self.lookup(e['arg'], env))
        if k == 'radd':
            return self.op_arg_toks(self.lookup(e['arg'], env)) + list(self.data[e['m']]['toks'])
        if k == 'join':
            out = []
            for i, n in enumerate(e['items']):
                if i:
                    out.extend(self.data[e['m']]['toks'])
                out.extend(self.op_arg_toks(self.lookup(n, env)))
            return out
        if k == 'esc':
            return self.op_arg_toks(self.lookup(e['arg'], env))
        if k == 'tag':
            return self.bnode_toks(e['el'], env)
        if k == 'frag':
            out = []
            for kid in e['kids']:
                out.extend(self.bkid_toks(kid, env))
            return out
        raise ValueError(k)

    def op_arg_toks(self, v):
        """an operand of a Markup operator: escaped unless marked safe"""
        k = v['k']
        if k == 'm':
            return list(v['toks'])
        if k == 'o' and v.get('html'):
            h = v['html']
            return [['ALT', [h['toks'], [T(v['str'])], [T(h['s'])]]]]
        return [T(item_str(v))]

    def pieces_toks(self, pieces, args):
        out = []
        for p in pieces:
            if p[0] == 'S':
                attrs, attrs_n = {}, {}
                for an, av in p[2]:
                    if av[0] == 'lit':
                        attrs[an] = attrs_n[an] = av[1]
                    else:
                        s = item_str(args[av[1]])
                        attrs[an] = s
                        # the tag is part of a Markup text: with strip_whitespace the filter normalises the
                        # whole text run, attribute values included (unless inside pre/textarea)
                        attrs_n[an] = normws(s) if self.case['strip'] else s
                if attrs_n != attrs:
                    out.append(['ALT', [[['S', p[1], attrs_n]], [['S', p[1], attrs]]]])
                else:
                    out.append(['S', p[1], attrs])
            elif p[0] == 'E':
                out.append(['E', p[1]])
            elif p[0] == 'T':
                out.append(T(p[1]))
            elif p[0] == 'H':
                out.extend(self.op_arg_toks(args[p[1]]))
        return out

    # ---- builder
    def bnode_toks(self, b, env):
        attrs = {}
        for kw, n in b['attrs']:
            s = val_attr_str(self.lookup(n, env))
            name = KWATTRS[kw]
            if s is not None and name not in attrs:
                attrs[name] = s
        out = [['S', b['name'], attrs]]
        for kid in b['kids']:
            out.extend(self.bkid_toks(kid, env))
        out.append(['E', b['name']])
        return out

    def bkid_toks(self, kid, env):
        if 'el' in kid:
            return self.bnode_toks(kid['el'], env)
        if 'lst' in kid:
            out = []
            for n in kid['lst']:
                out.extend(self.bchild_toks(self.lookup(n, env)))
            return out
        return self.bchild_toks(self.lookup(kid['v'], env))

    def bchild_toks(self, v):
        k = v['k']
        if k == 'n':
            return []
        if k == 'm':
            return list(v['toks'])
        if k in ('l', 'g'):
            out = []
            for x in v['items']:
                out.extend(self.bchild_toks(x))
            return out
        if k == 'o' and v.get('html'):
            h = v['html']
            return [['ALT', [[T(v['str'])], [T(h['s'])], h['toks']]]]
        if k in ('isub', 'fsub'):
            return [T(v['str'])]
        return [T(item_str(v))]

    # ---- attribute values
    def attr_value(self, parts, env):
        vals = []
        for p in parts:
            if 'lit' in p:
                vals.append(p['lit'])
            else:
                e = p['e']
                if e['k'] == 'var':
                    s = val_attr_str(self.lookup(e['n'], env))
                elif e['k'] in ('list', 'gen'):
                    s = ''.join(item_str(self.lookup(n, env)) for n in e['items']) if e['items'] else None
                else:
                    raise ValueError(e['k'])
                if s is not None:
                    vals.append(s)
        if not vals:
            return None
        return ''.join(vals)

    # ---- nodes
    def nodes_toks(self, nodes, env):
        out = []
        for n in nodes:
            out.extend(self.node_toks(n, env))
        return out

    def node_toks(self, n, env):
        t = n['t']
        if t == 'lit':
            return [T(n['s'])]
        if t == 'site':
            return self.expr_toks(n['e'], env)
        if t == 'cdata':
            # xml / xhtml keep the section (an independent parser reports where it starts); html drops the
            # markers and escapes the text
            # (['BRK']: the whitespace filter normalises the text on either side of a section boundary separately)
            return ([['CDATA']] if self.case['method'] != 'html' else [['BRK']]) + [T(n['s']), ['BRK']]
        if t == 'el':
            if 'for' in n:
                items = self.iter_items(n['for']['e'], env)
                out = []
                inner = dict(n)
                del inner['for']
                for it in items:
                    out.extend(self.node_toks(inner, dict(env, **{n['for']['var']: it})))
                return out
            attrs = {}
            order = []
            for a in n['attrs']:
                v = self.attr_value(a['parts'], env)
                if v is not None:
                    attrs[a['name']] = v
            if n.get('pyattrs'):
                for name, src in n['pyattrs']['items']:
                    v = self.lookup(src, env) if isinstance(src, str) else src
                    s = val_attr_str(v)
                    if s is None:
                        attrs.pop(name, None)          # documented: None removes the attribute
                    else:
                        attrs[name] = s.strip()        # "surrounding whitespace trimmed only for attribute dictionaries"
            out = [['S', n['name'], attrs]]
            if n['name'] in RAW and self.case['method'] == 'html':
                # raw text: the strings as they are emitted, safe or not (the property's exception: no escaping)
                for kid in n['kids']:
                    if kid['t'] == 'lit':
                        out.append(T(kid['s']))
                    else:
                        out.extend(raw_val_toks(self.lookup(kid['e']['n'], env)))
            elif n.get('content') is not None:
                out.extend(self.expr_toks(n['content'], env))
            else:
                out.extend(self.nodes_toks(n['kids'], env))
            out.append(['E', n['name']])
            return out
        if t == 'for':
            out = []
            for it in self.iter_items(n['e'], env):
                out.extend(self.nodes_toks(n['kids'], dict(env, **{n['var']: it})))
            return out
        if t == 'with':
            return self.nodes_toks(n['kids'], dict(env, **{n['var']: self.lookup(n['e']['n'], env)}))
        if t == 'if':
            return self.nodes_toks(n['kids'], env) if n['cond'] else []
        if t == 'choose':
            if n['pick'] in (0, 1):
                return self.nodes_toks(n['kids'][n['pick']], env)
            return []
        if t == 'def':
            self.defs[n['name']] = n
            return []
        if t == 'match':
            # <py:match path="NAME"><NAME>[${select('text()')}]</NAME></py:match>: adds brackets around the text
            return []
        raise ValueError(t)

    def iter_items(self, e, env):
        if e['k'] == 'var':
            v = self.lookup(e['n'], env)
            if v['k'] not in ('l', 'g'):
                raise ValueError('loop over a scalar')
            return list(v['items'])
        if e['k'] in ('list', 'gen'):
            return [self.lookup(n, env) for n in e['items']]
        raise ValueError(e['k'])

    def expected(self):
        c = self.case
        if c['mode'] == 'builder':
            toks = self.expr_toks(c['expr'], {})
        else:
            toks = [['S', 'root', {}]] + self.nodes_toks(c['tmpl'], {}) + [['E', 'root']]
        return toks


def cache_shapes(toks):
    """which events of a (resolved) skeleton the serializer serves from its per-render cache, and whether
    character data follows the cached END of a raw-text element before any other END (the shape of the
    seeded change C01-3).  Returns a sorted list of shape names (for res.dist)."""
    seen = set()
    shapes = set()
    nraw = 0
    armed = False                      # a cached END of a raw-text element, no END since
    cdata_seen = False
    for i, t in enumerate(toks):
        if t[0] == 'S':
            empty = i + 1 < len(toks) and toks[i + 1][0] == 'E'
            key = ('EMPTY' if empty else 'S', t[1], tuple(sorted(t[2].items())))
            if t[1] in RAW and not empty:
                nraw += 1
        elif t[0] == 'E':
            if i > 0 and toks[i - 1][0] == 'S':
                continue               # part of an EMPTY event
            key = ('E', t[1])
        elif t[0] != 'T':
            if t[0] == 'CDATA':
                shapes.add('cdata-section')
                cdata_seen = True
            continue
        else:
            if cdata_seen:
                shapes.add('text-after-cdata-section')
            key = ('T', t[1])
            if armed:
                shapes.add('text-after-cached-raw-END')
                if any(c in t[1] for c in '<&'):
                    shapes.add('hostile-text-after-cached-raw-END')
        if key in seen:
            shapes.add('cache-hit:' + {'S': 'START', 'E': 'END', 'T': 'TEXT', 'EMPTY': 'EMPTY'}[key[0]])
            if key[0] == 'S' and key[1] in RAW:
                shapes.add('cache-hit:raw-START')
        if key[0] == 'E':
            armed = key in seen and key[1] in RAW
        seen.add(key)
    shapes.add('raw-elements:%s' % (nraw if nraw < 2 else '2+'))
    return sorted(shapes)


def first_choice(toks):
    """the token list with every ALT resolved to its first alternative (for messages)"""
    out = []
    for t in toks:
        if t[0] == 'ALT':
            out.extend(first_choice(t[1][0]))
        else:
            out.append(t)
    return out


def same_tokens(want, got, strip):
    """token lists agree; with strip_whitespace a run of character data may come back verbatim or with
    the documented normalisation (which elements preserve white space is not C01's concern); the filter
    normalises what lies between two non-text events, so a run that contains a CDATA section written by the
    template author may also come back with its pieces normalised one by one (w[2])"""
    if len(want) != len(got):
        return False
    for w, g in zip(want, got):
        if w[0] == 'T' and g[0] == 'T':
            if g[1] != w[1] and not (strip and g[1] == normws(w[1])) and \
                    not (strip and len(w) > 2 and g[1] == ''.join(normws(x) for x in w[2])):
                return False
        elif w != g:
            return False
    return True


def match_alts(toks, got, strip, method=None):
    """is there a resolution of the ALT tokens under which the skeleton agrees with `got`?
    Depth-first with pruning: everything before the last text run of the resolved prefix must
    already agree with `got` (so the search is linear unless alternatives really are ambiguous)."""
    budget = [20000]

    def consistent(prefix):
        c = coalesce(prefix)
        if c and c[-1][0] == 'T':
            c = c[:-1]
        return same_tokens(c, got[:len(c)], strip)

    def go(rest, acc):
        budget[0] -= 1
        if budget[0] < 0:
            return False
        i = 0
        acc = list(acc)
        while i < len(rest) and rest[i][0] != 'ALT':
            acc.append(rest[i])
            i += 1
        if i == len(rest):
            return same_tokens(coalesce(acc), got, strip)
        if not consistent(acc):
            return False
        for alt in rest[i][1]:
            if go(list(alt) + rest[i + 1:], acc):
                return True
        return False
    return go(list(toks), [])


PRESERVE = {'xml': frozenset(), 'xhtml': frozenset(['pre', 'textarea']), 'html': frozenset(['pre', 'textarea'])}


def coalesce(toks, strip=False, method=None):
    """merge adjacent text, drop empty text; with strip, each run as strip_whitespace documents it:
    normalised unless it lies inside a whitespace-preserving element of the method.  A ['BRK'] token (the
    boundary of a CDATA section the template author wrote) does not separate character data for a parser,
    but the whitespace filter normalises the pieces on either side of it separately: a merged run that
    contains one carries its pieces as a third component"""
    out = []
    glue = False
    for t in toks:
        if t[0] == 'BRK':
            glue = bool(out) and out[-1][0] == 'T'
            if glue and len(out[-1]) < 3:
                out[-1] = ['T', out[-1][1], [out[-1][1]]]
            if glue:
                out[-1][2].append('')
            else:
                out.append(['T', '', ['', '']])
            continue
        if t[0] == 'T':
            if out and out[-1][0] == 'T':
                last = out[-1]
                if len(last) > 2:
                    out[-1] = ['T', last[1] + t[1], last[2][:-1] + [last[2][-1] + t[1]]]
                else:
                    out[-1] = ['T', last[1] + t[1]]
            else:
                out.append(['T', t[1]])
        else:
            out.append(t)
    pres = PRESERVE.get(method, frozenset())
    depth = 0
    res = []
    for t in out:
        if t[0] == 'T':
            if strip and depth == 0:
                s = ''.join(normws(x) for x in t[2]) if len(t) > 2 else normws(t[1])
                if s:
                    res.append(['T', s])
            elif t[1]:
                res.append(['T', t[1]] + ([t[2]] if len(t) > 2 and len(t[2]) > 1 else []))
        else:
            if t[0] == 'S' and (depth > 0 or t[1] in pres):
                depth += 1
            elif t[0] == 'E' and depth > 0:
                depth -= 1
            res.append(t)
    return res


# --------------------------------------------------------------------------
# template source

NAMECHARS = set('abcdefghijklmnopqrstuvwxyzABCDEFGHIJKLMNOPQRSTUVWXYZ_.0123456789')
PYNS = 'http://genshi.edgewall.org/'


def expr_src(e):
    k = e['k']
    if k == 'var':
        return e['n']
    if k == 'list':
        return '[' + ', '.join(e['items']) + ']'
    if k == 'gen':
        return '(z for z in [' + ', '.join(e['items']) + '])'
    if k == 'call':
        return '%s(%s)' % (e['f'], e['arg'])
    if k == 'fmt':
        if e['tuple'] or len(e['args']) != 1:
            return '%s %% (%s,)' % (e['m'], ', '.join(e['args'])) if e['args'] else '%s %% ()' % e['m']
        return '%s %% %s' % (e['m'], e['args'][0])
    if k == 'fmtmap':
        return '%s %% dict(%s)' % (e['m'], ', '.join('%s=%s' % (kk, n) for kk, n in e['keys']))
    if k == 'add':
        return '%s + %s' % (e['m'], e['arg'])
    if k == 'radd':
        return '%s + %s' % (e['arg'], e['m'])
    if k == 'join':
        return '%s.join([%s])' % (e['m'], ', '.join(e['items']))
    if k == 'esc':
        return 'escape(%s, quotes=%s)' % (e['arg'], 'True' if e['q'] else 'False')
    if k == 'tag':
        return bnode_src(e['el'])
    if k == 'frag':
        return 'tag(%s)' % ', '.join(bkid_src(x) for x in e['kids'])
    raise ValueError(k)


def bkid_src(kid):
    if 'el' in kid:
        return bnode_src(kid['el'])
    if 'lst' in kid:
        return '[' + ', '.join(kid['lst']) + ']'
    return kid['v']


def bnode_src(b):
    kids = ', '.join(bkid_src(x) for x in b['kids'])
    kws = ', '.join('%s=%s' % (kw, n) for kw, n in b['attrs'])
    name = b['name']
    if b.get('call'):
        # tag.b(kids, kw=..)
        args = ', '.join(x for x in [kids, kws] if x)
        return 'tag.%s(%s)' % (name, args)
    # tag.b(kw=..)(kids)  (attributes first, children by a second call)
    return 'tag.%s(%s)(%s)' % (name, kws, kids)


def fmt_string(pieces, mapping_keys=None):
    """the Markup format string the template author wrote for the pieces"""
    def hole(i):
        if mapping_keys is not None:
            return '%%(%s)s' % mapping_keys[i]
        return '%s'
    out = []
    for p in pieces:
        if p[0] == 'S':
            s = '<' + p[1]
            for an, av in p[2]:
                if av[0] == 'lit':
                    s += ' %s="%s"' % (an, markup_escape(av[1], True).replace('%', '%%'))
                else:
                    s += ' %s="%s"' % (an, hole(av[1]))
            out.append(s + '>')
        elif p[0] == 'E':
            out.append('</%s>' % p[1])
        elif p[0] == 'T':
            out.append(markup_escape(p[1], False).replace('%', '%%'))
        else:
            out.append(hole(p[1]))
    return ''.join(out)


def markup_escape(s, q):
    s = s.replace('&', '&amp;').replace('<', '&lt;').replace('>', '&gt;')
    if q:
        s = s.replace('"', '&#34;')
    return s


def site_src(form, e, next_char):
    src = expr_src(e)
    if form == 'dollar' and e['k'] == 'var' and (next_char is None or next_char not in NAMECHARS):
        return '$' + src
    return '${' + src + '}'


def lit_src(s):
    return xesc(s).replace('$', '$$')


def attr_src(a):
    out = []
    parts = a['parts']
    for i, p in enumerate(parts):
        if 'lit' in p:
            out.append(p['lit'].replace('$', '$$'))
        else:
            nxt = None
            if i + 1 < len(parts):
                q = parts[i + 1]
                nxt = q['lit'][:1] if 'lit' in q and q['lit'] else ('$' if 'e' in q else None)
            out.append(site_src(p['form'], p['e'], nxt))
    return '%s=%s' % (a['name'], quoteattr(''.join(out)))


def pyattrs_src(pa):
    if pa['form'] == 'var':
        return pa['var']
    items = []
    for name, src in pa['items']:
        items.append((name, src))
    if pa['form'] == 'dict':
        return '{' + ', '.join("'%s': %s" % (n, s) for n, s in items) + '}'
    return '[' + ', '.join("('%s', %s)" % (n, s) for n, s in items) + ']'


def nodes_src(nodes):
    out = []
    for i, n in enumerate(nodes):
        nxt = None
        if i + 1 < len(nodes):
            m = nodes[i + 1]
            if m['t'] == 'lit' and m['s']:
                nxt = m['s'][0]
            elif m['t'] == 'site':
                nxt = '$'
            else:
                nxt = '<'
        out.append(node_src(n, nxt))
    return ''.join(out)


def node_src(n, nxt=None):
    t = n['t']
    if t == 'lit':
        return lit_src(n['s'])
    if t == 'cdata':
        return '<![CDATA[' + n['s'] + ']]>'
    if t == 'site':
        if n['form'] == 'replace-attr':
            return '<span py:replace="%s">old</span>' % expr_src(n['e'])
        if n['form'] == 'replace-el':
            return '<py:replace value="%s"/>' % expr_src(n['e'])
        return site_src(n['form'], n['e'], nxt)
    if t == 'el':
        s = '<' + n['name']
        for a in n['attrs']:
            s += ' ' + attr_src(a)
        if n.get('pyattrs'):
            s += ' py:attrs=%s' % quoteattr(pyattrs_src(n['pyattrs']))
        if n.get('content') is not None:
            s += ' py:content="%s"' % expr_src(n['content'])
        if 'for' in n:
            s += ' py:for="%s in %s"' % (n['for']['var'], expr_src(n['for']['e']))
        inner = 'old' if n.get('content') is not None else nodes_src(n['kids'])
        if inner:
            return s + '>' + inner + '</%s>' % n['name']
        return s + '/>'
    if t == 'for':
        return '<py:for each="%s in %s">%s</py:for>' % (n['var'], expr_src(n['e']), nodes_src(n['kids']))
    if t == 'with':
        return '<py:with vars="%s=%s">%s</py:with>' % (n['var'], expr_src(n['e']), nodes_src(n['kids']))
    if t == 'if':
        return '<py:if test="%s">%s</py:if>' % ('True' if n['cond'] else 'False', nodes_src(n['kids']))
    if t == 'choose':
        a, b = n['kids']
        return ('<py:choose test="%d"><py:when test="0">%s</py:when><py:when test="1">%s</py:when></py:choose>'
                % (n['pick'], nodes_src(a), nodes_src(b)))
    if t == 'def':
        return '<py:def function="%s(%s)">%s</py:def>' % (n['name'], n['param'], nodes_src(n['kids']))
    raise ValueError(t)


def template_src(case):
    return '<root xmlns:py="%s">%s</root>' % (PYNS, nodes_src(case['tmpl']))


# --------------------------------------------------------------------------
# random cases

class Gen(object):
    def __init__(self, rng, method, strip, impl):
        self.rng = rng
        self.method = method
        self.strip = strip
        self.impl = impl
        self.data = {}
        self.nvar = 0
        self.ndef = 0
        self.defs = []

    def newvar(self, v, prefix='v'):
        name = '%s%d' % (prefix, self.nvar)
        self.nvar += 1
        self.data[name] = v
        return name

    def scalar_var(self, where='text', env=None, plain_only=False):
        rng = self.rng
        if env and rng.random() < 0.5:
            cands = [n for n, kinds in env.items() if (not plain_only or kinds == 'plain')]
            if cands:
                return rng.choice(sorted(cands))
        v = rand_scalar(rng, self.method, where)
        if plain_only:
            while v['k'] not in ('s', 'o') or (v['k'] == 'o' and where == 'attr' and v.get('html')):
                v = rand_scalar(rng, self.method, where)
        return self.newvar(v)

    def markup_var(self, pieces=None, keys=None, sep=False):
        if pieces is not None:
            return self.newvar({'k': 'fmtstr', 's': fmt_string(pieces, keys)}, 'M')
        m = self.rng.choice(SAFE_MARKUP)
        return self.newvar({'k': 'm', 's': m['s'], 'toks': m['toks']}, 'M')

    def pieces(self, nholes):
        """a small piece of author markup with nholes holes (text or attribute position)"""
        rng = self.rng
        ps = []
        hole = [0]

        def lit():
            return rng.choice(['a', ' ', 'x: ', '100%', '&', '<', '"', '', '\n'])

        def take():
            i = hole[0]
            hole[0] += 1
            return i
        while hole[0] < nholes:
            r = rng.random()
            if r < 0.5:
                name = rng.choice(MARKUP_ELEMS)
                attrs = []
                if rng.random() < 0.5:
                    an = rng.choice(ATTRS)
                    if rng.random() < 0.6 and hole[0] < nholes:
                        attrs.append([an, ['hole', take()]])
                    else:
                        attrs.append([an, ['lit', rng.choice(['x', 'a b', '50%', '"', '&'])]])
                ps.append(['S', name, attrs])
                if rng.random() < 0.3:
                    ps.append(['T', lit()])
                if hole[0] < nholes and rng.random() < 0.8:
                    ps.append(['H', take()])
                ps.append(['E', name])
            elif r < 0.8:
                ps.append(['H', take()])
            else:
                ps.append(['T', lit()])
        if rng.random() < 0.3:
            ps.append(['T', lit()])
        return ps

    def op_arg(self, env, attr_hole=False):
        """operand of a Markup operator: str, Markup, object with __html__ (the operand domain of C18;
        other objects make the pure-Python Markup raise, recorded there)"""
        rng = self.rng
        r = rng.random()
        if r < 0.75 or attr_hole:
            v = {'k': 's', 's': fit(rand_text(rng, self.method), self.method, 'attr' if attr_hole else 'text')}
        elif r < 0.87:
            v = {'k': 'o', 'str': fit(rand_text(rng, self.method), self.method, 'text'), 'html': rng.choice(SAFE_MARKUP[:3])}
        else:
            m = rng.choice(SAFE_MARKUP)
            v = {'k': 'm', 's': m['s'], 'toks': m['toks']}
        return self.newvar(v)

    def val(self, env, where):
        """a context value; inside a repeated body (loop, macro) no generator objects (they are consumed once)"""
        v = rand_val(self.rng, self.method, where)
        if env and v['k'] == 'g':
            v = {'k': 'l', 'items': v['items']}
        return v

    def text_expr(self, env, depth):
        rng = self.rng
        if self.defs and rng.random() < 0.12:
            return {'k': 'call', 'f': rng.choice(self.defs), 'arg': self.newvar(rand_scalar(rng, self.method, 'both'))}
        r = rng.random()
        if r < 0.40:
            if env and rng.random() < 0.6:
                return {'k': 'var', 'n': rng.choice(sorted(env))}
            return {'k': 'var', 'n': self.newvar(self.val(env, 'text'))}
        if r < 0.48:
            items = [self.newvar(rand_scalar(rng, self.method, 'text')) for _ in range(rng.randrange(0, 4))]
            return {'k': rng.choice(['list', 'gen']), 'items': items}
        if r < 0.60:
            n = rng.randrange(0, 3)
            ps = self.pieces(n)
            nh = sum(1 for p in ps if p[0] == 'H') + sum(1 for p in ps if p[0] == 'S' for a in p[2] if a[1][0] == 'hole')
            attr_holes = set(a[1][1] for p in ps if p[0] == 'S' for a in p[2] if a[1][0] == 'hole')
            args = [self.op_arg(env, attr_hole=(i in attr_holes)) for i in range(nh)]
            if rng.random() < 0.3 and nh:
                keys = [rng.choice(['a', 'b', 'k']) + str(i) for i in range(nh)]
                return {'k': 'fmtmap', 'm': self.markup_var(ps, keys), 'pieces': ps, 'keys': [[keys[i], args[i]] for i in range(nh)]}
            return {'k': 'fmt', 'm': self.markup_var(ps), 'pieces': ps, 'args': args, 'tuple': nh != 1 or rng.random() < 0.5}
        if r < 0.66:
            return {'k': rng.choice(['add', 'radd']), 'm': self.markup_var(), 'arg': self.op_arg(env)}
        if r < 0.72:
            return {'k': 'join', 'm': self.markup_var(), 'items': [self.op_arg(env) for _ in range(rng.randrange(0, 4))]}
        if r < 0.77:
            return {'k': 'esc', 'arg': self.op_arg(env), 'q': rng.random() < 0.5}
        if r < 0.92:
            return {'k': 'tag', 'el': self.bnode(env, depth)}
        if r < 0.96:
            return {'k': 'frag', 'kids': [self.bkid(env, depth) for _ in range(rng.randrange(0, 3))]}
        if self.defs:
            f = rng.choice(self.defs)
            return {'k': 'call', 'f': f, 'arg': self.newvar(rand_scalar(rng, self.method, 'both'))}
        return {'k': 'var', 'n': self.newvar(self.val(env, 'text'))}

    def bnode(self, env, depth):
        rng = self.rng
        name = rng.choice(ELEMS)
        attrs = []
        for kw in rng.sample(sorted(KWATTRS), rng.randrange(0, 3)):
            attrs.append([kw, self.newvar(rand_scalar(rng, self.method, 'attr', allow_safe=False))])
        kids = [self.bkid(env, depth + 1) for _ in range(rng.randrange(0, 3))]
        return {'name': name, 'attrs': attrs, 'kids': kids, 'call': rng.random() < 0.6}

    def bkid(self, env, depth):
        rng = self.rng
        r = rng.random()
        if r < 0.2 and depth < 3:
            return {'el': self.bnode(env, depth + 1)}
        if r < 0.3:
            return {'lst': [self.newvar(rand_scalar(rng, self.method, 'text')) for _ in range(rng.randrange(0, 3))]}
        if env and rng.random() < 0.3:
            return {'v': rng.choice(sorted(env))}
        return {'v': self.newvar(self.val(env, 'text'))}

    def attr(self, env, name):
        rng = self.rng
        parts = []
        for _ in range(rng.choice([1, 1, 2, 3])):
            r = rng.random()
            if r < 0.35:
                lit = rng.choice(['a', ' ', 'x-', 'http://h/?a=1&b=', '"', "'", '<', '>', '&amp;', '\xe9', '1'])
                if parts and 'lit' in parts[-1]:
                    parts[-1] = {'lit': parts[-1]['lit'] + lit}
                else:
                    parts.append({'lit': lit})
            else:
                if env and rng.random() < 0.4:
                    e = {'k': 'var', 'n': rng.choice(sorted(env))}
                elif rng.random() < 0.12:
                    e = {'k': rng.choice(['list', 'gen']),
                         'items': [self.newvar(rand_scalar(rng, self.method, 'attr', allow_safe=False)) for _ in range(rng.randrange(0, 3))]}
                else:
                    e = {'k': 'var', 'n': self.newvar(self.val(env, 'attr'))}
                parts.append({'e': e, 'form': rng.choice(['brace', 'brace', 'dollar'])})
        return {'name': name, 'parts': parts}

    def pyattrs(self, env):
        rng = self.rng
        items = []
        for name in rng.sample(ATTRS, rng.randrange(1, 3)):
            v = rand_scalar(rng, self.method, 'attr', allow_safe=False)
            # blank values included: after fix ce82919 only None removes an attribute (C01-attrs-blank-dropped)
            items.append([name, self.newvar(v)])
        form = rng.choice(['dict', 'list', 'var'])
        pa = {'form': form, 'items': items}
        if form == 'var':
            # the whole dictionary / list of pairs is one context value
            pa['var'] = self.newvar({'k': 'pairs', 'dict': rng.random() < 0.6, 'items': items}, 'd')
        return pa

    def raw_el(self):
        """<script>/<style> with literal attributes and literal raw-safe text"""
        rng = self.rng
        if rng.random() < 0.5:
            return self.raw_site_el()
        txt = rng.choice(RAW_TEXTS + RAW_TEXTS2[:6] + [''])
        return {'t': 'el', 'name': rng.choice(RAW),
                'attrs': [{'name': an, 'parts': [{'lit': av}]} for an, av in rng.choice(RAW_ATTRS)],
                'kids': [{'t': 'lit', 's': txt}] if txt else []}

    def raw_site_el(self):
        """<script>/<style> holding literal text (with `<`, `&`) and substitution sites: under html the property's
        exception (raw text), under xml / xhtml an ordinary element"""
        rng = self.rng
        kids = []
        for _ in range(rng.randrange(1, 5)):
            if rng.random() < 0.45:
                if not (kids and kids[-1]['t'] == 'lit'):
                    kids.append({'t': 'lit', 's': rng.choice(RAW_TEXTS + RAW_TEXTS2)})
            else:
                r = rng.random()
                if r < 0.7:
                    v = {'k': 's', 's': fit(rand_text(rng, self.method), self.method, 'text')}
                elif r < 0.8:
                    m = rng.choice(SAFE_MARKUP)
                    v = {'k': 'm', 's': m['s'], 'toks': m['toks']}
                elif r < 0.9:
                    v = {'k': 'l', 'items': [{'k': 's', 's': fit(rand_text(rng, self.method), self.method, 'text')}
                                             for _ in range(rng.randrange(0, 3))]}
                else:
                    v = rand_scalar(rng, self.method, 'text')
                if self.method == 'html' and rng.random() < 0.85:
                    # keep most html cases inside the stated domain: no `</` in the payload
                    for x in ([v] if v['k'] != 'l' else v['items']):
                        for key in ('s', 'str'):
                            if isinstance(x.get(key), str) and x['k'] != 'm':
                                x[key] = x[key].replace('</', '< /')
                kids.append({'t': 'site', 'form': rng.choice(['brace', 'brace', 'dollar']), 'e': {'k': 'var', 'n': self.newvar(v)}})
        return {'t': 'el', 'name': rng.choice(RAW),
                'attrs': [{'name': an, 'parts': [{'lit': av}]} for an, av in rng.choice(RAW_ATTRS)],
                'kids': kids}

    def static_el(self, depth=0):
        """an element without any substitution site: the same events every time it is written"""
        rng = self.rng
        r = rng.random()
        if r < 0.4:
            return self.raw_el()
        attrs = [{'name': an, 'parts': [{'lit': rng.choice(['x', 'a b', '"', '&', '<', "'", 'k'])}]}
                 for an in rng.sample(ATTRS, rng.choice([0, 1, 1, 2]))]
        if r < 0.55:
            return {'t': 'el', 'name': rng.choice(VOID), 'attrs': attrs, 'kids': []}
        kids = []
        for _ in range(rng.randrange(0, 3)):
            if rng.random() < 0.3 and depth < 2:
                kids.append(self.static_el(depth + 1))
            elif not (kids and kids[-1]['t'] == 'lit'):
                kids.append({'t': 'lit', 's': rng.choice(['x', 'a<b', '&', ' ', 'k\n', '"', '<b>', '</script>'])})
        return {'t': 'el', 'name': rng.choice(ELEMS), 'attrs': attrs, 'kids': kids}

    def nodes(self, env, depth, n=None):
        rng = self.rng
        out = []
        for _ in range(rng.randrange(1, 4) if n is None else n):
            out.append(self.node(env, depth))
        if out and rng.random() < (0.30 if depth == 0 else 0.12):
            # the same static element two or three times before (some of) the nodes: its START / END /
            # TEXT / EMPTY events are cache hits from the second copy on
            import copy
            st = self.static_el()
            k = rng.choice([2, 2, 3])
            if rng.random() < 0.5:
                pos = [rng.randrange(0, len(out))] * k              # in a row
            else:
                pos = sorted(rng.randrange(0, len(out) + 1) for _ in range(k))
                pos[0] = min(pos[0], len(out) - 1)
            for j, q in enumerate(pos):
                out.insert(q + j, copy.deepcopy(st))
        # two adjacent literals are one literal in the source
        merged = []
        for x in out:
            if x['t'] == 'lit' and merged and merged[-1]['t'] == 'lit':
                merged[-1] = {'t': 'lit', 's': merged[-1]['s'] + x['s']}
            else:
                merged.append(x)
        return [x for x in merged if not (x['t'] == 'lit' and x['s'] == '')]

    def node(self, env, depth):
        rng = self.rng
        r = rng.random()
        if depth > 3:
            r = r * 0.55
        if r < 0.15:
            return {'t': 'lit', 's': rand_lit(rng)}
        if r < 0.45:
            form = rng.choice(['brace', 'brace', 'dollar', 'replace-attr', 'replace-el'])
            e = self.text_expr(env, depth)
            return {'t': 'site', 'form': form, 'e': e}
        if r < 0.80:
            if rng.random() < 0.07:
                return self.raw_el()
            if rng.random() < 0.04:
                return {'t': 'cdata', 's': rng.choice(CDATA_TEXTS)}
            if rng.random() < 0.12:
                n = {'t': 'el', 'name': rng.choice(VOID), 'attrs': [], 'kids': []}
            else:
                n = {'t': 'el', 'name': rng.choice(ELEMS), 'attrs': [], 'kids': []}
            env2 = env
            if rng.random() < 0.12 and depth < 3:
                # py:for on the element itself: attributes and body are evaluated once per item
                var = 'x%d' % self.nvar
                self.nvar += 1
                items = [rand_scalar(rng, self.method, 'both') for _ in range(rng.randrange(0, 4))]
                lv = self.newvar({'k': rng.choice(['l', 'g']) if not env else 'l', 'items': items})
                n['for'] = {'var': var, 'e': {'k': 'var', 'n': lv}}
                env2 = dict(env, **{var: 'any'})
            for an in rng.sample(ATTRS, rng.choice([0, 0, 1, 1, 2])):
                n['attrs'].append(self.attr(env2, an))
            if rng.random() < 0.25:
                n['pyattrs'] = self.pyattrs(env2)
            if n['name'] not in VOID:
                if rng.random() < 0.2:
                    n['content'] = self.text_expr(env2, depth + 1)
                else:
                    n['kids'] = self.nodes(env2, depth + 1, rng.randrange(0, 3))
            return n
        if r < 0.87 and depth < 3:
            var = 'x%d' % self.nvar
            self.nvar += 1
            items = [rand_scalar(rng, self.method, 'both') for _ in range(rng.randrange(0, 4))]
            lv = self.newvar({'k': 'l', 'items': items})
            return {'t': 'for', 'var': var, 'e': {'k': 'var', 'n': lv},
                    'kids': self.nodes(dict(env, **{var: 'any'}), depth + 1)}
        if r < 0.91 and depth < 3:
            var = 'y%d' % self.nvar
            self.nvar += 1
            src = self.newvar(rand_scalar(rng, self.method, 'both'))
            return {'t': 'with', 'var': var, 'e': {'k': 'var', 'n': src},
                    'kids': self.nodes(dict(env, **{var: 'any'}), depth + 1)}
        if r < 0.94 and depth < 3:
            return {'t': 'if', 'cond': rng.random() < 0.7, 'kids': self.nodes(env, depth + 1)}
        if r < 0.97 and depth < 3:
            return {'t': 'choose', 'pick': rng.choice([0, 1, 2]),
                    'kids': [self.nodes(env, depth + 1), self.nodes(env, depth + 1)]}
        if depth == 0 and not env:
            name = 'f%d' % self.ndef
            self.ndef += 1
            param = 'a%d' % self.nvar
            self.nvar += 1
            body = self.nodes({param: 'any'}, 2)
            self.defs.append(name)
            return {'t': 'def', 'name': name, 'param': param, 'kids': body}
        return {'t': 'lit', 's': rand_lit(rng)}


def materialise_data(data, Markup):
    """context dictionary of real Python objects for a case's data"""
    out = {}
    for name in sorted(data):
        if data[name]['k'] != 'pairs':
            out[name] = materialise(data[name], Markup)
    for name in sorted(data):
        v = data[name]
        if v['k'] == 'pairs':
            pairs = [(n, out[src]) for n, src in v['items']]
            out[name] = dict(pairs) if v['dict'] else pairs
    return out


def gen_case(rng, method, strip, impl):
    g = Gen(rng, method, strip, impl)
    if rng.random() < 0.12:
        e = {'k': 'tag', 'el': g.bnode({}, 0)} if rng.random() < 0.8 else \
            {'k': 'frag', 'kids': [{'el': g.bnode({}, 0)}, g.bkid({}, 0)]}
        if e['k'] == 'frag':
            # a fragment has no root: wrap for the re-parse
            e = {'k': 'tag', 'el': {'name': 'div', 'attrs': [], 'kids': e['kids'], 'call': True}}
        return {'mode': 'builder', 'expr': e, 'data': g.data, 'method': method, 'strip': strip, 'impl': impl}
    tmpl = []
    if rng.random() < 0.3:
        # a macro first, so that later sites can call it
        param = 'a%d' % g.nvar
        g.nvar += 1
        body = g.nodes({param: 'any'}, 2)
        g.defs.append('f0')
        g.ndef = 1
        tmpl.append({'t': 'def', 'name': 'f0', 'param': param, 'kids': body})
    tmpl += g.nodes({}, 0, rng.randrange(1, 5))
    return {'mode': 'template', 'tmpl': tmpl, 'data': g.data, 'method': method, 'strip': strip, 'impl': impl}


# --------------------------------------------------------------------------
# is a (possibly shrunk or hand-written) case inside the grammar?  The oracle only judges such cases.

import re as _re
_VAR = _re.compile(r'^[A-Za-z][0-9]+$')


class OutsideGrammar(Exception):
    pass


def _req(cond, what):
    if not cond:
        raise OutsideGrammar(what)


def _valid_scalar(v):
    _req(isinstance(v, dict) and 'k' in v, 'value')
    k = v['k']
    if k == 's':
        _req(isinstance(v.get('s'), str), 's')
    elif k == 'm':
        _req(any(v.get('s') == m['s'] and v.get('toks') == m['toks'] for m in SAFE_MARKUP), 'm')
    elif k == 'i':
        _req(isinstance(v.get('n'), int) and not isinstance(v.get('n'), bool), 'i')
    elif k == 'f':
        _req(isinstance(v.get('x'), str), 'f')
        float(v['x'])
    elif k == 'b':
        _req(isinstance(v.get('v'), bool), 'b')
    elif k == 'n':
        pass
    elif k == 'o':
        _req(isinstance(v.get('str'), str), 'o')
        h = v.get('html')
        _req(h is None or any(h.get('s') == m['s'] and h.get('toks') == m['toks'] for m in SAFE_MARKUP), 'o.html')
    elif k in ('isub', 'fsub'):
        _req(isinstance(v.get('str'), str), k)
        if k == 'isub':
            _req(isinstance(v.get('n'), int), 'isub.n')
    else:
        raise OutsideGrammar('scalar kind %r' % (k,))


def validate(case):
    """raises OutsideGrammar (or any other exception) when the case is not one the generator could have produced"""
    _req(isinstance(case, dict), 'case')
    _req(case.get('method') in ('xml', 'xhtml', 'html'), 'method')
    _req(isinstance(case.get('strip'), bool), 'strip')
    _req(case.get('impl') in ('c', 'py'), 'impl')
    _req(case.get('mode') in ('template', 'builder'), 'mode')
    data = case.get('data')
    _req(isinstance(data, dict), 'data')
    for name, v in data.items():
        _req(_VAR.match(name) is not None, 'data name')
        k = v.get('k')
        if k in ('l', 'g'):
            _req(isinstance(v.get('items'), list), 'items')
            for x in v['items']:
                _valid_scalar(x)
        elif k == 'pairs':
            _req(isinstance(v.get('dict'), bool), 'pairs.dict')
            for n, src in v['items']:
                _req(n in ATTRS and src in data and data[src]['k'] not in ('l', 'g', 'pairs', 'fmtstr'), 'pairs item')
            _req(len(set(n for n, _ in v['items'])) == len(v['items']), 'pairs names')
        elif k == 'fmtstr':
            _req(isinstance(v.get('s'), str), 'fmtstr')
        else:
            _valid_scalar(v)
    defs = {}

    def scalar_name(n, bound):
        _req(isinstance(n, str), 'name')
        if n in bound:
            return
        _req(n in data and data[n]['k'] not in ('l', 'g', 'pairs', 'fmtstr'), 'scalar var %r' % (n,))

    def opnd_name(n, bound):
        scalar_name(n, bound)
        if n not in bound:
            v = data[n]
            _req(v['k'] in ('s', 'm') or (v['k'] == 'o' and v.get('html')), 'operand kind')
        else:
            raise OutsideGrammar('operand from a bound variable')

    def vexpr(e, bound, allow_list=True):
        k = e['k']
        if k == 'var':
            _req(e['n'] in bound or (e['n'] in data and data[e['n']]['k'] not in ('pairs', 'fmtstr')), 'var')
        elif k in ('list', 'gen'):
            for n in e['items']:
                scalar_name(n, bound)
        else:
            raise OutsideGrammar('vexpr ' + str(k))

    def pieces_ok(ps, nargs):
        holes = []
        for p in ps:
            if p[0] == 'S':
                _req(p[1] in MARKUP_ELEMS, 'piece elem')
                for an, av in p[2]:
                    _req(an in ATTRS, 'piece attr')
                    if av[0] == 'hole':
                        holes.append(av[1])
                    else:
                        _req(av[0] == 'lit' and isinstance(av[1], str), 'piece attr lit')
            elif p[0] == 'E':
                _req(p[1] in MARKUP_ELEMS, 'piece elem')
            elif p[0] == 'T':
                _req(isinstance(p[1], str), 'piece text')
            elif p[0] == 'H':
                holes.append(p[1])
            else:
                raise OutsideGrammar('piece')
        _req(holes == list(range(nargs)), 'holes')
        # tags of the author's markup are balanced
        st = []
        for p in ps:
            if p[0] == 'S':
                st.append(p[1])
            elif p[0] == 'E':
                _req(st and st.pop() == p[1], 'piece nesting')
        _req(not st, 'piece nesting')

    def bnode(b, bound):
        _req(b['name'] in ELEMS and isinstance(b.get('call'), bool), 'bnode')
        _req(len(set(kw for kw, _ in b['attrs'])) == len(b['attrs']), 'kw twice')
        for kw, n in b['attrs']:
            _req(kw in KWATTRS, 'kw')
            scalar_name(n, bound)
        for kid in b['kids']:
            bkid(kid, bound)

    def bkid(kid, bound):
        if 'el' in kid:
            bnode(kid['el'], bound)
        elif 'lst' in kid:
            for n in kid['lst']:
                scalar_name(n, bound)
        else:
            vexpr({'k': 'var', 'n': kid['v']}, bound)

    def text_expr(e, bound):
        k = e['k']
        if k in ('var', 'list', 'gen'):
            vexpr(e, bound)
        elif k == 'call':
            _req(e['f'] in defs, 'call of unknown macro')
            scalar_name(e['arg'], bound)
        elif k == 'fmt':
            _req(data[e['m']]['k'] == 'fmtstr' and data[e['m']]['s'] == fmt_string(e['pieces']), 'fmt string')
            pieces_ok(e['pieces'], len(e['args']))
            _req(isinstance(e['tuple'], bool) and (e['tuple'] or len(e['args']) == 1), 'fmt tuple')
            for n in e['args']:
                opnd_name(n, bound)
        elif k == 'fmtmap':
            keys = [kk for kk, _ in e['keys']]
            _req(all(_re.match(r'^[a-z][0-9]+$', kk) for kk in keys) and len(set(keys)) == len(keys), 'keys')
            _req(data[e['m']]['k'] == 'fmtstr' and data[e['m']]['s'] == fmt_string(e['pieces'], keys), 'fmt string')
            pieces_ok(e['pieces'], len(keys))
            for _, n in e['keys']:
                opnd_name(n, bound)
        elif k in ('add', 'radd'):
            _req(data[e['m']]['k'] == 'm', 'markup var')
            opnd_name(e['arg'], bound)
        elif k == 'join':
            _req(data[e['m']]['k'] == 'm', 'markup var')
            for n in e['items']:
                opnd_name(n, bound)
        elif k == 'esc':
            _req(isinstance(e['q'], bool), 'esc')
            opnd_name(e['arg'], bound)
        elif k == 'tag':
            bnode(e['el'], bound)
        elif k == 'frag':
            for kid in e['kids']:
                bkid(kid, bound)
        else:
            raise OutsideGrammar('expr ' + str(k))

    def raw_ok(n):
        if n.get('content') is not None or n.get('pyattrs') or 'for' in n:
            return False
        for k in n['kids']:
            if k['t'] == 'lit':
                if '</' in k['s']:
                    return False
            elif k['t'] == 'site':
                # `${v}` / `$v` with a context variable (not a loop variable: `lookup` of the skeleton is by name)
                if k['form'] not in ('brace', 'dollar') or k['e'].get('k') != 'var' or k['e']['n'] not in data \
                        or data[k['e']['n']]['k'] in ('pairs', 'fmtstr'):
                    return False
            else:
                return False
        return True

    def loop_expr(e, bound):
        if e['k'] == 'var':
            _req(e['n'] not in bound and e['n'] in data and data[e['n']]['k'] in ('l', 'g'), 'loop var')
        else:
            vexpr(e, bound)
            _req(e['k'] in ('list', 'gen'), 'loop expr')

    def nodes(ns, bound, top=False):
        prev_lit = False
        for n in ns:
            t = n['t']
            _req(not (t == 'lit' and prev_lit), 'adjacent literals')
            prev_lit = t == 'lit'
            if t == 'lit':
                _req(isinstance(n['s'], str) and n['s'] != '' and '$' not in n['s'] and '\r' not in n['s']
                     and xml_char_only(n['s']) == n['s'], 'literal')
            elif t == 'cdata':
                _req(isinstance(n['s'], str) and n['s'] != '' and '$' not in n['s'] and '\r' not in n['s']
                     and ']]>' not in n['s'] and xml_char_only(n['s']) == n['s'], 'cdata')
            elif t == 'site':
                _req(n['form'] in ('brace', 'dollar', 'replace-attr', 'replace-el'), 'site form')
                text_expr(n['e'], bound)
            elif t == 'el':
                _req(n['name'] in ELEMS or (n['name'] in VOID and not n['kids'] and n.get('content') is None)
                     or (n['name'] in RAW and raw_ok(n)), 'element')
                b2 = bound
                if 'for' in n:
                    _req(_VAR.match(n['for']['var']) is not None and n['for']['var'] not in data, 'loop variable')
                    loop_expr(n['for']['e'], bound)
                    b2 = [n['for']['var']] + bound
                _req(len(set(a['name'] for a in n['attrs'])) == len(n['attrs']), 'attribute twice')
                for a in n['attrs']:
                    _req((a['name'] in ATTRS or (n['name'] in RAW and a['name'] == 'type')) and a['parts'], 'attr')
                    for p in a['parts']:
                        if 'lit' in p:
                            _req(isinstance(p['lit'], str) and '$' not in p['lit'] and xml_char_only(p['lit']) == p['lit']
                                 and not any(c in p['lit'] for c in '\t\n'), 'attr literal')
                        else:
                            _req(p['form'] in ('brace', 'dollar'), 'attr part form')
                            vexpr(p['e'], b2)
                pa = n.get('pyattrs')
                if pa:
                    _req(pa['form'] in ('dict', 'list', 'var') and pa['items'], 'pyattrs')
                    _req(len(set(x for x, _ in pa['items'])) == len(pa['items']), 'pyattrs names')
                    for name, src in pa['items']:
                        _req(name in ATTRS, 'pyattrs name')
                        scalar_name(src, b2)
                    if pa['form'] == 'var':
                        _req(data[pa['var']]['k'] == 'pairs' and data[pa['var']]['items'] == pa['items'], 'pyattrs var')
                if n.get('content') is not None:
                    text_expr(n['content'], b2)
                    _req(not n['kids'], 'content and kids')
                else:
                    nodes(n['kids'], b2)
            elif t == 'for':
                _req(_VAR.match(n['var']) is not None and n['var'] not in data, 'loop variable')
                loop_expr(n['e'], bound)
                nodes(n['kids'], [n['var']] + bound)
            elif t == 'with':
                _req(_VAR.match(n['var']) is not None and n['var'] not in data and n['e']['k'] == 'var', 'with')
                scalar_name(n['e']['n'], bound)
                nodes(n['kids'], [n['var']] + bound)
            elif t == 'if':
                _req(isinstance(n['cond'], bool), 'if')
                nodes(n['kids'], bound)
            elif t == 'choose':
                _req(n['pick'] in (0, 1, 2) and len(n['kids']) == 2, 'choose')
                nodes(n['kids'][0], bound)
                nodes(n['kids'][1], bound)
            elif t == 'def':
                _req(top and _re.match(r'^f[0-9]+$', n['name']) is not None and _VAR.match(n['param']) is not None
                     and n['param'] not in data, 'def')
                nodes(n['kids'], [n['param']])
                defs[n['name']] = n
            else:
                raise OutsideGrammar('node ' + str(t))

    if case['mode'] == 'builder':
        _req(case['expr']['k'] == 'tag', 'builder root')
        text_expr(case['expr'], [])
    else:
        _req(isinstance(case.get('tmpl'), list), 'tmpl')
        nodes(case['tmpl'], [], top=True)
    # generator objects are consumed once: a generator value is referenced once, outside repeated bodies
    # (the generator guarantees this; a shrunk case keeps it because shrinking only removes)
    return True


def _strings_of(v):
    k = v['k']
    if k == 's':
        return [v['s']]
    if k == 'o':
        return [v['str']]
    if k in ('isub', 'fsub'):
        return [v['str']]
    if k in ('l', 'g'):
        out = []
        for x in v['items']:
            out.extend(_strings_of(x))
        return out
    return []


def in_stated_domain(case):
    """the hypotheses under which the check claims the property (module docstring of harness/props/c01.py):
    outside them lie the recorded findings, which are judged on their listed inputs only"""
    data = case['data']
    method = case['method']
    attr_vars, text_vars, blank_sensitive = set(), set(), set()

    def walk(x, in_attr=False):
        if isinstance(x, dict):
            if 'parts' in x:
                for p in x['parts']:
                    if 'e' in p:
                        names(p['e'], attr_vars)
                return
            if x.get('pyattrs'):
                for _, src in x['pyattrs']['items']:
                    attr_vars.add(src)
                    blank_sensitive.add(src)
            if 'pieces' in x:
                holes = set(a[1][1] for p in x['pieces'] if p[0] == 'S' for a in p[2] if a[1][0] == 'hole')
                args = x['args'] if x['k'] == 'fmt' else [n for _, n in x['keys']]
                for i in holes:
                    attr_vars.add(args[i])
            if 'attrs' in x and 'name' in x and 'call' in x:      # builder node
                for _, n in x['attrs']:
                    attr_vars.add(n)
            if x.get('t') in ('for', 'with') or 'for' in x:
                e = x['for']['e'] if 'for' in x and x.get('t') == 'el' else x.get('e')
                if e is not None:
                    names(e, attr_vars)       # a bound value may reach attribute sites
            if x.get('k') == 'call':
                attr_vars.add(x['arg'])
            for v in x.values():
                walk(v)
        elif isinstance(x, list):
            for v in x:
                walk(v)

    def names(e, acc):
        if e.get('k') == 'var':
            acc.add(e['n'])
        elif e.get('k') in ('list', 'gen'):
            acc.update(e['items'])

    walk(case.get('tmpl') if case['mode'] == 'template' else case.get('expr'))
    for name, v in data.items():
        if v['k'] in ('pairs', 'fmtstr', 'm'):
            continue
        for s in _strings_of(v):
            if fit(s, method, 'attr' if name in attr_vars else 'text') != s:
                return False
    return True


# --------------------------------------------------------------------------
# the site x payload matrix: every substitution site with every critical payload, deterministically

def _site_templates():
    """(name, kind, builder) where builder(vals) -> (tmpl-or-expr, data, mode); vals = list of payload values"""
    V = lambda n: {'k': 'var', 'n': n}
    sites = []

    def text(name, mk):
        sites.append((name, 'text', mk))

    def attr(name, mk):
        sites.append((name, 'attr', mk))
    for form in ('brace', 'dollar', 'replace-attr', 'replace-el'):
        text('text:' + form, lambda v, form=form: ([{'t': 'lit', 's': 'a'}, {'t': 'site', 'form': form, 'e': V('v0')}, {'t': 'lit', 's': ' b'}],
                                                 {'v0': v}))
    # wave 4: a site INSIDE a raw-text element (html: raw text, the exception; xml / xhtml: an ordinary element),
    # the same value again after it
    text('text:inside-script', lambda v: ([{'t': 'el', 'name': 'script', 'attrs': [], 'kids': [
        {'t': 'lit', 's': 'var a = "'}, {'t': 'site', 'form': 'brace', 'e': V('v0')}, {'t': 'lit', 's': '"; if (a < 1 && b) { }'}]},
        {'t': 'site', 'form': 'brace', 'e': V('v0')}], {'v0': v}))
    text('text:inside-style-twice', lambda v: ([{'t': 'el', 'name': 'style', 'attrs': [{'name': 'type', 'parts': [{'lit': 'text/css'}]}],
                                                 'kids': [{'t': 'site', 'form': 'dollar', 'e': V('v0')}, {'t': 'lit', 's': ' p > b { } '},
                                                          {'t': 'site', 'form': 'brace', 'e': V('v0')}]},
                                                {'t': 'el', 'name': 'p', 'attrs': [], 'kids': [{'t': 'site', 'form': 'brace', 'e': V('v0')}]}],
                                               {'v0': v}))
    text('text:py:content', lambda v: ([{'t': 'el', 'name': 'p', 'attrs': [], 'kids': [], 'content': V('v0')}], {'v0': v}))
    text('text:for-body', lambda v: ([{'t': 'for', 'var': 'x1', 'e': V('v0'),
                                       'kids': [{'t': 'el', 'name': 'li', 'attrs': [], 'kids': [{'t': 'site', 'form': 'brace', 'e': V('x1')}]}]}],
                                     {'v0': {'k': 'l', 'items': [v, v]}}))
    text('text:for-attr-form', lambda v: ([{'t': 'el', 'name': 'li', 'attrs': [], 'kids': [], 'content': V('x1'),
                                            'for': {'var': 'x1', 'e': V('v0')}}], {'v0': {'k': 'l', 'items': [v]}}))
    text('text:with', lambda v: ([{'t': 'with', 'var': 'y1', 'e': V('v0'), 'kids': [{'t': 'site', 'form': 'dollar', 'e': V('y1')}]}], {'v0': v}))
    text('text:macro', lambda v: ([{'t': 'def', 'name': 'f0', 'param': 'a1', 'kids': [{'t': 'el', 'name': 'u', 'attrs': [], 'kids': [{'t': 'site', 'form': 'brace', 'e': V('a1')}]}]},
                                   {'t': 'site', 'form': 'brace', 'e': {'k': 'call', 'f': 'f0', 'arg': 'v0'}}], {'v0': v}))
    text('text:list-literal', lambda v: ([{'t': 'site', 'form': 'brace', 'e': {'k': 'list', 'items': ['v0', 'v0']}}], {'v0': v}))
    text('text:generator-expr', lambda v: ([{'t': 'site', 'form': 'brace', 'e': {'k': 'gen', 'items': ['v0']}}], {'v0': v}))
    text('text:list-value', lambda v: ([{'t': 'site', 'form': 'brace', 'e': V('v0')}], {'v0': {'k': 'l', 'items': [v, {'k': 's', 's': 'x'}]}}))
    text('text:generator-value', lambda v: ([{'t': 'site', 'form': 'brace', 'e': V('v0')}], {'v0': {'k': 'g', 'items': [v]}}))
    text('text:if', lambda v: ([{'t': 'if', 'cond': True, 'kids': [{'t': 'site', 'form': 'brace', 'e': V('v0')}]}], {'v0': v}))
    text('text:choose', lambda v: ([{'t': 'choose', 'pick': 1, 'kids': [[{'t': 'lit', 's': 'no'}], [{'t': 'site', 'form': 'brace', 'e': V('v0')}]]}], {'v0': v}))
    text('builder:child', lambda v: ([{'t': 'site', 'form': 'brace', 'e': {'k': 'tag', 'el': {'name': 'b', 'attrs': [], 'kids': [{'v': 'v0'}], 'call': True}}}], {'v0': v}))
    text('builder:child-list', lambda v: ([{'t': 'site', 'form': 'brace', 'e': {'k': 'tag', 'el': {'name': 'b', 'attrs': [], 'kids': [{'lst': ['v0', 'v0']}], 'call': False}}}], {'v0': v}))
    text('builder:fragment', lambda v: ([{'t': 'site', 'form': 'brace', 'e': {'k': 'frag', 'kids': [{'v': 'v0'}, {'el': {'name': 'i', 'attrs': [], 'kids': [{'v': 'v0'}], 'call': True}}]}}], {'v0': v}))
    attr('builder:attr', lambda v: ([{'t': 'site', 'form': 'brace', 'e': {'k': 'tag', 'el': {'name': 'a', 'attrs': [['href', 'v0'], ['class_', 'v0']], 'kids': [], 'call': True}}}], {'v0': v}))
    attr('attr:whole-brace', lambda v: ([{'t': 'el', 'name': 'a', 'attrs': [{'name': 'title', 'parts': [{'e': V('v0'), 'form': 'brace'}]}], 'kids': []}], {'v0': v}))
    attr('attr:whole-dollar', lambda v: ([{'t': 'el', 'name': 'a', 'attrs': [{'name': 'title', 'parts': [{'e': V('v0'), 'form': 'dollar'}]}], 'kids': []}], {'v0': v}))
    attr('attr:mixed', lambda v: ([{'t': 'el', 'name': 'a', 'attrs': [{'name': 'href', 'parts': [{'lit': 'x?a=1&b='}, {'e': V('v0'), 'form': 'brace'}, {'lit': '#"\''}]}], 'kids': []}], {'v0': v}))
    attr('attr:two-exprs', lambda v: ([{'t': 'el', 'name': 'a', 'attrs': [{'name': 'id', 'parts': [{'e': V('v0'), 'form': 'dollar'}, {'e': V('v0'), 'form': 'brace'}]},
                                                                            {'name': 'class', 'parts': [{'lit': 'k'}]}], 'kids': []}], {'v0': v}))
    attr('attr:list-expr', lambda v: ([{'t': 'el', 'name': 'a', 'attrs': [{'name': 'alt', 'parts': [{'e': {'k': 'list', 'items': ['v0', 'v0']}, 'form': 'brace'}]}], 'kids': []}], {'v0': v}))
    attr('attr:in-loop', lambda v: ([{'t': 'el', 'name': 'li', 'attrs': [{'name': 'title', 'parts': [{'e': V('x1'), 'form': 'brace'}]}], 'kids': [],
                                      'for': {'var': 'x1', 'e': V('v0')}}], {'v0': {'k': 'l', 'items': [v, v]}}))
    for form in ('dict', 'list', 'var'):
        def mk(v, form=form):
            pa = {'form': form, 'items': [['title', 'v0'], ['id', 'v1']]}
            data = {'v0': v, 'v1': {'k': 's', 's': 'k'}}
            if form == 'var':
                pa['var'] = 'd2'
                data['d2'] = {'k': 'pairs', 'dict': True, 'items': pa['items']}
            return ([{'t': 'el', 'name': 'a', 'attrs': [{'name': 'id', 'parts': [{'lit': 'old'}]}], 'kids': [], 'pyattrs': pa}], data)
        attr('pyattrs:' + form, mk)
    return sites


def _op_templates():
    """Markup operator sites: operands are str / Markup / __html__ objects only"""
    sites = []
    M = {'k': 'm', 's': '<i>ok</i>', 'toks': [['S', 'i', {}], ['T', 'ok'], ['E', 'i']]}
    Mp = {'k': 'm', 's': '&amp;', 'toks': [['T', '&']]}
    S = lambda e, data: ([{'t': 'site', 'form': 'brace', 'e': e}], data)
    sites.append(('op:add', 'text', lambda v: S({'k': 'add', 'm': 'M1', 'arg': 'v0'}, {'v0': v, 'M1': M})))
    sites.append(('op:radd', 'text', lambda v: S({'k': 'radd', 'm': 'M1', 'arg': 'v0'}, {'v0': v, 'M1': Mp})))
    sites.append(('op:join', 'text', lambda v: S({'k': 'join', 'm': 'M1', 'items': ['v0', 'v0']}, {'v0': v, 'M1': Mp})))
    sites.append(('op:escape-q', 'text', lambda v: S({'k': 'esc', 'arg': 'v0', 'q': True}, {'v0': v})))
    sites.append(('op:escape-noq', 'text', lambda v: S({'k': 'esc', 'arg': 'v0', 'q': False}, {'v0': v})))
    ps1 = [['T', '100% '], ['S', 'b', []], ['H', 0], ['E', 'b']]
    sites.append(('op:fmt-one', 'text', lambda v: S({'k': 'fmt', 'm': 'M1', 'pieces': ps1, 'args': ['v0'], 'tuple': False},
                                                  {'v0': v, 'M1': {'k': 'fmtstr', 's': fmt_string(ps1)}})))
    ps2 = [['S', 'a', [['href', ['hole', 0]], ['class', ['lit', 'x"y']]]], ['H', 1], ['E', 'a'], ['T', ' & ']]
    sites.append(('op:fmt-attr-and-text', 'attr', lambda v: S({'k': 'fmt', 'm': 'M1', 'pieces': ps2, 'args': ['v0', 'v0'], 'tuple': True},
                                                             {'v0': v, 'M1': {'k': 'fmtstr', 's': fmt_string(ps2)}})))
    ps3 = [['H', 0], ['T', ','], ['S', 'em', [['title', ['hole', 1]]]], ['E', 'em']]
    sites.append(('op:fmt-mapping', 'attr', lambda v: S({'k': 'fmtmap', 'm': 'M1', 'pieces': ps3, 'keys': [['a0', 'v0'], ['b1', 'v0']]},
                                                       {'v0': v, 'M1': {'k': 'fmtstr', 's': fmt_string(ps3, ['a0', 'b1'])}})))
    return sites


def _script(txt='var a = 1;', name='script', attrs=()):
    return {'t': 'el', 'name': name, 'attrs': [{'name': an, 'parts': [{'lit': av}]} for an, av in attrs],
            'kids': [{'t': 'lit', 's': txt}] if txt else []}


def _prefixes():
    """(name, wrap) : wrap(tmpl, payload) -> tmpl with repeated static elements in front of the site, so
    that the site is reached with START / END / TEXT / EMPTY events already in the serializer's cache"""
    L = lambda s: {'t': 'lit', 's': s}
    E = lambda name, kids, attrs=(): {'t': 'el', 'name': name, 'attrs': [{'name': an, 'parts': [{'lit': av}]} for an, av in attrs],
                                      'kids': kids}
    out = []
    out.append(('two-scripts', lambda t, s: [_script(), _script()] + t))
    out.append(('two-styles-then-p', lambda t, s: [_script('p > b { }', 'style', [('type', 'text/css')]),
                                                    _script('b { }', 'style', [('type', 'text/css')]),
                                                    E('p', t)]))
    out.append(('three-scripts-in-div', lambda t, s: [E('div', [_script('x'), _script(''), _script('x'), _script('x')] + t)]))
    out.append(('repeated-elements', lambda t, s: [E('b', [L('x')], [('title', 't"<')]), E('b', [L('x')], [('title', 't"<')]),
                                                   E('br', []), E('br', []), E('i', []), E('i', [])] + t))

    # wave 4: raw-text elements that themselves hold the payload (written twice: the second one is served from the
    # serializer cache where the events are equal), then the site
    def scripts_with_site(t, s):
        sc = {'t': 'el', 'name': 'script', 'attrs': [], 'kids': [L('a<b && "'), {'t': 'site', 'form': 'brace', 'e': {'k': 'var', 'n': 'v0'}}]}
        import copy
        return [sc, copy.deepcopy(sc)] + t
    out.append(('two-scripts-holding-the-payload', scripts_with_site))
    C = lambda s: {'t': 'cdata', 's': s}
    out.append(('cdata-then-site', lambda t, s: [C('x < y & z')] + t))
    out.append(('two-cdata-then-p', lambda t, s: [C('a'), E('i', []), C('a'), E('p', t)]))

    def same_text(t, s):
        if not s or '$' in s or '\r' in s or xml_char_only(s) != s:
            return None
        return [E('q', [L(s)]), E('q', [L(s)])] + t
    out.append(('same-text-cached', same_text))
    return out


PREFIX_PAYLOADS = ['<b>', '&', '"><script>alert(1)</script>', '</script>', ']]>', 'a']


def matrix_payload_strings(method, where):
    out = []
    for s in CRIT + FRAGS + UNI + WS + (HTML_ONLY if method == 'html' else []):
        s = fit(s, method, where)
        if s not in out:
            out.append(s)
    out.append(fit(''.join(CRIT), method, where))
    out.append('')
    return out


def matrix_cases(method, strip, impl):
    cases = []
    for name, where, mk in _site_templates():
        vals = [{'k': 's', 's': s} for s in matrix_payload_strings(method, where)]
        vals += [{'k': 'o', 'str': s, 'html': None} for s in ['<b>', '"', '&amp;', "'>", ' x ']]
        vals += [{'k': 'i', 'n': 42}, {'k': 'f', 'x': '1e+100'}, {'k': 'b', 'v': True}, {'k': 'n'},
                 {'k': 'isub', 'n': 5, 'str': '<script>x</script>'}, {'k': 'fsub', 'str': '"><b>'}]
        if where == 'text':
            vals += [{'k': 'm', 's': m['s'], 'toks': m['toks']} for m in SAFE_MARKUP]
            vals += [{'k': 'o', 'str': '<s>', 'html': SAFE_MARKUP[0]}]
        for v in vals:
            tmpl, data = mk(v)
            cases.append({'mode': 'template', 'tmpl': tmpl, 'data': data, 'method': method, 'strip': strip, 'impl': impl,
                          })
    for name, where, mk in _op_templates():
        vals = [{'k': 's', 's': s} for s in matrix_payload_strings(method, where)]
        if where == 'text':
            vals += [{'k': 'm', 's': m['s'], 'toks': m['toks']} for m in SAFE_MARKUP]
            vals += [{'k': 'o', 'str': '<s>', 'html': SAFE_MARKUP[1]}]
        for v in vals:
            tmpl, data = mk(v)
            cases.append({'mode': 'template', 'tmpl': tmpl, 'data': data, 'method': method, 'strip': strip, 'impl': impl})
    # every site x a few critical payloads behind repeated static elements (raw-text elements first)
    for name, where, mk in _site_templates() + _op_templates():
        for s in PREFIX_PAYLOADS:
            s = fit(s, method, where)
            for pname, wrap in _prefixes():
                tmpl0, data = mk({'k': 's', 's': s})
                defs = [n for n in tmpl0 if n['t'] == 'def']          # macros stay at the top level
                tmpl = wrap([n for n in tmpl0 if n['t'] != 'def'], s)
                if tmpl is None:
                    continue
                if pname == 'two-scripts-holding-the-payload' and \
                        ('v0' not in data or data['v0']['k'] in ('pairs', 'fmtstr', 'g')):      # a generator is consumed once
                    continue
                cases.append({'mode': 'template', 'tmpl': defs + tmpl, 'data': data, 'method': method, 'strip': strip,
                              'impl': impl})
    return cases


CRIT8 = ['&', '<', '>', '"', ';', 'a', '#', 'l']
EXHAUSTIVE_SITES = ['text:brace', 'attr:whole-brace', 'pyattrs:dict', 'builder:child', 'attr:mixed', 'op:fmt-attr-and-text',
                    'op:join', 'text:list-value', 'text:after-two-scripts']


def exhaustive_cases(method, strip, impl, maxlen, part, nparts):
    """every string of length <= maxlen over the critical alphabet at the core sites (the strings are split
    over `nparts` shards)"""
    import itertools
    sites = dict((n, (w, mk)) for n, w, mk in _site_templates() + _op_templates())
    sites['text:after-two-scripts'] = ('text', lambda v: ([_script(), _script(), {'t': 'site', 'form': 'brace', 'e': {'k': 'var', 'n': 'v0'}},
                                                          {'t': 'el', 'name': 'p', 'attrs': [], 'kids': [{'t': 'site', 'form': 'brace', 'e': {'k': 'var', 'n': 'v0'}}]}],
                                                         {'v0': v}))
    cases = []
    i = 0
    for n in range(maxlen + 1):
        for tup in itertools.product(CRIT8, repeat=n):
            i += 1
            if i % nparts != part:
                continue
            v = {'k': 's', 's': ''.join(tup)}
            for name in EXHAUSTIVE_SITES:
                where, mk = sites[name]
                tmpl, data = mk(v)
                cases.append({'mode': 'template', 'tmpl': tmpl, 'data': data, 'method': method, 'strip': strip, 'impl': impl})
    return cases

"""Translator part of C01 (substitution sites): values read from the running interpreter and from the
genshi modules under test, written to lean/Genshi/Gen/Subst.lean on every run."""
from harness.extract_tables import HEADER


def gen_subst():
    import six
    from genshi.core import Markup
    from genshi.template.markup import MarkupTemplate
    from genshi.template.base import Template
    from genshi.compat import numeric_types
    parts = [HEADER, 'namespace Genshi.Gen.Subst\n']
    # the characters str.strip() removes (AttrsDirective: six.text_type(v).strip())
    space = [cp for cp in range(0x110000) if not (0xd800 <= cp <= 0xdfff) and chr(cp).isspace()]
    stripped = [cp for cp in space if (chr(cp) + 'x' + chr(cp)).strip() == 'x']
    assert space == stripped
    parts.append('/-- code points removed by CPython `str.strip()` (= `str.isspace`), scanned over U+0000..U+10FFFF -/\n'
                 'def pySpace : List Nat := [%s]\n' % ', '.join(str(c) for c in space))
    # how MarkupTemplate converts a number found by Template._flatten: Markup (marked safe) or plain text
    conv = MarkupTemplate.__dict__.get('_number_conv', Template.__dict__['_number_conv'])
    conv = getattr(conv, '__func__', conv)
    probe = conv(7)
    parts.append('/-- from genshi/template/markup.py:MarkupTemplate._number_conv — is the text of a number marked safe (Markup)? -/\n'
                 'def numberConvSafe : Bool := %s\n' % ('true' if isinstance(probe, Markup) else 'false'))
    parts.append('/-- from genshi/compat.py:numeric_types — are bool/int/float all treated as numbers by _flatten? -/\n'
                 'def numericTypesStd : Bool := %s\n' % ('true' if set(numeric_types) == {float, int} else 'false'))
    parts.append('end Genshi.Gen.Subst\n')
    return 'Subst.lean', '\n'.join(parts)


GENERATORS = [gen_subst]

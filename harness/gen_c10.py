"""Seeded generators for C10: markup templates (py: directives in attribute and element form,
macros, match templates, includes, i18n directives), context data (including data that raises),
API operation sequences and next()-schedules.

Everything is plain JSON: a case can be stored in a finding / replay file and rebuilt exactly.

Two dialects:
  * rich     : everything the property's quantifier names (used by the oracle on the real code)
  * modelled : the fragment the Lean step model executes (py:if/for/with/choose/when/otherwise/
               strip, i18n:domain/comment/ctxt, expressions var | literal | == | not, atoms and
               lists of atoms as data) -- used by the step correspondence
"""

PY = 'http://genshi.edgewall.org/'
I18N = 'http://genshi.edgewall.org/i18n'
XI = 'http://www.w3.org/2001/XInclude'
HEAD = '<div xmlns:py="%s" xmlns:i18n="%s" xmlns:xi="%s">' % (PY, I18N, XI)
TAIL = '</div>'

TAGS = ['p', 'b', 'i', 'span', 'ul', 'li', 'em']
WORDS = ['Foo', 'bar', 'Hello', 'x y', ' z ', 'one', '[q]', 'a&amp;b']
VARS_ATOM = ['a', 'b', 'c', 'n', 's']
VARS_LIST = ['xs', 'ys']


# --------------------------------------------------------------------------
# data

def rand_atom(rng, modelled=False):
    r = rng.random()
    if r < 0.15:
        return None
    if r < 0.35:
        return rng.random() < 0.5
    if r < 0.65:
        return rng.choice([0, 1, 2, 3, 7])
    return rng.choice(['', 'u', 'vw', 'A b', 'q<r', 'inc', ' w '])


def rand_data(rng, modelled=False, fail_bias=0.0):
    """context data: atoms a b c n s, lists xs ys; sometimes a name is left out (-> UndefinedError
    where it is used), sometimes a value is a spec of an object that raises"""
    d = {}
    for v in VARS_ATOM:
        if rng.random() < 0.08 + fail_bias:
            continue
        d[v] = rand_atom(rng, modelled)
    if 'n' in d and rng.random() < 0.7:
        d['n'] = rng.choice([0, 1, 2, 3])
    for v in VARS_LIST:
        if rng.random() < 0.06 + fail_bias:
            continue
        r = rng.random()
        if r < 0.12 and not modelled:
            d[v] = {'$': 'boomiter', 'after': rng.randrange(0, 3)}   # iterable raising part-way
        elif r < 0.2:
            d[v] = rng.choice([None, 5])                                # not iterable -> TypeError
        else:
            d[v] = [rand_atom(rng, modelled) for _ in range(rng.choice([0, 1, 1, 2, 2, 3]))]
    if not modelled and rng.random() < 0.2 + fail_bias:
        d[rng.choice(VARS_ATOM)] = {'$': 'boomstr'}                    # raises when converted to text
    return d


def healthy_data(rng):
    """data for templates with a lazily evaluated nested scope / a stateful match path in focus: every name
    defined, nothing raises, lists long enough for a generator to be suspended between two items (the renders
    differ in the values)"""
    d = {}
    for v in VARS_ATOM:
        d[v] = rng.choice([0, 1, 2, 3, 7, 'u', 'vw', 'A b', True, None])
    for v in VARS_LIST:
        d[v] = [rng.choice([1, 2, 3, 'u', 'vw']) for _ in range(rng.choice([2, 3, 3]))]
    return d


class BoomError(Exception):
    pass


class BoomStr(object):
    """data object that raises when it is rendered"""
    def __str__(self):
        raise BoomError('str')
    __unicode__ = __str__

    def __repr__(self):
        return '<BoomStr>'          # no address: the object may be shown inside a tuple / list

    def __eq__(self, other):
        return False

    def __hash__(self):
        return 1

    def __bool__(self):
        return True


class BoomIter(object):
    """iterable that raises after `after` items (fresh iterator each time)"""
    def __init__(self, after):
        self.after = after

    def __repr__(self):
        return '<BoomIter %d>' % self.after

    def __iter__(self):
        for i in range(self.after):
            yield i
        raise BoomError('iter')

    def __bool__(self):
        return True


def build_value(v):
    if isinstance(v, dict) and '$' in v:
        if v['$'] == 'boomstr':
            return BoomStr()
        if v['$'] == 'boomiter':
            return BoomIter(v.get('after', 0))
        raise ValueError(v)
    if isinstance(v, list):
        return [build_value(x) for x in v]
    return v


def build_data(spec):
    """fresh python objects for one render (never shared between renders)"""
    return dict((k, build_value(v)) for k, v in spec.items())


# --------------------------------------------------------------------------
# expressions

def rand_expr(rng, modelled=False, want='any', loopvars=()):
    """python expression source over the data names. want: any | bool | list"""
    names = list(VARS_ATOM) + list(loopvars)
    if want == 'list':
        r = rng.random()
        if r < 0.8:
            return rng.choice(VARS_LIST)
        if r < 0.9 and not modelled:
            return '[1, 2]'
        return rng.choice(names)          # probably not iterable -> TypeError
    r = rng.random()
    if r < 0.45:
        return rng.choice(names)
    if r < 0.55:
        return rng.choice(['1', '0', "'t'", 'None', 'True', 'False']) if not modelled else rng.choice(['1', '0', "'t'"])
    if r < 0.75:
        return '%s == %s' % (rng.choice(names), rng.choice(names + ['1', "'u'"]))
    if r < 0.88:
        return 'not %s' % rng.choice(names)
    if modelled:
        return rng.choice(names)
    return rng.choice(['len(xs)', 'xs[0]', '1/n', 'missing', 'a + 1', 's.upper()', 'defined("a")',
                       "value_of('zz', 3)"])


# --------------------------------------------------------------------------
# templates

class Gen(object):
    def __init__(self, rng, modelled=False, i18n=True, includes=(), rich_i18n=True):
        self.rng = rng
        self.modelled = modelled
        self.i18n = i18n
        self.rich_i18n = rich_i18n and not modelled
        self.includes = list(includes)
        self.features = set()
        self.defs = []
        self.pending_defs = []
        self.ndefs = 0
        self.budget = rng.choice([4, 6, 8, 10, 14])

    def text(self, loopvars=(), allow_expr=True):
        rng = self.rng
        parts = []
        for _ in range(rng.choice([1, 1, 2, 3])):
            r = rng.random()
            if r < 0.5 or not allow_expr:
                parts.append(rng.choice(WORDS))
            elif r < 0.8:
                parts.append('$' + rng.choice(list(VARS_ATOM) + list(loopvars)))
                self.features.add('expr')
            else:
                parts.append('${%s}' % rand_expr(rng, self.modelled, loopvars=loopvars).replace('<', '&lt;'))
                self.features.add('expr')
        return ''.join(parts)

    def attrs(self, loopvars=()):
        rng = self.rng
        out = []
        if rng.random() < 0.3:
            out.append('class="%s"' % rng.choice(['k', 'm n']))
        if rng.random() < 0.2:
            names = list(VARS_ATOM) + list(loopvars)
            out.append(rng.choice(['title="T$%s"', 'title="$%s"', 'title="${%s}-$b"', 'id="$%s"', 'lang="a ${%s} $c"',
                                   'title="T${xs}${%s}"']) % rng.choice(names))
            self.features.add('attr-interp')
        elif rng.random() < 0.1:
            out.append('title="Tip"')
        return out

    def content(self, depth, loopvars, in_choose=False):
        rng = self.rng
        out = []
        n = rng.choice([0, 1, 1, 2, 2, 3])
        for _ in range(n):
            if self.budget <= 0 or depth > 4 or rng.random() < 0.35:
                out.append(self.text(loopvars))
            else:
                out.append(self.element(depth + 1, loopvars))
        return ''.join(out)

    def py_dirs(self, loopvars, in_choose):
        """list of (name, value) py: attributes for one element, plus new loop variables"""
        rng = self.rng
        m = self.modelled
        dirs = []
        newvars = []
        kinds = ['if', 'for', 'with', 'choose', 'strip', 'content', 'replace', 'def', 'match', 'attrs']
        k = rng.choice([1, 1, 1, 2, 2, 3])
        for name in rng.sample(kinds, min(k, len(kinds))):
            if name == 'if':
                dirs.append(('if', rand_expr(rng, m, 'bool', loopvars)))
            elif name == 'for':
                v = rng.choice(['x', 'y'])
                dirs.append(('for', '%s in %s' % (v, rand_expr(rng, m, 'list', loopvars))))
                newvars.append(v)
            elif name == 'with':
                v = rng.choice(['w', 'a'])
                dirs.append(('with', '%s=%s' % (v, rand_expr(rng, m, 'any', loopvars))))
                newvars.append(v)
            elif name == 'choose':
                dirs.append(('choose', rng.choice(['', '', rand_expr(rng, m, 'any', loopvars)])))
            elif name == 'strip':
                dirs.append(('strip', rng.choice(['', '', rand_expr(rng, m, 'bool', loopvars)])))
            elif name == 'content':
                dirs.append(('content', rand_expr(rng, m, 'any', loopvars)))
            elif name == 'replace':
                # py:replace together with attrs/strip/content on one element is a C04 defect class
                if not any(d[0] in ('attrs', 'strip', 'content') for d in dirs):
                    dirs.append(('replace', rand_expr(rng, m, 'any', loopvars)))
            elif name == 'attrs':
                if not any(d[0] == 'replace' for d in dirs):
                    dirs.append(('attrs', rng.choice(["{'id': a}", 'None', "{'class': None}", "[('k', s)]",
                                                      "{'title': b, 'id': n}", "[('class', c), ('class', s)]",
                                                      "{'title': None, 'class': s}", rng.choice(VARS_ATOM), '{}',
                                                      "[('title', n), ('id', None), ('k', a)]"])))
            elif name == 'def':
                self.ndefs += 1
                fn = 'f%d' % self.ndefs
                arg = rng.choice(['', '(p)', "(p, q='d')"])
                # callable only after the element is closed: no macro calls itself (unbounded recursion)
                self.pending_defs.append((fn, arg))
                dirs.append(('def', fn + arg))
                if arg:
                    newvars.append('p')
            elif name == 'match':
                # outside the step model also paths whose test keeps state between events (positional
                # predicates, multi-step paths of every strategy): a test object shared between renders
                # shows only with these (seeded change C10-1)
                dirs.append(('match', rng.choice(['em', 'span', 'li', 'b/i', '*[@class]', 'p', 'p[2]', 'li[1]', '*[2]',
                                                  'ul/li', 'p/b', 'ul//li', 'p//i', '*/em', 'span[@class]/b', 'p/*[1]',
                                                  'li[2]', 'b[1]', 'ul/li[1]', '*/b/i'] if not m else
                                                 ['em', 'span', 'li', 'p', 'b'])))
        if any(d[0] == 'replace' for d in dirs):
            dirs = [d for d in dirs if d[0] not in ('attrs', 'strip', 'content')]
        if in_choose and rng.random() < 0.8:
            if rng.random() < 0.7:
                dirs.append(('when', rand_expr(rng, m, 'bool', loopvars)))
            else:
                dirs.append(('otherwise', ''))
        elif rng.random() < 0.03:
            dirs.append(rng.choice([('when', 'a'), ('otherwise', '')]))       # outside a choose: runtime error
        for d in dirs:
            self.features.add('py:' + d[0])
        return dirs, newvars

    def i18n_dirs(self, loopvars):
        rng = self.rng
        dirs = []
        if not self.i18n:
            return dirs
        r = rng.random()
        if r < 0.25:
            dirs.append(('comment', rng.choice(['note', 'c2'])))
        if rng.random() < 0.2:
            dirs.append(('domain', rng.choice(['foo', 'bar', ''])))
        if rng.random() < 0.1:
            dirs.append(('ctxt', rng.choice(['menu', 'k'])))
        for d in dirs:
            self.features.add('i18n:' + d[0])
        return dirs

    def element(self, depth, loopvars, in_choose=False):
        rng = self.rng
        self.budget -= 1
        r = rng.random()
        if self.rich_i18n and self.i18n and r < 0.1:
            return self.msg_element(loopvars)
        if self.rich_i18n and self.i18n and r < 0.15:
            return self.i18n_choose(loopvars)
        if self.includes and 0.15 <= r < 0.25:
            return self.include()
        if 0.25 <= r < 0.40 and self.defs:
            fn, arg = rng.choice(self.defs)
            self.features.add('call-def')
            give = bool(arg) if rng.random() < 0.85 else not arg      # sometimes too few / too many arguments
            return '${%s(%s)}' % (fn, '' if not give else rng.choice(['a', '1', "'z'"]))
        if not self.modelled and 0.40 <= r < 0.43:
            self.features.add('python-pi')
            return '<?python pv = %s ?>' % rng.choice(['1', 'len("ab")', 'n'])
        if 0.43 <= r < 0.47:
            return self.lazy_element(loopvars)
        if not self.modelled and 0.47 <= r < 0.50:
            return self.match_block()
        tag = rng.choice(TAGS)
        attrs = self.attrs(loopvars)
        dirs, newvars = [], []
        if rng.random() < 0.6:
            dirs, newvars = self.py_dirs(loopvars, in_choose)
        idirs = self.i18n_dirs(loopvars) if rng.random() < 0.5 else []
        elem_form = None
        if dirs and rng.random() < 0.2:
            # one directive in element form wrapping the element
            cand = [d for d in dirs if d[0] in ('if', 'for', 'with', 'choose', 'def', 'match', 'when', 'otherwise')
                    and d[0] != 'replace']
            if cand:
                elem_form = rng.choice(cand)
                dirs = [d for d in dirs if d is not elem_form]
                self.features.add('element-form')
        inner_vars = tuple(loopvars) + tuple(newvars)
        mine, self.pending_defs = self.pending_defs, []
        has_choose = any(d[0] == 'choose' for d in dirs) or (elem_form and elem_form[0] == 'choose')
        body = self.content(depth, inner_vars, in_choose=has_choose)
        if has_choose and rng.random() < 0.8:
            body = ''.join(self.element(depth + 1, inner_vars, in_choose=True)
                           for _ in range(rng.choice([1, 2, 3])))
        alist = attrs + ['py:%s="%s"' % (k, esc_attr(v)) for k, v in dirs] + \
            ['i18n:%s="%s"' % (k, esc_attr(v)) for k, v in idirs]
        rng.shuffle(alist)
        s = '<%s%s>%s</%s>' % (tag, ''.join(' ' + a for a in alist), body, tag)
        self.defs.extend(mine)
        if elem_form:
            k, v = elem_form
            argname = {'if': 'test', 'for': 'each', 'with': 'vars', 'choose': 'test', 'def': 'function',
                       'match': 'path', 'when': 'test', 'otherwise': None}[k]
            if argname is None:
                s = '<py:%s>%s</py:%s>' % (k, s, k)
            elif k == 'match' and rng.random() < 0.5:
                self.features.add('match-once')
                s = '<py:match path="%s" once="true">%s</py:match>' % (esc_attr(v), s)
            else:
                s = '<py:%s %s="%s">%s</py:%s>' % (k, argname, esc_attr(v), s, k)
        return s

    # code of a NESTED scope that reads a context variable and runs lazily: it is suspended (or merely
    # defined) in one next() and continues in a later one -- in between other renders of the same template
    # object evaluate their own expressions (seeded change C10-3: a globals dict shared by all evaluations)
    LAZY_BODIES = ["'%%s:%%s;' %% (x, %(v)s)", "(x, %(v)s)", "x == %(v)s", "'%%s' %% %(v)s"]

    def lazy_element(self, loopvars=()):
        rng = self.rng
        v = rng.choice(VARS_ATOM)               # the context variable that is read late
        xs = rng.choice(VARS_LIST)
        body = rng.choice(self.LAZY_BODIES) % {'v': v}
        kind = rng.choice(['lazy-genexp', 'lazy-genexp', 'lambda-late', 'codeblock-generator'])
        if self.modelled:
            # the step model has the generator expression and map(lambda): mostly those, with bodies of its
            # expression fragment (the tuple body stays as a case that must come back `unmodelled`)
            kind = rng.choice(['lazy-genexp'] * 4 + ['lambda-late'] * 3 + ['codeblock-generator'])
            body = rng.choice(self.LAZY_BODIES + ["x == %(v)s", "'%%s:%%s;' %% (x, %(v)s)", "%(v)s", "not %(v)s",
                                                  "'<%%s>' %% x"]) % {'v': v}
            r = rng.random()
            if r < 0.08:
                xs = rng.choice(['s', 'n'])     # a string is iterated by character, a number raises where the
                                                # expression stands
        self.features.add(kind)
        tag = rng.choice(TAGS)
        pre = ''
        if kind == 'lazy-genexp':
            src = '(%s for x in %s)' % (body, xs)
        elif kind == 'lambda-late':
            if rng.random() < 0.3:
                # defined by one expression, called from later ones
                if self.modelled and rng.random() < 0.5:
                    # ... in a context in which the name the body reads has been rebound meanwhile: the body sees
                    # the Context as it is at the call
                    return ('<%s py:with="g=lambda x: %s">${g(1)}<i py:with="%s=%s">${g(2)}</i><i py:for="%s in %s">${g(1)}</i></%s>'
                            % (tag, esc_attr(body), v, rng.choice(VARS_ATOM + ["'W'"]), v, xs, tag))
                return ('<%s py:with="g=lambda x: %s">${g(1)}<i py:for="y in %s">${g(y)}$%s</i></%s>'
                        % (tag, esc_attr(body), xs, rng.choice(VARS_ATOM), tag))
            src = 'map(lambda x: %s, %s)' % (body, xs)       # map() is lazy: the lambda runs item by item
        else:
            self.nlazy = getattr(self, 'nlazy', 0) + 1
            fn = 'gen%d' % self.nlazy
            pre = '<?python\ndef %s():\n    for x in %s:\n        yield %s\n?>' % (fn, xs, body)
            src = fn + '()'
        other = rng.choice(VARS_ATOM)
        if self.modelled:
            r = rng.random()
            if kind == 'codeblock-generator' and r < 0.3:
                # the code block runs inside a scope (its function lands in that scope's dict) and the name its
                # body reads is bound there
                return ('<%s py:with="%s=%s">%s<i py:for="v in %s">$v</i>$%s</%s>${%s}'
                        % (tag, v, rng.choice(VARS_ATOM + ["'W'"]), pre, esc_attr(src), other, tag, src))
            if r < 0.25:
                # the loop variable has the name the body reads late: when the next item is computed the loop's
                # scope is not on the context
                return pre + '<%s py:for="%s in %s">$%s<b>$%s</b></%s>' % (tag, v, esc_attr(src), v, other, tag)
            if r < 0.55:
                # the name is rebound around the loop: the body sees the binding in force at each next()
                return pre + ('<%s py:with="%s=%s"><i py:for="v in %s">$v</i>$%s</%s>'
                              % (tag, v, rng.choice(VARS_ATOM + ["'W'"]), esc_attr(src), other, tag))
        if rng.random() < 0.6:
            return pre + '<%s py:for="v in %s">$v<b>$%s</b></%s>' % (tag, esc_attr(src), other, tag)
        return pre + '<%s>$%s${%s}</%s>' % (tag, other, src.replace('<', '&lt;'), tag)

    # a match template whose path test keeps state between events (multi-step, positional predicates, on
    # the first step too) next to a literal fragment on which it fires: a test function / position counter
    # shared between the renders of one template object shows only here (seeded changes C10-1, C12-3)
    MATCH_PATHS = ['%(a)s[2]/%(b)s', '%(a)s[1]/%(b)s', '%(a)s[2]/*', '*[2]/%(b)s', '%(a)s[2]//%(b)s',
                   '%(a)s[1]/%(b)s[1]', '%(a)s[2]/%(b)s[2]', '%(a)s[1]/*/%(b)s', '%(a)s/%(b)s[2]', '%(a)s/%(b)s',
                   '%(a)s[2]/%(b)s[1]', '*[1]/%(b)s', '%(a)s[3]/%(b)s']

    def match_block(self):
        rng = self.rng
        a, b, c = rng.sample(['p', 'b', 'i', 'span', 'em', 'li', 'ul'], 3)
        path = rng.choice(self.MATCH_PATHS) % {'a': a, 'b': b}
        self.features.add('match-stateful')
        self.features.add('py:match')
        body = rng.choice(['<m>[${select(".")}]</m>', '<m>${select("*|text()")}</m>', '<m>$a</m>', '<m/>'])
        if rng.random() < 0.5:
            hints = rng.choice(['', ' buffer="false"', ' once="true"', ' once="false" buffer="false"', ' recursive="false"'])
            mt = '<py:match path="%s"%s>%s</py:match>' % (path, hints, body)
        else:
            mt = body.replace('<m>', '<m py:match="%s">' % path, 1).replace('<m/>', '<m py:match="%s"/>' % path, 1)
        doc = []
        for _ in range(rng.choice([2, 3, 3])):
            kids = []
            for k in range(rng.choice([1, 2, 3])):
                kids.append(rng.choice(['<%s>t%d</%s>' % (b, k, b), '<%s/>' % b, '<%s><%s>n%d</%s></%s>' % (c, b, k, b, c),
                                        'txt', '<%s>$a</%s>' % (b, b)]))
            doc.append('<%s>%s</%s>' % (a, ''.join(kids), a))
        doc = ''.join(doc)
        if rng.random() < 0.3:
            doc = '<%s>%s</%s>' % (c, doc, c)
        if rng.random() < 0.15:
            doc = '<py:for each="x in xs">%s</py:for>' % doc      # the directive runs more than once in one render
            self.features.add('py:for')
        return mt + doc

    def msg_element(self, loopvars):
        rng = self.rng
        self.features.add('i18n:msg')
        names = list(VARS_ATOM) + list(loopvars)
        params = []
        parts = []
        for _ in range(rng.choice([1, 2, 3])):
            r = rng.random()
            if r < 0.5:
                parts.append(rng.choice(['Hello', 'dear', 'Foo bar', 'x']))
            elif r < 0.75:
                v = rng.choice(names)
                params.append(v)
                parts.append(' $%s ' % v)
            else:
                parts.append('<em>%s</em>' % rng.choice(['it', 'now']))
        if rng.random() < 0.1 and params:
            params.pop()        # too few parameter names -> IndexError at render time
        extra = ''
        if rng.random() < 0.2:
            extra = ' py:if="%s"' % rand_expr(rng, False, 'bool', loopvars)
            self.features.add('py:if')
        if rng.random() < 0.15:
            extra += ' i18n:comment="cm"'
        return '<p i18n:msg="%s"%s>%s</p>' % (', '.join(params), extra, ''.join(parts))

    def i18n_choose(self, loopvars):
        rng = self.rng
        self.features.add('i18n:choose')
        num = rng.choice(['n', 'n', 'len(xs)', 'a'])
        return ('<div i18n:choose="%s; n"><p i18n:singular="">One $n %s</p>'
                '<p i18n:plural="">Many $n %s</p></div>') % (esc_attr(num), rng.choice(['coin', 'x']),
                                                             rng.choice(['coins', 'xs']))

    def include(self):
        rng = self.rng
        self.features.add('include')
        name = rng.choice(self.includes + ['nosuch.html'])
        href = name
        if rng.random() < 0.25 and not self.modelled:
            href = '${s}.html'
            self.features.add('include-dynamic')
        fb = ''
        if name == 'nosuch.html' or href != name or rng.random() < 0.3:
            if rng.random() < 0.85:
                fb = '<xi:fallback><i>fb $a</i></xi:fallback>'
        return '<xi:include href="%s">%s</xi:include>' % (href, fb)

    def template(self, focus=None):
        # the construct in focus comes first: what the rest of a random template does with random data (most often:
        # raise) must not keep the renders from reaching it
        first = []
        if focus == 'lazy':
            first = [self.lazy_element(())]
        elif focus == 'match':
            first = [self.match_block()]
        parts = [self.text()] + first + [self.element(1, ()) for _ in range(self.rng.choice([1, 2, 2, 3]))]
        return HEAD + ''.join(parts) + TAIL


def esc_attr(v):
    return v.replace('&', '&amp;').replace('<', '&lt;').replace('"', '&quot;')


LAZY_FEATURES = ('lazy-genexp', 'lambda-late', 'codeblock-generator')


def rand_template(rng, modelled=False, focus=None):
    """-> dict(src, files, translator, auto_reload, features).  focus: None | 'lazy' | 'match' | 'auto' -- put a
    lazily evaluated nested scope / a stateful match path at the top level of the template ('auto': sometimes)"""
    if focus == 'auto':
        r = rng.random()
        focus = 'lazy' if r < 0.10 else 'match' if r < 0.18 else None
    translator = rng.random() < (0.6 if not modelled else 0.5)
    files = {}
    use_files = rng.random() < (0.3 if not modelled else 0.35)
    if use_files and modelled:
        # run-time includes only (auto_reload on): one included file of the same dialect
        g = Gen(rng, True, i18n=translator, includes=())
        g.budget = 4
        files['inc.html'] = g.template()
        if rng.random() < 0.3:
            g2 = Gen(rng, True, i18n=translator, includes=())
            g2.budget = 3
            files['w2.html'] = g2.template()
    elif use_files:
        g = Gen(rng, False, i18n=translator, includes=())
        g.budget = 4
        files['inc.html'] = g.template()
        if rng.random() < 0.5:
            g2 = Gen(rng, False, i18n=translator, includes=['inc.html'])
            g2.budget = 3
            files['w2.html'] = g2.template()      # never the target of a dynamic include: no include cycles
    g = Gen(rng, modelled, i18n=translator, includes=sorted(files))
    src = g.template(focus)
    feats = set(g.features)
    if use_files:
        feats.add('loader')
    return {'src': src, 'files': files, 'translator': translator,
            'auto_reload': (bool(rng.random() < 0.5) if use_files else True) or modelled,
            'features': sorted(feats), 'focus': focus}


def rand_schedule(rng, k, length, lockstep=0.35):
    """a list of render indices < k; biased towards bursts and fine interleaving alike"""
    out = []
    if rng.random() < lockstep:
        # lock step: every render is suspended at the same place of the template as the others
        while len(out) < length:
            out.extend(range(k))
        return out[:length]
    while len(out) < length:
        i = rng.randrange(k)
        out.extend([i] * rng.choice([1, 1, 1, 2, 3, 5]))
    return out[:length]


OPS = ['render', 'render', 'extract', 'stream', 'pickle', 'load', 'partial', 'failrender']


def rand_ops(rng, ndata, n):
    """API operation sequence on one template object"""
    ops = []
    for _ in range(n):
        op = rng.choice(OPS)
        if op == 'render':
            ops.append(['render', rng.randrange(ndata)])
        elif op == 'partial':
            ops.append(['partial', rng.randrange(ndata), rng.randrange(0, 6)])   # consume only k events, then drop
        elif op == 'failrender':
            ops.append(['render', ndata - 1])     # the last data set is biased towards failure
        else:
            ops.append([op])
    return ops

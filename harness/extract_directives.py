"""Translator part for C04: the `directives` lists (name, class name) of the three template
classes, as the code under test defines them now -> lean/Genshi/Gen/Directives.lean.
`Genshi.Tmpl.sortDirs` sorts by the position in `markupDirectives`; Props/C04 compares that
list with the documented processing order by `decide`."""
from harness.extract_tables import HEADER, chars


def _pairs(name, cls, comment):
    rows = [(n, c.__name__) for n, c in cls.directives]
    body = ',\n  '.join('(%s, %s)' % (chars(a), chars(b)) for a, b in rows)
    return '/-- %s -/\ndef %s : List (List Char × List Char) := [\n  %s]\n' % (comment, name, body)


def gen_directives():
    from genshi.template.markup import MarkupTemplate
    from genshi.template.text import NewTextTemplate, OldTextTemplate
    parts = [HEADER, 'namespace Genshi.Gen.Directives\n']
    parts.append(_pairs('markupDirectives', MarkupTemplate, 'from genshi/template/markup.py:MarkupTemplate.directives (order = sort key)'))
    parts.append(_pairs('newTextDirectives', NewTextTemplate, 'from genshi/template/text.py:NewTextTemplate.directives'))
    parts.append(_pairs('oldTextDirectives', OldTextTemplate, 'from genshi/template/text.py:OldTextTemplate.directives'))
    # get_directive_index as the code computes it (must be the list position)
    t = MarkupTemplate('<r/>')
    idx = [t.get_directive_index(c) for _, c in MarkupTemplate.directives]
    parts.append('/-- MarkupTemplate.get_directive_index of each entry of markupDirectives, in order -/\n'
                 'def markupIndices : List Nat := [%s]\n' % ', '.join(str(i) for i in idx))
    parts.append('end Genshi.Gen.Directives\n')
    return 'Directives.lean', '\n'.join(parts)


GENERATORS = [gen_directives]

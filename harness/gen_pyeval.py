"""C03 — generators and glue for the concrete Lean evaluator (`lean/Genshi/Model/PyEvalC.lean`, verb `C03 ceval`).

Expressions inside the concrete value domain of the model (None, bools, ints, strings, tuples, lists, dicts,
attribute-only objects, ranges, closures, generator expressions, a few builtins), biased towards what the scoping rules
decide: names of the context data shadowed by lambda parameters / comprehension variables, nested scopes, defaults and
first iterables that belong to the enclosing scope, closures capturing parameters and loop variables, attribute / item
fall-backs, undefined names / attributes / keys in both lookup modes, context data shadowing builtins.

NOT generated (documented deviation of the model, see notes/C03.md): a closure or generator expression that captures
the loop variable of a comprehension and is called / consumed after that variable was rebound (Python closes over the
variable, the model over its value)."""
import ast
from harness.proto import Atom

INT_NAMES = ['a', 'b', 'c', 'n', 'x', 'y']
UNDEF_NAMES = ['zz', 'nope', 'q0']
LOCAL_POOL = ['i', 'j', 'p', 'q', 'u', 'v', 'a', 'x', 'items', 'd', 'n', 's', 'len', 'o']


def rand_cdata(rng):
    """context data inside the concrete value domain, as a build_value spec (see c03.build_value)"""
    ints = lambda: rng.choice([0, 1, 2, 3, 5, -2, 7])
    scal = lambda: rng.choice([0, 1, 2, -1, 'abc', '', 'k', True, False, None, 10])
    d = {}
    for nm in INT_NAMES:
        r = rng.random()
        if r < 0.8:
            d[nm] = ints()
        elif r < 0.9:
            d[nm] = scal()
    if rng.random() < 0.15:
        d['x'] = [ints() for _ in range(rng.randrange(0, 3))]
    if rng.random() < 0.92:
        d['items'] = [ints() for _ in range(rng.randrange(0, 4))]
    if rng.random() < 0.9:
        d['rows'] = [rng.choice([[ints(), ints()], {'$tuple': [ints(), ints()]}]) for _ in range(rng.randrange(0, 3))]
    if rng.random() < 0.9:
        d['s'] = rng.choice(['abc', '', 'hello', 'k'])
    if rng.random() < 0.92:
        keys = rng.sample(['a', 'k', 'b', 'x', 'get', 'copy'], rng.randrange(0, 4))
        d['d'] = {'$dict': [[k, scal()] for k in keys] + ([[1, 'one']] if rng.random() < 0.25 else [])}
    if rng.random() < 0.92:
        d['o'] = {'$obj': dict((k, scal()) for k in rng.sample(['a', 'b', 'k', 'x'], rng.randrange(0, 4)))}
    if rng.random() < 0.8:
        d['t'] = {'$tuple': [ints() for _ in range(rng.randrange(0, 3))]}
    if rng.random() < 0.7:
        d['m'] = {'$dict': [['d', {'$dict': [['k', ints()]]}], ['o', {'$obj': {'a': ints()}}]]}
    if rng.random() < 0.12:
        d[rng.choice(['len', 'sum', 'sorted', 'list'])] = rng.choice([7, 'abc', [1, 2]])     # the data shadows a builtin
    return d


def value_wire(spec):
    """build_value spec -> wire value of Driver/C03.lean decV (None when outside the domain)"""
    if spec is None or isinstance(spec, bool):
        return spec
    if isinstance(spec, int):
        return [Atom('i'), spec]
    if isinstance(spec, str):
        return spec
    if isinstance(spec, list):
        return [Atom('l')] + [value_wire(v) for v in spec]
    if isinstance(spec, dict):
        if '$tuple' in spec:
            return [Atom('t')] + [value_wire(v) for v in spec['$tuple']]
        if '$dict' in spec:
            return [Atom('d')] + [[value_wire(k), value_wire(v)] for k, v in spec['$dict']]
        if '$obj' in spec:
            return [Atom('o')] + [[k, value_wire(v)] for k, v in sorted(spec['$obj'].items())]
    raise ValueError(spec)


def data_wire(data):
    return [[k, value_wire(v)] for k, v in sorted(data.items())]


def in_domain(spec):
    try:
        value_wire(spec)
        return True
    except ValueError:
        return False


def model_canon(w):
    """answer value of `ceval` -> the canonical form of c03.canon"""
    if isinstance(w, Atom):
        return {'N': ['NoneType', 'None'], 'T': ['bool', 'True'], 'F': ['bool', 'False']}[str(w)]
    if isinstance(w, str):
        return ['str', repr(w)]
    tag, rest = str(w[0]), w[1:]
    if tag == 'i':
        return ['int', str(int(rest[0]))]
    if tag in ('l', 't', 'g'):
        return [{'l': 'list', 't': 'tuple', 'g': 'generator'}[tag], [model_canon(x) for x in rest]]
    if tag == 'd':
        return ['dict', [[model_canon(k), model_canon(v)] for k, v in rest]]
    if tag == 'o':
        return ['Obj', 'o']
    if tag == 'r':
        return ['range', repr(range(int(rest[0]), int(rest[1])))]
    if tag == 'u':
        return ['Undefined', rest[0]]
    if tag == 'ty':
        return ['type', rest[0]]
    if tag == 'fn':
        return ['callable']
    if tag == 'gx':
        return ['generator-raises', rest[0]]
    raise ValueError(w)


def model_outcome(ans):
    """answer line (decoded) -> ['ok', canon] / ['err', name] / None (unmodelled)"""
    if isinstance(ans, Atom):
        return None
    if str(ans[0]) == 'ok':
        return ['ok', model_canon(ans[1])]
    return ['err', ans[1]]


def norm_outcome(o):
    """UnboundLocalError is the NameError of a local variable"""
    import json
    return json.loads(json.dumps(o).replace('"UnboundLocalError"', '"NameError"'))


class CGen(object):
    """source text of expressions in the modelled fragment"""

    def __init__(self, rng):
        self.rng = rng
        self.bound = []        # local names in scope (lambda parameters, comprehension variables): int-valued mostly
        self.feat = set()
        self.comp_depth = 0    # > 0: a comprehension variable is in scope (no unconsumed generator expression there)

    # -- leaves
    def int_name(self):
        rng = self.rng
        r = rng.random()
        if self.bound and r < 0.45:
            return rng.choice(self.bound)
        if r < 0.93:
            return rng.choice(INT_NAMES)
        self.feat.add('undef-name')
        return rng.choice(UNDEF_NAMES)

    def const(self):
        return self.rng.choice(['0', '1', '2', '3', '5', '10', '1', '2', '4', "'k'", "'a'", "'abc'", 'None', 'True', 'False', "''"])

    def seq(self, d):
        """something iterable"""
        rng = self.rng
        r = rng.random()
        if r < 0.35:
            return 'items'
        if r < 0.45:
            return 'range(%s)' % rng.choice(['3', '2', 'n', 'len(items)', self.int_name()])
        if r < 0.55:
            return '[%s]' % ', '.join(self.expr(d + 1) for _ in range(rng.randrange(0, 3)))
        if r < 0.62:
            return rng.choice(['s', 't', 'd', 'x', 'rows'])
        if r < 0.70 and d < 3:
            self.feat.add('comp-as-iterable')
            return self.comp(d + 1)
        if r < 0.76:
            return 'items[%s:%s]' % (rng.choice(['', '1', '-1', 'a']), rng.choice(['', '2', '-1', 'n']))
        if r < 0.82:
            return 'sorted(%s)' % rng.choice(['items', 's', 'd', 't'])
        if r < 0.86:
            return '(*items, %s)' % self.expr(d + 1)
        if r < 0.9 and self.bound:
            return rng.choice(self.bound)
        return 'items'

    def fresh(self, k=1):
        rng = self.rng
        pool = [nm for nm in LOCAL_POOL]
        rng.shuffle(pool)
        out = pool[:k]
        if any(nm in INT_NAMES + ['items', 'd', 's', 'len', 'o'] for nm in out):
            self.feat.add('shadow-data-name')
        if any(nm in self.bound for nm in out):
            self.feat.add('shadow-local')
        return out

    def comp(self, d, kind=None):
        """a comprehension / generator expression; loop variables may shadow data names and outer locals"""
        rng = self.rng
        saved = list(self.bound)
        kind = kind or rng.choice(['list', 'list', 'gen'])
        nclauses = rng.choice([1, 1, 1, 2])
        clauses = []
        outer_depth = self.comp_depth
        self.comp_depth += 1
        for ci in range(nclauses):
            r = rng.random()
            if ci > 0 and r < 0.4 and self.bound != saved:
                # the inner iterable depends on an outer loop variable
                it = rng.choice(['range(%s)' % self.bound[-1], '[%s, %s]' % (self.bound[-1], self.expr(d + 1)), 'rows', 'items'])
                self.feat.add('dependent-clause')
            elif r < 0.25:
                it = 'rows'
            else:
                it = self.seq(d)
            if it == 'rows' and rng.random() < 0.7:
                u, v = self.fresh(2)
                tgt, names = rng.choice(['%s, %s', '(%s, %s)', '[%s, %s]']) % (u, v), [u, v]
                self.feat.add('tuple-target')
            else:
                nm = self.fresh(1)[0]
                tgt, names = nm, [nm]
                if ci == 0 and rng.random() < 0.15:
                    it = nm          # `[x for x in x]`: the first iterable is the enclosing scope's name
                    self.feat.add('first-iterable-same-name')
            conds = ''
            self.bound = self.bound + names
            for _ in range(rng.choice([0, 0, 1, 1, 2])):
                conds += ' if ' + self.expr(d + 1, cond=True)
            clauses.append('for %s in %s%s' % (tgt, it, conds))
        elt = self.expr(d + 1)
        self.bound = saved
        self.comp_depth = outer_depth
        body = '%s %s' % (elt, ' '.join(clauses))
        self.feat.add('genexp' if kind == 'gen' else 'listcomp')
        if kind == 'gen':
            # (a generator object that outlives the comprehension it was created in would see the LAST value of that
            # comprehension's variables in Python — the model captures by value; see the module docstring)
            forms = ['sum(%s)', 'list(%s)', 'sorted(%s)', 'tuple(%s)', 'len(list(%s))'] + (['(%s)'] if outer_depth == 0 else [])
            return rng.choice(forms) % body
        return '[%s]' % body

    def lam(self, d):
        """a lambda, called (directly, through a parameter, or through a comprehension)"""
        rng = self.rng
        saved = list(self.bound)
        npar = rng.choice([0, 1, 1, 2, 2, 3])
        names = self.fresh(npar + 4)
        params = names[:npar]
        ndef = rng.randrange(0, npar + 1) if rng.random() < 0.6 else 0
        # defaults are evaluated in the ENCLOSING scope: biased to use the very name the parameter shadows
        defaults = {}
        for nm in params[npar - ndef:]:
            defaults[nm] = nm if (rng.random() < 0.3 and (nm in INT_NAMES or nm in self.bound)) else self.expr(d + 1)
            if defaults[nm] == nm:
                self.feat.add('default-names-shadowed')
        va = ka = None
        ko = []
        r = rng.random()
        if r < 0.2:
            va = names[npar]
        if r > 0.7:
            # keyword-only parameters; a parameter WITH a default may precede one WITHOUT (kw_defaults with holes)
            ko = names[npar + 1:npar + 1 + rng.choice([1, 2, 2, 3])]
            self.feat.add('kwonly-%d' % len(ko))
        if rng.random() < 0.1:
            ka = 'kw'
        plist = ['%s=%s' % (nm, defaults[nm]) if nm in defaults else nm for nm in params]
        if params and rng.random() < 0.15:
            plist.insert(rng.randrange(1, len(plist) + 1), '/')
            self.feat.add('posonly')
        posonly = plist.index('/') if '/' in plist else 0
        if va:
            plist.append('*' + va)
        elif ko:
            plist.append('*')
        kodef = {}
        for nm in ko:
            if rng.random() < 0.5:
                kodef[nm] = self.expr(d + 1)
            plist.append(nm + ('=' + kodef[nm] if nm in kodef else ''))
        if ka:
            plist.append('**' + ka)
        self.bound = self.bound + params + ko
        r = rng.random()
        if va and r < 0.5:
            body = rng.choice(['len(%s)' % va, 'sum(%s)' % va, '(%s, %s)' % (va, self.expr(d + 1)), 'list(%s)' % va])
        elif ka and r < 0.5:
            body = rng.choice(['sorted(kw)', 'len(kw)', "kw.get('z')"])
        elif r < 0.25 and d < 3:
            self.feat.add('nested-lambda')
            body = self.lam(d + 1)
        elif r < 0.45 and d < 3:
            self.feat.add('comp-in-lambda')
            body = self.comp(d + 1)
        else:
            body = self.expr(d + 1)
        self.bound = saved
        src = '(lambda %s: %s)' % (', '.join(plist), body)
        # the call
        need = npar - ndef
        k = rng.randrange(need, npar + 1) if rng.random() < 0.85 else rng.randrange(0, npar + 2)
        args = [self.expr(d + 1) for _ in range(k)]
        if va and rng.random() < 0.6 and k == npar:
            args += [self.expr(d + 1) for _ in range(rng.randrange(1, 3))]
        kws = []
        for nm in params[max(k, posonly):]:
            if nm not in defaults or rng.random() < 0.3:
                kws.append('%s=%s' % (nm, self.expr(d + 1)))
                self.feat.add('keyword-arg')
        for nm in ko:
            if nm not in kodef or rng.random() < 0.5:
                kws.append('%s=%s' % (nm, self.expr(d + 1)))
        holes = [nm in kodef for nm in ko]
        if any(holes[i] and not all(holes[i:]) for i in range(len(holes))):
            self.feat.add('kwonly-default-before-required')
        rng.shuffle(kws)
        if ka and rng.random() < 0.6:
            kws.append('z=%s' % self.expr(d + 1))
        if args and rng.random() < 0.12:
            args = ['*[%s]' % ', '.join(args)]
            self.feat.add('star-arg')
        if kws and rng.random() < 0.1:
            kws = ['**{%s}' % ', '.join('%r: %s' % tuple(kw.split('=', 1)) for kw in kws)]
            self.feat.add('star-star-arg')
        self.feat.add('lambda-call')
        call = ', '.join(args + kws)
        r = rng.random()
        if r < 0.7:
            return '%s(%s)' % (src, call)
        if r < 0.85:
            f = self.fresh(1)[0]
            self.feat.add('closure-passed')
            return '(lambda %s: %s(%s))(%s)' % (f, f, call, src)
        f = self.fresh(1)[0]
        self.feat.add('closure-in-comp')
        return '[%s(%s) for %s in [%s]]' % (f, call, f, src)

    def access(self, d):
        """attribute / item access with the documented fall-backs and the undefined cases"""
        rng = self.rng
        k = rng.choice(['a', 'k', 'b', 'x', 'zz'])
        forms = ['o.%s' % k, 'o[%r]' % k, 'd.%s' % k, 'd[%r]' % k, 'd.get(%r)' % k, 'd.get(%r, %s)' % (k, self.expr(d + 1)),
                 'items[%s]' % rng.choice(['0', '-1', '1', 'a', '5', self.int_name()]), 's[%s]' % rng.choice(['0', '-1', '7']),
                 't[%s]' % rng.choice(['0', '-1']), 'rows[0][%s]' % rng.choice(['0', '1', '2']), 'm.d.k', "m['o'].a", 'm.o.a', "m.d['k']",
                 'd[%s]' % rng.choice(['1', 'a', "'a' + ''", 'zz']), 'o.%s.%s' % (k, k), 'zz.%s' % k, 'zz[0]', 'items.%s' % k,
                 'items[%r]' % k, 's.upper()', 'd.copy()', 'a.%s' % k, 'a[0]', 'None.%s' % k, 'items[1:]', 's[:2]', 't[1:%s]' % self.int_name(),
                 'd.get', 'o.%s(1)' % k, 'zz(1)']
        if self.bound:
            b = rng.choice(self.bound)
            forms += ['%s.%s' % (b, k), '%s[0]' % b, '%s[%r]' % (b, k)] * 2
        self.feat.add('access')
        return rng.choice(forms)

    def expr(self, d, cond=False):
        rng = self.rng
        if d >= 4:
            return self.int_name() if rng.random() < 0.7 else self.const()
        r = rng.random()
        sub = lambda: self.expr(d + 1)
        if cond:
            r = rng.random() * 0.45 + 0.1
        if r < 0.10:
            return self.int_name() if rng.random() < 0.75 else self.const()
        # operands of arithmetic / ordering are mostly int-valued (else nearly every case ends in a TypeError)
        num = lambda: sub() if rng.random() < 0.35 else (self.int_name() if rng.random() < 0.8 else rng.choice(['0', '1', '2', '3', '7']))
        if r < 0.22:
            return '(%s %s %s)' % (num(), rng.choice(['+', '-', '*', '//', '%', '+', '-']), num())
        if r < 0.32:
            ops = ['<', '<=', '>', '>=', '==', '!=']
            n = rng.choice([1, 1, 2])
            return '(' + num() + ''.join(' %s %s' % (rng.choice(ops), num()) for _ in range(n)) + ')'
        if r < 0.37:
            return '(%s %s %s)' % (sub(), rng.choice(['in', 'not in']), rng.choice(['items', 'd', 's', 't', 'range(3)', self.seq(d + 1)]))
        if r < 0.40:
            return '(%s %s None)' % (sub(), rng.choice(['is', 'is not']))
        if r < 0.47:
            return '(%s %s %s)' % (sub(), rng.choice(['and', 'or']), sub()) if rng.random() < 0.7 else '(%s and %s or %s)' % (sub(), sub(), sub())
        if r < 0.51:
            return '(%s %s)' % (rng.choice(['not', '-', 'not', '+', '~']), sub())
        if r < 0.56:
            return '(%s if %s else %s)' % (sub(), sub(), sub())
        if r < 0.68:
            return self.lam(d)
        if r < 0.80:
            return self.comp(d)
        if r < 0.90:
            return self.access(d)
        if r < 0.94:
            return rng.choice(['len(%s)', 'sum(%s)', 'list(%s)', 'tuple(%s)', 'sorted(%s)', 'bool(%s)']) % self.seq(d + 1)
        if r < 0.97:
            return rng.choice(['[%s, %s]', '(%s, %s)', "{'k': %s, 'a': %s}", '[*items, %s, %s]', '{%s: %s}', 'str(%s) + str(%s)', 'abs(%s) + abs(%s)']) % (sub(), sub())
        return rng.choice(['len', 'list', 'range(%s)' % sub(), 'str(%s)' % sub()])


def gen_ceval_cases(rng, n):
    cases = []
    g = CGen(rng)
    while len(cases) < n:
        g.bound, g.feat, g.comp_depth = [], set(), 0
        r = rng.random()
        src = g.lam(0) if r < 0.3 else g.comp(0) if r < 0.55 else g.access(0) if r < 0.62 else g.expr(0)
        try:
            ast.parse(src, mode='eval')
        except SyntaxError:
            continue
        if len(src) > 400:
            continue
        cases.append({'kind': 'ceval', 'src': src, 'lookup': rng.choice(['strict', 'lenient']), 'data': rand_cdata(rng),
                      'feat': sorted(g.feat)})
    return cases


HAND_CEVAL = [
    ('[x for x in x]', {'x': [1, 2]}), ('(lambda a=a: a)()', {'a': 5}), ('(lambda a, /: a)(1)', {}), ('(lambda *, k=a: k)()', {'a': 2}),
    ('[y for x in items for y in x]', {'items': [[1], [2]]}), ('[x for j in items if x for x in range(2)]', {'items': [1], 'x': 0}),
    ('(lambda x: [x for x in range(x)])(3)', {}), ('(lambda x: (lambda y: x + y))(1)(2)', {}), ('[(lambda: i)() for i in items]', {'items': [1, 2]}),
    ('[(lambda q=i: q) for i in items][0]()', {'items': [4, 5]}), ('sum(i * a for i in items if i)', {'items': [0, 1, 2], 'a': 3}),
    ('(lambda items: [i for i in items])([3])', {'items': [1]}), ('(lambda len: len)(5)', {}), ('len(items)', {'items': [1], 'len': 7}),
    ('d.k', {'d': {'$dict': [['k', 1]]}}), ('o["a"]', {'o': {'$obj': {'a': 1}}}), ('d.get("get")', {'d': {'$dict': [['get', 0]]}}),
    ('d.get', {'d': {'$dict': [['get', 0]]}}), ('zz', {}), ('zz.a', {}), ('o.zz', {'o': {'$obj': {}}}), ('d["zz"]', {'d': {'$dict': []}}),
    ('items[5]', {'items': []}), ('not zz', {}), ('[i for i in zz]', {}), ('(lambda p, q=1, *r, u, v=2, **kw: (p, q, r, u, v, sorted(kw)))(0, u=1, z=2)', {}),
    ('(lambda *, lo=0, hi=10, x: (lo, hi, x))(lo=1, x=5)', {}), ('(lambda p: p)(1, 2)', {}), ('(lambda p: p)(q=1)', {}), ('[u + v for u, v in rows]', {'rows': [[1, 2], {'$tuple': [3, 4]}]}),
    ('[u for u, v in items]', {'items': [1]}), ('a < b < c', {'a': 1, 'b': 2, 'c': 3}), ('1 // 0', {}), ('a + "s"', {'a': 1}), ('items[1:]', {'items': [1, 2, 3]}),
    ('(lambda f: f(f))(lambda g: 1)', {}), ('{"k": a, "k": b}', {'a': 1, 'b': 2}), ('{[1]: 2}', {}), ('(*items, a)', {'items': [1], 'a': 0}),
    ('list(i for i in items)', {'items': [1, 2]}), ('(i for i in zz)', {}), ('range(3)', {}), ('True and None or 0', {}),
]


# --------------------------------------------------------------------------
# the same expressions observed through templates

def gen_template_cases(rng, n):
    """MarkupTemplate sources that hand the value of an expression to the recorder `rec` (a context function):
    A `${rec(E)}` in text;  B `py:with="r_v=E"` then `${rec(r_v)}`;  C `py:with="a=CONST; r_q=E"`: the with-variable shadows the
    context name `a` inside E;  D `py:for="TARGET in SEQ"` with `${rec(E)}` in the body: loop targets (names, pairs) are
    context names inside E.  `expr` / `bind` give the plain expression with the same meaning."""
    from xml.sax.saxutils import escape, quoteattr
    cases = []
    g = CGen(rng)
    while len(cases) < n:
        g.bound, g.feat, g.comp_depth = [], set(), 0
        form = rng.choice('AABCDD')
        bind = {}
        if form == 'D':
            if rng.random() < 0.35:
                names, tgt, seq = ['u', 'v'], rng.choice(['u, v', '(u, v)']), 'rows'
            else:
                nm = rng.choice(['i', 'j', 'a', 'x', 'items'])
                names, tgt = [nm], nm
                seq = g.seq(2)
            g.bound = list(names)
            g.comp_depth = 1
            e = g.expr(1)
            g.bound, g.comp_depth = [], 0
            src = '<x xmlns:py="http://genshi.edgewall.org/"><y py:for=%s>${rec(%s)}</y></x>' % (quoteattr('%s in %s' % (tgt, seq)), escape(e))
            expr = '[%s for %s in %s]' % (e, tgt, seq)
        else:
            r = rng.random()
            e = g.lam(1) if r < 0.3 else g.comp(1) if r < 0.55 else g.access(1) if r < 0.65 else g.expr(1)
            expr = e
            if form == 'A':
                src = '<x>${rec(%s)}</x>' % escape(e)
            elif form == 'B':
                src = '<x xmlns:py="http://genshi.edgewall.org/" py:with=%s>${rec(r_v)}</x>' % quoteattr('r_v=' + e)
            else:
                nm = rng.choice(['a', 'x', 'items', 'n'])
                val = rng.choice([0, 1, 4, [1, 2], [], 'k'])
                bind = {nm: val}
                src = '<x xmlns:py="http://genshi.edgewall.org/" py:with=%s>${rec(r_q)}</x>' % quoteattr('%s=%r; r_q=%s' % (nm, val, e))
        try:
            ast.parse(expr, mode='eval')
        except SyntaxError:
            continue
        if len(src) > 500 or '$' in expr:
            continue
        cases.append({'kind': 'tmpl', 'form': form, 'src': src, 'expr': expr, 'bind': bind, 'lookup': rng.choice(['strict', 'lenient']),
                      'data': rand_cdata(rng), 'feat': sorted(g.feat)})
    return cases


HAND_TMPL = [
    ('A', '<x>${rec([x for x in x])}</x>', '[x for x in x]', {}, {'x': [1, 2]}),
    ('A', '<x>${rec((lambda a=a: a)())}</x>', '(lambda a=a: a)()', {}, {'a': 5}),
    ('A', '<x>${rec((lambda *, lo=0, hi=10, x: (lo, hi, x))(lo=1, x=5))}</x>', '(lambda *, lo=0, hi=10, x: (lo, hi, x))(lo=1, x=5)', {}, {}),
    ('B', '<x xmlns:py="http://genshi.edgewall.org/" py:with="r_v=d.k">${rec(r_v)}</x>', 'd.k', {}, {'d': {'$dict': [['k', 1]]}}),
    ('C', '<x xmlns:py="http://genshi.edgewall.org/" py:with="a=4; r_q=[a for i in items]">${rec(r_q)}</x>', '[a for i in items]', {'a': 4}, {'a': 1, 'items': [1, 2]}),
    ('D', '<x xmlns:py="http://genshi.edgewall.org/"><y py:for="u, v in rows">${rec(u + v)}</y></x>', '[u + v for u, v in rows]', {}, {'rows': [[1, 2], {'$tuple': [3, 4]}]}),
    ('D', '<x xmlns:py="http://genshi.edgewall.org/"><y py:for="i in items">${rec((lambda q=i: q + a)())}</y></x>', '[(lambda q=i: q + a)() for i in items]', {}, {'items': [1, 2], 'a': 10}),
    ('A', '<x>${rec(zz)}</x>', 'zz', {}, {}), ('A', '<x>${rec(o.zz)}</x>', 'o.zz', {}, {'o': {'$obj': {}}}),
]

"""Seeded generator of well-formed XML documents *with their generating tree*, and of
builder trees from arbitrary qualified names.  Shared by C02 (round trip) and C07
(parser vs generating tree).  Imports nothing from genshi except in `build()`.

A document is a JSON-serialisable dict

    {'decl': [version, encoding|None, standalone(-1|0|1)] | None,
     'doctype': [name, pubid|None, sysid|None] | None,
     'prolog': [misc...], 'root': elem, 'epilog': [misc...]}

    elem    = {'t': 'e', 'name': [ns, local], 'prefix': p,            # prefix used for the tag
               'decls': [[prefix, uri], ...],                         # xmlns attributes written on the tag
               'attrs': [[[ns, local], prefix, parts, quote], ...],   # parts: see text
               'order': [...],                                        # permutation: how decls+attrs are interleaved
               'kids': [node...], 'selfclose': bool}
    text    = {'t': 't', 'parts': [['lit', s] | ['ent', name] | ['dec', cp] | ['hex', cp], ...]}
    cdata   = {'t': 'cd', 's': s}
    comment = {'t': 'c', 's': s}
    pi      = {'t': 'pi', 'target': t, 'data': d}

API
    gen_doc(rng, **opts) -> doc          write_doc(doc) -> str (the XML text)
    expected_events(doc) -> canonical events the document denotes (independent of any parser):
        ['S', ns, local, sorted [[ns, local, value]]]  ['E', ns, local]  ['T', text] (adjacent text merged)
        ['C', text]  ['PI', target, data]  ['SC']  ['EC']  ['XD', version, enc|None, standalone]
        ['DT', name, pubid|None, sysid|None];  with ns_events=True also ['NS', prefix, uri] before the
        START they belong to (in the order written) and ['ENS', prefix] after the END (reverse order)
    canon_events(genshi_stream, ns_events=False) -> the same vocabulary from genshi events
    expat_events(text_or_bytes, ns_events=False) -> the same vocabulary from an independent expat run
    gen_tree(rng, **opts) -> builder tree {'t':'e','name':[ns,local],'attrs':[[[ns,local],value]],'kids':[...]}
        with kids elem | {'t':'t','s':text};   build(tree) -> genshi.builder.Element;
        tree_events(tree) -> canonical events of the tree
    doc_stats(doc) -> set of construct tags present (for the input distribution)

Domain (kept inside the statement of C02): attribute values hold no TAB/LF/CR, text holds no CR;
no internal DTD subset (genshi's DOCTYPE event has no place for it); XML 1.0 `Char`s only.
Options of gen_doc: depth, width, ns ('none'|'simple'|'heavy'), nonascii (where non-ASCII characters
may occur: 'all' | 'textattr' | 'none'), html_entities, prolog (decl/doctype/misc allowed), xml_prefix_decl,
cdata_runs (opt-in: probability that a child slot holds a *run of adjacent character data* — CDATA sections
directly next to each other, to text and to references, empty sections, sections ending in `]` / `]]`, and
character data containing `]]>` written the one legal way, split over two sections: `..]]]]><![CDATA[>..`).
"""
import json
import re

XML_NS = 'http://www.w3.org/XML/1998/namespace'
URIS = ['u1', 'u2', 'urn:x:y', 'http://www.w3.org/1999/xhtml', 'p', 'http://example.org/a?b=1&c=2']
PREFIXES = ['p', 'q', 'x', 'ns1', 'ns2', 'html']
LOCALS = ['a', 'b', 'c', 'd', 'item', 'x', 'A', 'a-b', 'a.b', '_u', 'n1']
HI_LOCALS = ['\xe9l', '\xfcber', '\u4e2d', 'a\u0301']
ATTR_LOCALS = ['id', 'x', 'y', 'class', 'href', 'a-b', 'lang', '_k']
HTML_ENTS = {'nbsp': 0xa0, 'eacute': 0xe9, 'copy': 0xa9, 'euro': 0x20ac, 'hellip': 0x2026, 'lt': 60, 'amp': 38}
PREDEF = {'amp': '&', 'lt': '<', 'gt': '>', 'quot': '"', 'apos': "'"}

ASCII_POOL = list('abcxyz019 ;#') + ['&', '<', '>', '"', "'", ']', '-', '?', '=', '/', '!', '[']
WS_POOL = [' ', '\n', '\t', '  ', '\n  ']
HI_POOL = ['\xe9', '\xa0', '\xff', '\u0100', '\u20ac', '\u4e2d', '\u2028', '\x85', '\ud7ff', '\ue000',
           '\ufffd', '\U00010000', '\U0001f600', '\U0010ffff', '\u0301']


def _chars(rng, n, nonascii, ws=True, attr=False):
    out = []
    for _ in range(n):
        r = rng.random()
        if r < 0.12 and ws:
            c = rng.choice(WS_POOL)
            if attr:
                c = ' '
            out.append(c)
        elif r < 0.30 and nonascii:
            out.append(rng.choice(HI_POOL))
        else:
            out.append(rng.choice(ASCII_POOL))
    return ''.join(out)


def _parts(rng, nonascii, html_entities, attr=False, maxparts=4):
    """spelled character data: literal runs, entity references, character references"""
    parts = []
    for _ in range(rng.randrange(1, maxparts + 1)):
        r = rng.random()
        if r < 0.6:
            s = _chars(rng, rng.randrange(1, 7), nonascii, attr=attr)
            parts.append(['lit', s])
        elif r < 0.75:
            parts.append(['ent', rng.choice(sorted(PREDEF))])
        elif r < 0.83 and html_entities:
            parts.append(['ent', rng.choice(sorted(HTML_ENTS))])
        else:
            cps = [38, 60, 62, 34, 39, 65, 0xe9, 0x20ac, 0x1f600, 0x10ffff, 0xd7ff, 0xe000, 32]
            if not attr:
                cps += [10, 9]
            cp = rng.choice(cps)
            if cp > 127 and not nonascii:
                cp = 65
            parts.append([rng.choice(['dec', 'hex']), cp])
    return parts


def parts_value(parts):
    out = []
    for k, v in parts:
        if k == 'lit':
            out.append(v)
        elif k == 'ent':
            out.append(PREDEF[v] if v in PREDEF else chr(HTML_ENTS[v]))
        else:
            out.append(chr(v))
    return ''.join(out)


def _write_parts(parts, quote=None):
    out = []
    for k, v in parts:
        if k == 'lit':
            for c in v:
                if c == '&':
                    out.append('&amp;')
                elif c == '<':
                    out.append('&lt;')
                elif c == '>' and quote is None and ''.join(out[-2:]) == ']]':
                    out.append('&gt;')
                elif quote is not None and c == quote:
                    out.append('&quot;' if c == '"' else '&apos;')
                else:
                    out.append(c)
        elif k == 'ent':
            out.append('&%s;' % v)
        elif k == 'dec':
            out.append('&#%d;' % v)
        else:
            out.append('&#x%x;' % v)
    return ''.join(out)


def _gen_elem(rng, scope, depth, o):
    """scope: dict prefix -> uri of the bindings in force ('' -> default namespace, absent = none)"""
    scope = dict(scope)
    decls = []
    if o['ns'] != 'none':
        ndecl = rng.choice([0, 0, 1, 1, 2, 3]) if o['ns'] == 'heavy' else rng.choice([0, 0, 0, 1])
        used = set()
        for _ in range(ndecl):
            r = rng.random()
            if r < 0.35:
                pfx = ''
                uri = rng.choice(URIS + ['', '']) if o['ns'] == 'heavy' else rng.choice(URIS[:3])
            else:
                pfx = rng.choice(PREFIXES)
                uri = rng.choice(URIS)
            if pfx in used:
                continue
            used.add(pfx)
            decls.append([pfx, uri])
            scope[pfx] = uri
    if o.get('xml_prefix_decl') and rng.random() < o['xml_prefix_decl']:
        # the one legal declaration of the `xml` prefix (expat reports it as START_NS('xml', XML_NS)); not put
        # into `scope`: names in the XML namespace are generated separately (xml:lang, ...).  Opt-in, so that
        # the documents of callers that do not ask for it are unchanged.
        decls.append(['xml', XML_NS])
    # element name: a namespace reachable in this scope
    choices = []
    if not scope.get(''):
        choices.append(('', ''))
    for pfx, uri in sorted(scope.items()):
        if uri:
            choices.append((uri, pfx))
    ns, pfx = rng.choice(choices)
    name = [ns, rng.choice(HI_LOCALS) if o['nonascii'] == 'all' and rng.random() < 0.1 else rng.choice(LOCALS)]
    attrs = []
    seen = set()
    for _ in range(rng.choice([0, 0, 1, 1, 2, 4])):
        achoices = [('', '')]
        for p2, uri in sorted(scope.items()):
            if p2 and uri:
                achoices.append((uri, p2))
        if rng.random() < 0.15:
            an, ap, loc = XML_NS, 'xml', rng.choice(['lang', 'space', 'id'])
        else:
            an, ap = rng.choice(achoices)
            loc = rng.choice(HI_LOCALS) if o['nonascii'] == 'all' and rng.random() < 0.1 else rng.choice(ATTR_LOCALS)
        if (an, loc) in seen:
            continue
        seen.add((an, loc))
        attrs.append([[an, loc], ap, _parts(rng, o['nonascii'] != 'none', o['html_entities'], attr=True, maxparts=3),
                      rng.choice(['"', '"', "'"])])
    order = list(range(len(decls) + len(attrs)))
    rng.shuffle(order)
    kids = []
    if depth > 0:
        nk = rng.randrange(0, o['width'] + 1)
        last = None
        for _ in range(nk):
            if o.get('cdata_runs') and rng.random() < o['cdata_runs']:
                run = _gen_run(rng, o, last == 't')
                if run:
                    kids.extend(run)
                    last = run[-1]['t']
                continue
            r = rng.random()
            if r < 0.40:
                kids.append(_gen_elem(rng, scope, depth - 1, o))
                last = 'e'
            elif r < 0.70:
                if last == 't':
                    continue
                kids.append({'t': 't', 'parts': _parts(rng, o['nonascii'] != 'none', o['html_entities'])})
                last = 't'
            elif r < 0.80:
                kids.append(_gen_comment(rng, o))
                last = 'c'
            elif r < 0.90:
                kids.append(_gen_pi(rng, o))
                last = 'pi'
            else:
                cd = _gen_cdata(rng, o)
                prev = [k for k in kids if k['t'] == 't']
                if prev and rng.random() < 0.3:
                    # the same characters inside and outside a CDATA section (serializer cache)
                    v = parts_value(prev[-1]['parts'])
                    if ']]>' not in v and (o['nonascii'] == 'all' or all(ord(c) < 128 for c in v)):
                        cd = {'t': 'cd', 's': v}
                kids.append(cd)
                last = 'cd'
    elif o.get('cdata_runs') and rng.random() < o['cdata_runs']:
        kids.extend(_gen_run(rng, o, False))
    elif rng.random() < 0.5:
        kids.append({'t': 't', 'parts': _parts(rng, o['nonascii'] != 'none', o['html_entities'])})
    return {'t': 'e', 'name': name, 'prefix': pfx, 'decls': decls, 'attrs': attrs, 'order': order, 'kids': kids,
            'selfclose': (not kids) and rng.random() < 0.6}


def _gen_comment(rng, o):
    s = _chars(rng, rng.randrange(0, 8), o['nonascii'] == 'all')
    while '--' in s:
        s = s.replace('--', '- -')
    if s.endswith('-'):
        s += ' '
    return {'t': 'c', 's': s.replace('\r', '')}


def _gen_pi(rng, o):
    target = rng.choice(['php', 'python', 'xml-stylesheet', 'a', 'Xm'])
    d = _chars(rng, rng.randrange(0, 8), o['nonascii'] == 'all').replace('?>', '? >').lstrip(' \n\t')
    return {'t': 'pi', 'target': target, 'data': d}


def _gen_cdata(rng, o):
    s = _chars(rng, rng.randrange(0, 8), o['nonascii'] == 'all').replace(']]>', ']] >')
    return {'t': 'cd', 's': s}


SEAM_POOL = [']', ']]', '>', ']>', ']]]', '>>', 'a', 'b', ' ', '\n', '&', '<', '&amp;', '&#62;', '<![CDATA[', '-->', '?>', '[',
             'x[i[0]]', '</a>']
SPLIT_POOL = ['a]]>b', ']]>', 'x]]]>', 'if (a[b[0]]>1) x();', ']]>]]>', '<![CDATA[x]]>', ' ]]>\n', ']]]]>>']


def _seam_str(rng, o, maxtok=3):
    toks = []
    for _ in range(rng.randrange(0, maxtok + 1)):
        if o['nonascii'] == 'all' and rng.random() < 0.15:
            toks.append(rng.choice(HI_POOL))
        else:
            toks.append(rng.choice(SEAM_POOL))
    return ''.join(toks)


def _gen_run(rng, o, after_text):
    """adjacent character data: CDATA sections next to each other, to text and to references.  No two text
    nodes in a row (a text node is one run of parts already; `_write_parts` guards `]]>` inside one node only)."""
    out = []
    last_t = after_text
    n = rng.randrange(1, 5)
    while len(out) < n:
        r = rng.random()
        if r < 0.30:
            # character data that contains "]]>", written as CDATA the only legal way: split inside the "]]>"
            v = rng.choice(SPLIT_POOL)
            cuts = [m.start() + k for m in re.finditer(r'(?=\]\]>)', v) for k in (1, 2)]
            pieces, prev = [], 0
            for c in sorted(set(cuts)):
                if ']]>' in v[prev:c + 1] or c == cuts[-1] or rng.random() < 0.6:
                    pieces.append(v[prev:c])
                    prev = c
            pieces.append(v[prev:])
            if any(']]>' in p for p in pieces):     # cannot happen; keeps the document well-formed whatever the pools hold
                pieces = [p.replace(']]>', ']] >') for p in pieces]
            out.extend({'t': 'cd', 's': p} for p in pieces)
            last_t = False
        elif r < 0.72 or last_t:
            out.append({'t': 'cd', 's': _seam_str(rng, o).replace(']]>', ']] >')})
            last_t = False
        else:
            parts = []
            for _ in range(rng.randrange(1, 4)):
                k = rng.random()
                if k < 0.6:
                    lit = _seam_str(rng, o, 2) or ']]'
                    parts.append(['lit', lit])
                elif k < 0.8:
                    parts.append(['ent', rng.choice(['gt', 'amp', 'lt'])])
                else:
                    parts.append([rng.choice(['dec', 'hex']), rng.choice([62, 93, 38, 10])])
            out.append({'t': 't', 'parts': parts})
            last_t = True
    return out


DEFAULTS = {'depth': 3, 'width': 4, 'ns': 'heavy', 'nonascii': 'textattr', 'html_entities': True, 'prolog': True}


def gen_doc(rng, **opts):
    o = dict(DEFAULTS)
    o.update(opts)
    doc = {'decl': None, 'doctype': None, 'prolog': [], 'epilog': []}
    if o['prolog']:
        if rng.random() < 0.35:
            doc['decl'] = ['1.0', rng.choice([None, 'utf-8', 'UTF-8']), rng.choice([-1, -1, 0, 1])]
        if rng.random() < 0.3:
            k = rng.random()
            name = rng.choice(['a', 'html', 'x:r'])
            if k < 0.3:
                doc['doctype'] = [name, None, None]
            elif k < 0.6:
                doc['doctype'] = [name, None, rng.choice(['x.dtd', 'http://e/x.dtd', "it's.dtd", 'x.dtd?a=1&b=2', 'a"b.dtd',
                                                          'a<b>.dtd'])]
            else:
                doc['doctype'] = [name, rng.choice(['-//W3C//DTD XHTML 1.0 Strict//EN', '-//X//Y']),
                                  rng.choice(['http://www.w3.org/TR/xhtml1/DTD/xhtml1-strict.dtd', 'y.dtd'])]
        for where in ('prolog', 'epilog'):
            for _ in range(rng.choice([0, 0, 0, 1, 2])):
                doc[where].append(_gen_comment(rng, o) if rng.random() < 0.5 else _gen_pi(rng, o))
    standalone_yes = bool(doc['decl'] and doc['decl'][2] == 1)
    if standalone_yes:
        # with standalone="yes" expat does not read genshi's foreign DTD: HTML entities would be undefined
        o = dict(o, html_entities=False)
    doc['root'] = _gen_elem(rng, {}, o['depth'], o)
    return doc


def _write_node(n, out):
    t = n['t']
    if t == 'e':
        tag = (n['prefix'] + ':' if n['prefix'] else '') + n['name'][1]
        out.append('<' + tag)
        items = []
        for pfx, uri in n['decls']:
            items.append('xmlns%s="%s"' % (':' + pfx if pfx else '', uri.replace('&', '&amp;')))
        for (ns, loc), pfx, parts, q in n['attrs']:
            items.append('%s%s=%s%s%s' % (pfx + ':' if pfx else '', loc, q, _write_parts(parts, q), q))
        for i in n['order']:
            out.append(' ' + items[i])
        if n['selfclose'] and not n['kids']:
            out.append('/>')
            return
        out.append('>')
        for k in n['kids']:
            _write_node(k, out)
        out.append('</' + tag + '>')
    elif t == 't':
        out.append(_write_parts(n['parts']))
    elif t == 'cd':
        out.append('<![CDATA[' + n['s'] + ']]>')
    elif t == 'c':
        out.append('<!--' + n['s'] + '-->')
    elif t == 'pi':
        out.append('<?' + n['target'] + (' ' + n['data'] if n['data'] else '') + '?>')


def write_doc(doc):
    out = []
    if doc['decl']:
        v, enc, sa = doc['decl']
        out.append('<?xml version="%s"' % v)
        if enc:
            out.append(' encoding="%s"' % enc)
        if sa != -1:
            out.append(' standalone="%s"' % ('yes' if sa else 'no'))
        out.append('?>\n')
    for n in doc['prolog']:
        _write_node(n, out)
        out.append('\n')
    if doc['doctype']:
        name, pub, sysid = doc['doctype']
        q = "'" if sysid and '"' in sysid else '"'
        if pub:
            out.append('<!DOCTYPE %s PUBLIC "%s" %s%s%s>\n' % (name, pub, q, sysid, q))
        elif sysid:
            out.append('<!DOCTYPE %s SYSTEM %s%s%s>\n' % (name, q, sysid, q))
        else:
            out.append('<!DOCTYPE %s>\n' % name)
    _write_node(doc['root'], out)
    for n in doc['epilog']:
        out.append('\n')
        _write_node(n, out)
    return ''.join(out)


def _coalesce(evs):
    out = []
    for e in evs:
        if e[0] == 'T':
            if not e[1]:
                continue
            if out and out[-1][0] == 'T':
                out[-1] = ['T', out[-1][1] + e[1]]
                continue
        out.append(e)
    return out


def _node_events(n, out, ns_events):
    t = n['t']
    if t == 'e':
        ns, loc = n['name']
        attrs = sorted([a[0][0], a[0][1], parts_value(a[2])] for a in n['attrs'])
        if ns_events:
            for pfx, uri in n['decls']:
                out.append(['NS', pfx, uri])
        out.append(['S', ns, loc, attrs])
        for k in n['kids']:
            _node_events(k, out, ns_events)
        out.append(['E', ns, loc])
        if ns_events:
            for pfx, uri in reversed(n['decls']):
                out.append(['ENS', pfx])
    elif t == 't':
        out.append(['T', parts_value(n['parts'])])
    elif t == 'cd':
        out.append(['SC'])
        out.append(['T', n['s']])
        out.append(['EC'])
    elif t == 'c':
        out.append(['C', n['s']])
    elif t == 'pi':
        out.append(['PI', n['target'], n['data']])


def expected_events(doc, ns_events=False):
    out = []
    if doc['decl']:
        out.append(['XD'] + list(doc['decl']))
    for n in doc['prolog']:
        _node_events(n, out, ns_events)
    if doc['doctype']:
        out.append(['DT'] + list(doc['doctype']))
    _node_events(doc['root'], out, ns_events)
    for n in doc['epilog']:
        _node_events(n, out, ns_events)
    return _coalesce(out)


def _split(name, sep='}'):
    if sep in name:
        ns, _, loc = name.partition(sep)
        return ns.lstrip('{'), loc
    return '', name


def canon_events(stream, ns_events=False):
    """genshi events -> canonical vocabulary (positions dropped, attribute sets sorted)"""
    out = []
    for ev in stream:
        kind, data = str(ev[0]), ev[1]
        if kind == 'START':
            tag, attrs = data
            ns, loc = (tag.namespace or '', tag.localname) if hasattr(tag, 'localname') else _split(str(tag))
            al = []
            for k, v in attrs:
                ans, aloc = (k.namespace or '', k.localname) if hasattr(k, 'localname') else _split(str(k))
                al.append([ans, aloc, str(v)])
            out.append(['S', ns, loc, sorted(al)])
        elif kind == 'END':
            ns, loc = (data.namespace or '', data.localname) if hasattr(data, 'localname') else _split(str(data))
            out.append(['E', ns, loc])
        elif kind == 'TEXT':
            out.append(['T', str(data)])
        elif kind == 'COMMENT':
            out.append(['C', str(data)])
        elif kind == 'PI':
            out.append(['PI', str(data[0]), str(data[1])])
        elif kind == 'START_CDATA':
            out.append(['SC'])
        elif kind == 'END_CDATA':
            out.append(['EC'])
        elif kind == 'XML_DECL':
            out.append(['XD', data[0], data[1], int(data[2])])
        elif kind == 'DOCTYPE':
            out.append(['DT', data[0], data[1], data[2]])
        elif kind == 'START_NS':
            if ns_events:
                out.append(['NS', data[0], data[1]])
        elif kind == 'END_NS':
            if ns_events:
                out.append(['ENS', data])
        else:
            out.append(['OTHER', kind])
    return _coalesce(out)


class NotWellFormed(Exception):
    pass


def expat_events(data, ns_events=False):
    """an independent reading of XML text (str, or bytes with their own encoding declaration/BOM) with
    pyexpat in namespace mode; raises NotWellFormed"""
    from xml.parsers import expat
    SEP = '\x1f'
    out = []
    p = expat.ParserCreate(None, SEP)
    p.buffer_text = True
    p.ordered_attributes = True

    def sp(name):
        if SEP in name:
            ns, loc = name.split(SEP)[:2]
            return ns, loc
        return '', name

    def start(name, attrs):
        ns, loc = sp(name)
        al = []
        for i in range(0, len(attrs), 2):
            ans, aloc = sp(attrs[i])
            al.append([ans, aloc, attrs[i + 1]])
        out.append(['S', ns, loc, sorted(al)])

    p.StartElementHandler = start
    p.EndElementHandler = lambda name: out.append(['E'] + list(sp(name)))
    p.CharacterDataHandler = lambda s: out.append(['T', s])
    p.CommentHandler = lambda s: out.append(['C', s])
    p.ProcessingInstructionHandler = lambda t, d: out.append(['PI', t, d])
    p.StartCdataSectionHandler = lambda: out.append(['SC'])
    p.EndCdataSectionHandler = lambda: out.append(['EC'])
    p.XmlDeclHandler = lambda v, e, s: out.append(['XD', v, e, s])
    p.StartDoctypeDeclHandler = lambda name, sysid, pubid, internal: out.append(['DT', name, pubid, sysid])
    def skipped(name, is_param):
        # an undefined entity after a DOCTYPE with an external subset is not a well-formedness error for
        # expat; nothing in the languages compared here may contain one
        raise NotWellFormed('skipped entity %s' % name)

    p.SkippedEntityHandler = skipped
    if ns_events:
        p.StartNamespaceDeclHandler = lambda pfx, uri: out.append(['NS', pfx or '', uri or ''])
        p.EndNamespaceDeclHandler = lambda pfx: out.append(['ENS', pfx or ''])
    try:
        p.Parse(data, True)
    except expat.ExpatError as e:
        raise NotWellFormed(str(e))
    return _coalesce(out)


# --------------------------------------------------------------------------
# builder trees

TREE_DEFAULTS = {'depth': 3, 'width': 3, 'ns': True, 'nonascii': True}


def gen_tree(rng, **opts):
    o = dict(TREE_DEFAULTS)
    o.update(opts)

    def name(pool):
        ns = rng.choice(['', '', 'u1', 'u2', 'urn:x:y', 'http://www.w3.org/1999/xhtml']) if o['ns'] else ''
        return [ns, rng.choice(pool)]

    def text(attr=False):
        return _chars(rng, rng.randrange(1, 8), o['nonascii'], attr=attr)

    def elem(depth):
        attrs = []
        seen = set()
        for _ in range(rng.choice([0, 0, 1, 2, 3])):
            if rng.random() < 0.1:
                an = [XML_NS, rng.choice(['lang', 'space'])]
            else:
                an = name(['id', 'x', 'y', 'class', 'a-b'])
            if tuple(an) in seen:
                continue
            seen.add(tuple(an))
            attrs.append([an, text(attr=True)])
        kids = []
        if depth > 0:
            for _ in range(rng.randrange(0, o['width'] + 1)):
                if rng.random() < 0.55:
                    kids.append(elem(depth - 1))
                else:
                    kids.append({'t': 't', 's': text()})
        return {'t': 'e', 'name': name(LOCALS), 'attrs': attrs, 'kids': kids}

    return elem(o['depth'])


def qname_text(ns, loc):
    return '{%s}%s' % (ns, loc) if ns else loc


def build(tree):
    """builder tree -> genshi.builder.Element (no namespace events anywhere in its stream)"""
    from genshi.builder import Element
    from genshi.core import Attrs, QName
    el = Element(QName(qname_text(*tree['name'])))
    el.attrib = Attrs([(QName(qname_text(*n)), v) for n, v in tree['attrs']])
    for k in tree['kids']:
        if k['t'] == 'e':
            el.append(build(k))
        else:
            el.append(k['s'])
    return el


def tree_events(tree):
    out = []

    def walk(n):
        if n['t'] == 'e':
            ns, loc = n['name']
            out.append(['S', ns, loc, sorted([a[0][0], a[0][1], a[1]] for a in n['attrs'])])
            for k in n['kids']:
                walk(k)
            out.append(['E', ns, loc])
        else:
            out.append(['T', n['s']])
    walk(tree)
    return _coalesce(out)


def doc_stats(doc):
    tags = set()
    if doc['decl']:
        tags.add('decl')
    if doc['doctype']:
        tags.add('doctype')
    if doc['prolog'] or doc['epilog']:
        tags.add('misc-outside-root')

    def kids_stats(kids):
        for a, b in zip(kids, kids[1:]):
            ta, tb = a['t'], b['t']
            if ta == 'cd' and tb == 'cd':
                tags.add('cdata-adjacent')
                if (a['s'] + '\x00' + b['s']).replace('\x00', '').find(']]>') >= 0:
                    tags.add('cdata-seam-]]>')
            if {ta, tb} == {'cd', 't'}:
                tags.add('cdata-next-to-text')
        for k in kids:
            if k['t'] == 'cd':
                if not k['s']:
                    tags.add('cdata-empty')
                if k['s'].endswith(']'):
                    tags.add('cdata-ends-with-]')
                if '<' in k['s'] or '&' in k['s']:
                    tags.add('cdata-with-markup-chars')
        if any(k['t'] == 'cd' for k in kids) and any(k['t'] == 'e' for k in kids):
            tags.add('cdata-in-mixed-content')

    def walk(n, scope, depth):
        t = n['t']
        if t == 'e':
            kids_stats(n['kids'])
        if t != 'e':
            tags.add({'t': 'text', 'cd': 'cdata', 'c': 'comment', 'pi': 'pi'}[t])
            if t == 't' and any(p[0] != 'lit' for p in n['parts']):
                tags.add('references')
            return
        sc = dict(scope)
        for pfx, uri in n['decls']:
            if pfx in sc and sc[pfx] != uri:
                tags.add('rebound-prefix' if pfx else 'rebound-default')
            if pfx in sc and sc[pfx] == uri:
                tags.add('redundant-decl')
            if not pfx and not uri:
                tags.add('undeclared-default')
            if pfx == 'xml':
                tags.add('xml-prefix-declared')
                continue
            if uri and [p for p, u in sc.items() if u == uri and p != pfx]:
                tags.add('several-prefixes-per-uri')
            sc[pfx] = uri
        if len(set(u for _, u in n['decls'] if u)) < len([u for _, u in n['decls'] if u]):
            tags.add('several-prefixes-per-uri')
        if n['name'][0]:
            tags.add('ns-element')
        if any(a[0][0] and a[0][0] != XML_NS for a in n['attrs']):
            tags.add('ns-attr')
        if any(a[0][0] == XML_NS for a in n['attrs']):
            tags.add('xml-attr')
        if depth >= 2:
            tags.add('depth>=2')
        for k in n['kids']:
            walk(k, sc, depth + 1)
    walk(doc['root'], {}, 0)
    return tags


if __name__ == '__main__':
    import random, sys
    r = random.Random(int(sys.argv[1]) if len(sys.argv) > 1 else 0)
    d = gen_doc(r)
    print(write_doc(d))
    print(json.dumps(expected_events(d))[:1000])

"""Wire format shared with lean/Genshi/Wire.lean, and the gdrv subprocess."""
import os, subprocess

HERE = os.path.dirname(os.path.abspath(__file__))
ROOT = os.path.dirname(HERE)
GDRV = os.path.join(ROOT, 'lean', '.lake', 'build', 'bin', 'gdrv')


class Atom(str):
    """bare word on the wire"""
    __slots__ = ()

    def __repr__(self):
        return 'Atom(%s)' % str.__repr__(self)


T, F, N = Atom('T'), Atom('F'), Atom('N')


def B(b):
    return T if b else F


def enc(x):
    """python value -> wire text. str -> string, Atom -> atom, int -> atom, bool -> T/F,
    list/tuple -> list, None -> N"""
    if isinstance(x, Atom):
        return str(x)
    if isinstance(x, bool):
        return 'T' if x else 'F'
    if x is None:
        return 'N'
    if isinstance(x, int):
        return str(x)
    if isinstance(x, str):
        return 's' + '.'.join('%x' % ord(c) for c in x)
    if isinstance(x, (list, tuple)):
        if not x:
            return '( )'
        return '( ' + ' '.join(enc(y) for y in x) + ' )'
    raise TypeError('cannot encode %r' % (x,))


def line(*items):
    return ' '.join(enc(i) for i in items)


def dec_tokens(toks, i=0):
    out = []
    while i < len(toks):
        t = toks[i]
        if t == ')':
            return out, i
        if t == '(':
            inner, j = dec_tokens(toks, i + 1)
            if j >= len(toks) or toks[j] != ')':
                raise ValueError('unbalanced')
            out.append(inner)
            i = j + 1
            continue
        if t.startswith('s'):
            body = t[1:]
            out.append(''.join(chr(int(h, 16)) for h in body.split('.')) if body else '')
        else:
            out.append(Atom(t))
        i += 1
    return out, i


def dec(text):
    """wire line -> python value (single item unwrapped)"""
    toks = text.split()
    out, i = dec_tokens(toks)
    if i != len(toks):
        raise ValueError('unbalanced: %r' % text)
    if len(out) == 1:
        return out[0]
    return out


def run_lines(lines, gdrv=GDRV, timeout=600):
    """pipe all request lines through the compiled driver; returns the answer lines"""
    if not lines:
        return []
    data = ('\n'.join(lines) + '\n').encode('ascii')
    p = subprocess.run([gdrv], input=data, stdout=subprocess.PIPE, stderr=subprocess.PIPE,
                       timeout=timeout)
    if p.returncode != 0:
        raise RuntimeError('gdrv failed rc=%s: %s' % (p.returncode, p.stderr.decode()[:500]))
    out = p.stdout.decode('ascii').split('\n')
    if out and out[-1] == '':
        out.pop()
    if len(out) != len(lines):
        raise RuntimeError('gdrv answered %d lines for %d requests' % (len(out), len(lines)))
    return out

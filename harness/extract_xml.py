"""Translator part of C02: constants and tables the XML output path is driven by, read from the
*values* of the staged genshi modules and of the running codecs.

  xmlNamespaceUri      genshi.core.XML_NAMESPACE.uri (the permanent binding of prefix `xml`)
  flattenerInitial     what a fresh NamespaceFlattener() holds as uri -> preferred prefix
  xmlFilters           the filter chain of XMLSerializer(strip_whitespace=False) (class names)
  encodings            for each output encoding of the property: the code point ranges the codec can
                       represent (obtained by encoding every scalar value with errors='strict')
  encodeErrors         the error handler genshi.output.encode() selects for method 'xml', observed by
                       calling it on a character no single-byte codec has
"""
from harness.extract_tables import HEADER, chars

# the four codecs the oracle always uses first, then single-byte code pages whose repertoire is neither a
# prefix of Unicode nor a superset of latin-1 (the euro sign, Cyrillic, Greek, box drawing) and utf-32
ENCODINGS = ['utf-8', 'ascii', 'latin-1', 'utf-16',
             'utf-32', 'iso-8859-15', 'cp1252', 'koi8-r', 'iso-8859-2', 'cp1251', 'iso-8859-7', 'mac-roman', 'cp437']

_SCALARS = list(range(0, 0xd800)) + list(range(0xe000, 0x110000))
_ALL = []


def _ranges(enc):
    """the code points `enc` can encode, as inclusive ranges.  Every scalar value goes through the codec's
    encoder once (one call over the string of all scalars; an error handler records what the codec refuses and
    resumes), so the table is the codec's own verdict, not a reading of its decoding table.  (Checked to give
    the same table as encoding the scalars one by one with errors='strict'.)"""
    import codecs
    refused = []

    def record(e):
        refused.append((e.start, e.end))
        return ('', e.end)
    codecs.register_error('c02-probe', record)
    if not _ALL:
        _ALL.append(''.join(map(chr, _SCALARS)))
    _ALL[0].encode(enc, 'c02-probe')
    ok = bytearray(b'\x01') * len(_SCALARS)
    for a, b in refused:
        ok[a:b] = b'\x00' * (b - a)
    out = []
    lo = None
    prev = None
    for i, cp in enumerate(_SCALARS):
        if ok[i]:
            if lo is None:
                lo = cp
            elif prev != cp - 1 and not (prev == 0xd7ff and cp == 0xe000):
                out.append((lo, prev))
                lo = cp
            prev = cp
        else:
            if lo is not None:
                out.append((lo, prev))
                lo = None
    if lo is not None:
        out.append((lo, prev))
    return out


_CACHE = {}


def gen_xml():
    from genshi import core, output
    parts = [HEADER, 'namespace Genshi.Gen.Xml\n']
    parts.append('/-- from genshi/core.py:XML_NAMESPACE.uri -/\ndef xmlNamespaceUri : List Char :=\n  %s\n'
                 % chars(core.XML_NAMESPACE.uri))
    fl = output.NamespaceFlattener()
    items = sorted((str(k), str(v)) for k, v in fl.prefixes.items())
    parts.append('/-- from genshi/output.py:NamespaceFlattener().prefixes (uri, preferred prefix) -/\n'
                 'def flattenerInitial : List (List Char × List Char) := [\n  %s]\n'
                 % ',\n  '.join('(%s, %s)' % (chars(a), chars(b)) for a, b in items))
    ser = output.XMLSerializer(strip_whitespace=False)
    names = [type(f).__name__ for f in ser.filters]
    parts.append('/-- from genshi/output.py:XMLSerializer(strip_whitespace=False).filters -/\n'
                 'def xmlFilters : List (List Char) := [\n  %s]\n' % ',\n  '.join(chars(n) for n in names))
    rows = []
    for enc in ENCODINGS:
        if enc not in _CACHE:
            _CACHE[enc] = _ranges(enc)
        rows.append('(%s, [%s])' % (chars(enc), ', '.join('(%d, %d)' % r for r in _CACHE[enc])))
    parts.append('/-- code point ranges (inclusive; surrogates are not scalars) each codec of the property can encode -/\n'
                 'def encodings : List (List Char × List (Nat × Nat)) := [\n  %s]\n' % ',\n  '.join(rows))
    probe = output.encode(iter(['€']), method='xml', encoding='ascii')
    parts.append('/-- what genshi.output.encode(method=xml, encoding=ascii) makes of U+20AC -/\n'
                 'def encodeProbe : List Char := %s\n' % chars(probe.decode('ascii')))
    parts.append('end Genshi.Gen.Xml\n')
    return 'Xml.lean', '\n'.join(parts)


GENERATORS = [gen_xml]

"""Translator part for C04 (text-template scanners): reads the *compiled* regular expressions of
`NewTextTemplate` (default delimiters) and `OldTextTemplate` from the repository under test and
regenerates lean/Genshi/Gen/TextScan.lean:

  * the *shape* of each expression (alternatives, repeats, look-behinds, literals, anchors; every
    character class replaced by a numbered placeholder) is compared with the skeleton the Lean
    scanners in `Genshi/Model/TmplScan.lean` implement -- a changed shape makes the translator fail
    (reported as a broken tie);
  * what the skeleton leaves open is generated: the flags DOTALL / MULTILINE (the Lean scanners
    take `.` and `^` from them) and the blank class of the old syntax; `\\s` / `\\w` are the classes
    of Gen/SanClass.lean (read from the running `re`).

A changed flag or class changes the generated constants, so the theorems over them are re-checked.
"""
import re

try:
    from re import _parser as sre_parse, _constants as sre_c
except ImportError:  # pragma: no cover
    import sre_parse, sre_constants as sre_c

from harness.extract_tables import HEADER
from harness.extract_san import _class_members


def shape(parsed, classes):
    out = []
    for op, av in parsed:
        if op is sre_c.IN:
            classes.append(_class_members(av))
            out.append('IN%d' % (len(classes) - 1))
        elif op is sre_c.LITERAL:
            out.append('LIT%d' % av)
        elif op is sre_c.NOT_LITERAL:
            out.append('NOTLIT%d' % av)
        elif op is sre_c.ANY:
            out.append('ANY')
        elif op is sre_c.AT:
            out.append(str(av))
        elif op in (sre_c.MAX_REPEAT, sre_c.MIN_REPEAT):
            lo, hi, sub = av
            hi = 'INF' if hi == sre_c.MAXREPEAT else hi
            out.append('%s{%s,%s}(%s)' % ('MAX' if op is sre_c.MAX_REPEAT else 'MIN', lo, hi, shape(sub, classes)))
        elif op is sre_c.SUBPATTERN:
            group, _add, _del, sub = av
            out.append('G%s(%s)' % (group, shape(sub, classes)))
        elif op is sre_c.BRANCH:
            out.append('ALT(%s)' % '|'.join(shape(b, classes) for b in av[1]))
        elif op in (sre_c.ASSERT_NOT, sre_c.ASSERT):
            direction, sub = av
            out.append('%s%s(%s)' % ('NOT' if op is sre_c.ASSERT_NOT else 'LOOK', 'BEHIND' if direction < 0 else 'AHEAD',
                                     shape(sub, classes)))
        else:
            raise ValueError('unexpected regex node %r' % (op,))
    return ' '.join(out)


def parse(pat):
    classes = []
    return shape(sre_parse.parse(pat.pattern, pat.flags), classes), classes


WS, WORD = (False, [], ['CATEGORY_SPACE']), (False, [], ['CATEGORY_WORD'])

NEW_DIRECTIVE = ('G1(ALT(NOTBEHIND(LIT92) LIT123 LIT37 MAX{0,INF}(IN0) G2(MAX{1,INF}(IN1)) MAX{0,INF}(IN2) '
                 'G3(MIN{0,INF}(ANY)) MAX{0,INF}(IN3) LIT37 LIT125|NOTBEHIND(LIT92) LIT123 LIT35 MIN{0,INF}(ANY) LIT35 LIT125))')
NEW_ESCAPE = 'LIT92 ALT(LIT10|LIT13 LIT10|G1(LIT92)|G2(LIT123 LIT37)|G3(LIT123 LIT35))'
OLD_DIRECTIVE = ('AT_BEGINNING ALT(MAX{0,INF}(IN0) NOTBEHIND(LIT92) LIT35 G1(LIT101 LIT110 LIT100) MAX{0,INF}(ANY) MAX{0,1}(LIT10)|'
                 'MAX{0,INF}(IN1) NOTBEHIND(LIT92) LIT35 G2(ALT(MAX{1,INF}(IN2)|LIT35) MAX{0,INF}(ANY)) MAX{0,1}(LIT10))')


def _expect(name, got, expected):
    if got != expected:
        raise ValueError('regular expression %s changed shape: %s (the model implements %s)' % (name, got, expected))


def _flags(name, pat, free):
    """flags of a compiled str pattern besides the ones the model takes from the table"""
    rest = pat.flags & ~free
    if rest != re.UNICODE:
        raise ValueError('regular expression %s compiled with unexpected flags %r' % (name, re.RegexFlag(pat.flags)))


def tables():
    from genshi.template.text import NewTextTemplate, OldTextTemplate
    t = NewTextTemplate('')
    if tuple(t.delimiters) != ('{%', '%}', '{#', '#}'):
        raise ValueError('default delimiters of NewTextTemplate changed: %r' % (t.delimiters,))
    out = {}
    sh, cl = parse(t._directive_re)
    _expect('NewTextTemplate._directive_re', sh, NEW_DIRECTIVE)
    if cl != [WS, WORD, WS, WS]:
        raise ValueError('NewTextTemplate._directive_re classes changed: %r' % (cl,))
    _flags('NewTextTemplate._directive_re', t._directive_re, re.DOTALL)
    out['newDotall'] = bool(t._directive_re.flags & re.DOTALL)
    sh, cl = parse(t._escape_re)
    _expect('NewTextTemplate._escape_re', sh, NEW_ESCAPE)
    _flags('NewTextTemplate._escape_re', t._escape_re, 0)
    pat = OldTextTemplate._DIRECTIVE_RE
    sh, cl = parse(pat)
    _expect('OldTextTemplate._DIRECTIVE_RE', sh, OLD_DIRECTIVE)
    if cl[2] != WORD or cl[0] != cl[1] or cl[0][0] or cl[0][2]:
        raise ValueError('OldTextTemplate._DIRECTIVE_RE classes changed: %r' % (cl,))
    _flags('OldTextTemplate._DIRECTIVE_RE', pat, re.DOTALL | re.MULTILINE)
    out['oldDotall'] = bool(pat.flags & re.DOTALL)
    out['oldMultiline'] = bool(pat.flags & re.MULTILINE)
    out['oldBlank'] = cl[0][1]
    return out


def gen_textscan():
    tb = tables()
    b = lambda x: 'true' if x else 'false'
    parts = [HEADER, 'namespace Genshi.Gen.TextScan\n',
             '/-- re.DOTALL of NewTextTemplate._directive_re (what `.` matches inside a directive or comment) -/\n'
             'def newDotall : Bool := %s\n' % b(tb['newDotall']),
             '/-- re.DOTALL of OldTextTemplate._DIRECTIVE_RE (`.*` runs to the end of the line only when off) -/\n'
             'def oldDotall : Bool := %s\n' % b(tb['oldDotall']),
             '/-- re.MULTILINE of OldTextTemplate._DIRECTIVE_RE (`^` matches after every line feed) -/\n'
             'def oldMultiline : Bool := %s\n' % b(tb['oldMultiline']),
             '/-- the class `[ \\t]` in front of `#` in OldTextTemplate._DIRECTIVE_RE -/\n'
             'def oldBlank : List Nat := [%s]\n' % ', '.join(str(x) for x in tb['oldBlank']),
             'end Genshi.Gen.TextScan\n']
    return 'TextScan.lean', '\n'.join(parts)


GENERATORS = [gen_textscan]

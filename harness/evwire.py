"""genshi events <-> wire values (see lean/Genshi/WireCore.lean)."""
from harness.proto import Atom, B, N


def qn(name):
    ns = getattr(name, 'namespace', None)
    if ns is None and isinstance(name, str) and name.startswith('{'):
        ns, _, loc = name[1:].partition('}')
        return [ns, loc]
    return [ns or '', getattr(name, 'localname', str(name))]


def opt(x):
    return N if x is None else str(x)


def ev(event):
    """(kind, data, pos) -> wire value"""
    from genshi.core import (START, END, TEXT, COMMENT, PI, DOCTYPE, XML_DECL, START_NS, END_NS,
                             START_CDATA, END_CDATA, Markup)
    kind, data = event[0], event[1]
    if kind is START:
        tag, attrs = data
        return [Atom('S'), qn(tag), [[qn(k), str(v)] for k, v in attrs]]
    if kind is END:
        return [Atom('E'), qn(data)]
    if kind is TEXT:
        return [Atom('T'), str(data), B(isinstance(data, Markup))]
    if kind is COMMENT:
        return [Atom('C'), str(data)]
    if kind is PI:
        return [Atom('PI'), str(data[0]), str(data[1])]
    if kind is DOCTYPE:
        return [Atom('DT'), str(data[0]), opt(data[1]), opt(data[2])]
    if kind is XML_DECL:
        return [Atom('XD'), str(data[0]), opt(data[1]), Atom(str(int(data[2])))]
    if kind is START_NS:
        return [Atom('NS'), str(data[0]), str(data[1])]
    if kind is END_NS:
        return [Atom('ENS'), str(data)]
    if kind is START_CDATA:
        return Atom('SC')
    if kind is END_CDATA:
        return Atom('EC')
    return [Atom('OTHER'), str(kind)]


def stream(events):
    return [ev(e) for e in events]


def unqn(v):
    from genshi.core import QName
    ns, loc = v
    return QName('{%s}%s' % (ns, loc) if ns else loc)


def unev(v, pos=(None, -1, -1)):
    """wire value -> genshi event"""
    from genshi.core import (START, END, TEXT, COMMENT, PI, DOCTYPE, XML_DECL, START_NS, END_NS,
                             START_CDATA, END_CDATA, Markup, Attrs)
    if v == 'SC' and isinstance(v, Atom):
        return (START_CDATA, None, pos)
    if v == 'EC' and isinstance(v, Atom):
        return (END_CDATA, None, pos)
    k = v[0]
    un = lambda x: None if isinstance(x, Atom) and x == 'N' else x
    if k == 'S':
        return (START, (unqn(v[1]), Attrs([(unqn(a), b) for a, b in v[2]])), pos)
    if k == 'E':
        return (END, unqn(v[1]), pos)
    if k == 'T':
        return (TEXT, Markup(v[1]) if v[2] == 'T' else v[1], pos)
    if k == 'C':
        return (COMMENT, v[1], pos)
    if k == 'PI':
        return (PI, (v[1], v[2]), pos)
    if k == 'DT':
        return (DOCTYPE, (v[1], un(v[2]), un(v[3])), pos)
    if k == 'XD':
        return (XML_DECL, (v[1], un(v[2]), int(v[3])), pos)
    if k == 'NS':
        return (START_NS, (v[1], v[2]), pos)
    if k == 'ENS':
        return (END_NS, v[1], pos)
    raise ValueError(v)


def unstream(vs):
    return [unev(v) for v in vs]

"""Seeded generators of markup event streams over the HTML vocabulary (shared: C08, C09 and
any property that needs well-nested HTML/XHTML streams).

A stream is a JSON-serialisable list of events ("JSON form", canonical, no object identities):

    ["S", [ns, local], [[[ns, local], value], ...]]     START      (ns "" = no namespace)
    ["E", [ns, local]]                                  END
    ["T", text, safe]                                   TEXT       (safe: a Markup instance)
    ["C", text]   ["PI", target, data]
    ["DT", name, pubid|None, sysid|None]   ["XD", version, encoding|None, standalone]
    ["NS", prefix, uri]   ["ENS", prefix]   ["SC"]   ["EC"]

`to_events(js)` gives genshi events (genshi must be staged/importable), `to_wire(js)` the
value `harness.proto.line` encodes for `gdrv` (see lean/Genshi/WireCore.lean), `from_events`
converts real genshi events back.

`gen_stream(rng, **knobs)` builds a well-nested stream from a forest; every random choice comes
from the `random.Random` passed in.  The vocabulary lists below are *spec-side constants*
(HTML 4.01), deliberately not read from genshi: the checks compare genshi's own tables with
them.

Knobs (all optional):
    ns          'none' | 'xhtml'   every element un-namespaced / in the XHTML namespace
                'mixed'            every element either un-namespaced or XHTML, mostly as its parent,
                                   sometimes the other one; no START_NS events (builder-style streams):
                                   the flattener has to make up `xmlns="…"` / `xmlns=""` at every
                                   change, and with few tags the same start tag recurs on both sides
                                   of such a scope boundary
                'heavy'            several URIs, prefixes and START_NS/END_NS events — the
                                   namespace-heavy part of C09's quantifier; OFF by default and
                                   refused unless allow_heavy=True (NamespaceFlattener belongs to
                                   work package `xml`; see notes/C09.md)
    ns_events   bool   in 'xhtml' mode wrap the document in START_NS('', XHTML) … END_NS('')
                       as the XML parser would
    max_nodes   int    size budget of the forest
    max_depth   int
    pool        int    size of the text / attribute-value pools (small => many repeats)
    texts       'special' | 'plain' | 'ws'   alphabet of generated text
    safe_text   float  probability that a TEXT event is a Markup instance (entity-safe content)
    cdata       float  probability of a CDATA section among the children of an element
    comments    float  probability of a comment child
    pis         float  probability of a processing instruction child
    prolog      float  probability of XML_DECL / DOCTYPE events at the start (and stray later)
    root        bool   a single root element (document) instead of a forest (fragment)
    raw_markup  bool   children other than text inside script/style (outside C08's domain)
    void_kids   bool   children inside void elements (outside C08's domain)
    attr_ws     bool   LF/TAB/CR inside attribute values
    text_cr     bool   CR inside text
    pool_prob   float  probability that a text comes from the pool (default 0.7)
    tags        list   restrict element names to this list (default: the whole vocabulary)
    attr_counts list   choices for the number of attributes of an element (default [0,0,1,1,2,3])
"""
XHTML = 'http://www.w3.org/1999/xhtml'
XMLNS = 'http://www.w3.org/XML/1998/namespace'

# HTML 4.01 (spec side)
VOID = ['area', 'base', 'basefont', 'br', 'col', 'frame', 'hr', 'img', 'input', 'isindex', 'link',
        'meta', 'param']
BOOLEAN = ['checked', 'compact', 'declare', 'defer', 'disabled', 'ismap', 'multiple', 'nohref',
           'noresize', 'noshade', 'nowrap', 'readonly', 'selected']
RAWTEXT = ['script', 'style']
PRESERVE = ['pre', 'textarea']
ORDINARY = ['div', 'p', 'span', 'a', 'b', 'ul', 'li', 'select', 'option', 'table', 'td', 'em', 'form',
            'html', 'body', 'head', 'title', 'h1']
PLAIN_ATTRS = ['class', 'href', 'title', 'id', 'name', 'value', 'lang', 'alt', 'type']

SPECIAL = ['&', '<', '>', '"', "'", ';', '#', ' ', ' ', '\n', '\n', '\t', 'a', 'b', 'x', '/', '-', ']',
           '=', 'é', '€', '\U0001F600']
FRAGS = ['&amp;', '&lt;', '&gt;', '&#34;', '&quot;', 'a<b', ' \n', '\n\n', '  \n\n ', '\t\n', ']]>', '</p>',
         '<b>', 'x && y', '"q"', '--', '<!--', '?>', 'if (a<b) {}', '</', '\n \n']
WS = [' ', '\t', '\n', '\n', ' ', 'a', 'b', '\n\n', ' \n', '\t\n ']
PLAIN = list('abcxyz 01')


def rand_text(rng, alpha='special', maxlen=8, cr=False):
    n = rng.randrange(0, maxlen)
    out = []
    for _ in range(n):
        r = rng.random()
        if alpha == 'plain':
            out.append(rng.choice(PLAIN))
        elif alpha == 'ws':
            out.append(rng.choice(WS))
        elif r < 0.25:
            out.append(rng.choice(FRAGS))
        elif r < 0.95:
            out.append(rng.choice(SPECIAL))
        else:
            out.append(chr(rng.choice([rng.randrange(0x20, 0x7f), rng.randrange(0xa0, 0xd7ff),
                                       rng.randrange(0xe000, 0xfffe), rng.randrange(0x10000, 0x10ffff)])))
    s = ''.join(out)
    if cr and rng.random() < 0.3:
        i = rng.randrange(0, len(s) + 1)
        s = s[:i] + rng.choice(['\r', '\r\n']) + s[i:]
    return s


def safe_markup_text(rng):
    """content for a Markup TEXT event that is already escaped (entity-safe: re-parses as text)"""
    return ''.join(rng.choice(['&amp;', '&lt;', '&gt;', 'a', ' ', '\n', 'x', '&#34;', '\n\n', ' \n'])
                   for _ in range(rng.randrange(0, 5)))


class Gen(object):
    def __init__(self, rng, **kw):
        self.rng = rng
        self.ns = kw.get('ns', 'none')
        if self.ns == 'heavy' and not kw.get('allow_heavy'):
            raise ValueError("namespace-heavy streams are switched off (work package xml owns NamespaceFlattener)")
        self.nspool = ['', XHTML] if self.ns == 'mixed' else self.NSPOOL
        self.ns_flip = kw.get('ns_flip', 0.45)
        self.ns_events = kw.get('ns_events', False)
        self.max_nodes = kw.get('max_nodes', 14)
        self.max_depth = kw.get('max_depth', 4)
        self.texts = kw.get('texts', 'special')
        self.safe_text = kw.get('safe_text', 0.0)
        self.cdata = kw.get('cdata', 0.0)
        self.comments = kw.get('comments', 0.0)
        self.pis = kw.get('pis', 0.0)
        self.prolog = kw.get('prolog', 0.0)
        self.root = kw.get('root', False)
        self.raw_markup = kw.get('raw_markup', False)
        self.void_kids = kw.get('void_kids', False)
        self.attr_ws = kw.get('attr_ws', False)
        self.text_cr = kw.get('text_cr', False)
        self.comment_dashes = kw.get('comment_dashes', False)
        self.pool_prob = kw.get('pool_prob', 0.7)
        self.tags = kw.get('tags')
        self.attr_counts = kw.get('attr_counts', [0, 0, 1, 1, 2, 3])
        npool = kw.get('pool', 4)
        self.pool = [rand_text(rng, self.texts, cr=self.text_cr) for _ in range(npool)]
        if self.texts == 'special' and npool:
            # at least one pooled text that escaping changes: repeats across contexts are observable
            self.pool[0] = rng.choice(['a<b', 'x && y', '<b>', '&amp;', 'if (a<b) {}', '1 > 0 & "q"']) + self.pool[0][:2]
        self.vpool = [self._attr_value_fresh() for _ in range(npool)]
        self.budget = self.max_nodes

    # -- leaves
    def text(self):
        rng = self.rng
        if rng.random() < self.pool_prob:
            return rng.choice(self.pool)
        return rand_text(rng, self.texts, cr=self.text_cr)

    def _attr_value_fresh(self):
        rng = self.rng
        s = rand_text(rng, 'special' if self.texts != 'plain' else 'plain', 6)
        if not self.attr_ws:
            s = s.replace('\n', ' ').replace('\t', ' ').replace('\r', ' ')
        elif rng.random() < 0.3:
            s += rng.choice(['\r', '\r\n'])
        return s

    def attr_value(self):
        if self.rng.random() < 0.6:
            return self.rng.choice(self.vpool)
        return self._attr_value_fresh()

    NSPOOL = ['', XHTML, 'urn:a', 'urn:b']

    def qn(self, local):
        if self.ns in ('heavy', 'mixed'):
            return [self.ns_stack[-1] if getattr(self, 'ns_stack', None) else '', local]
        return [XHTML if self.ns == 'xhtml' else '', local]

    def attrs(self, tag):
        rng = self.rng
        out, seen = [], set()
        for _ in range(rng.choice(self.attr_counts)):
            r = rng.random()
            if r < 0.30:
                name = ['', rng.choice(BOOLEAN)]
                val = rng.choice(['', name[1], name[1], 'yes', 'True', self.attr_value()])
            elif r < 0.40:
                name = [XMLNS, 'lang']
                val = rng.choice(['en', 'de', self.attr_value()])
            elif r < 0.48:
                name = [XMLNS, 'space']
                val = rng.choice(['preserve', 'preserve', 'default', ''])
            else:
                name = ['', rng.choice(PLAIN_ATTRS)]
                val = self.attr_value()
            if tuple(name) in seen:
                continue
            seen.add(tuple(name))
            out.append([name, val])
        return out

    def text_event(self):
        if self.safe_text and self.rng.random() < self.safe_text:
            return ['T', safe_markup_text(self.rng), True]
        return ['T', self.text(), False]

    # -- forest
    def element(self, depth, tag=None):
        rng = self.rng
        if tag is None and self.tags:
            tag = rng.choice(self.tags)
        if tag is None:
            r = rng.random()
            if r < 0.18:
                tag = rng.choice(VOID[:7] if rng.random() < 0.8 else VOID)
            elif r < 0.32:
                tag = rng.choice(RAWTEXT)
            elif r < 0.46:
                tag = rng.choice(PRESERVE)
            else:
                tag = rng.choice(ORDINARY[:8] if rng.random() < 0.8 else ORDINARY)
        self.budget -= 1
        heavy_wrap = None
        if self.ns == 'heavy' and tag in RAWTEXT:
            # script/style in a foreign namespace or under a non-empty XHTML prefix is the known finding
            # C09-foreign-ns-script (raw for one stage of the html pipeline, not for the other)
            tag = 'div'
        if self.ns in ('heavy', 'mixed'):
            # namespace of this element: mostly its parent's, else another one of the pool (un-namespaced
            # included); with ns_events a changed namespace is announced by START_NS/END_NS around the
            # element as a parser would, without them the flattener has to make the declaration up
            if not hasattr(self, 'ns_stack'):
                self.ns_stack = [rng.choice(self.nspool)]
                parent = None
            else:
                parent = self.ns_stack[-1]
            cur = parent if (parent is not None and rng.random() < 1 - self.ns_flip) else rng.choice(self.nspool)
            self.ns_stack.append(cur)
            if self.ns == 'heavy' and self.ns_events and cur and (cur != parent or rng.random() < 0.15):
                heavy_wrap = rng.choice(['', '', 'p', 'q'])
        ev = [['S', self.qn(tag), self.attrs(tag)]]
        if heavy_wrap is not None:
            ev.insert(0, ['NS', heavy_wrap, self.ns_stack[-1]])
        if tag in VOID and not self.void_kids:
            pass
        elif tag in RAWTEXT and not self.raw_markup:
            for _ in range(rng.choice([0, 1, 1, 2])):
                ev.append(['T', self.text(), False])
                self.budget -= 1
        else:
            ev.extend(self.children(depth + 1))
        ev.append(['E', self.qn(tag)])
        if self.ns in ('heavy', 'mixed'):
            if heavy_wrap is not None:
                ev.append(['ENS', heavy_wrap])
            self.ns_stack.pop()
        return ev

    def children(self, depth):
        rng = self.rng
        out = []
        n = rng.choice([0, 1, 1, 2, 3, 4])
        for _ in range(n):
            if self.budget <= 0:
                break
            r = rng.random()
            if r < self.cdata:
                out.append(['SC'])
                for _ in range(rng.choice([0, 1, 1, 2])):
                    out.append(['T', self.text().replace(']]>', ']] >'), False])
                out.append(['EC'])
                self.budget -= 1
            elif r < self.cdata + self.comments:
                c = rand_text(rng, self.texts, 6)
                if not self.comment_dashes:
                    c = c.replace('-', '~').replace('>', ')')
                out.append(['C', c])
                self.budget -= 1
            elif r < self.cdata + self.comments + self.pis:
                out.append(['PI', rng.choice(['php', 'x']), rand_text(rng, 'plain', 5)])
                self.budget -= 1
            elif r < self.cdata + self.comments + self.pis + 0.45 or depth >= self.max_depth:
                out.append(self.text_event())
                self.budget -= 1
            else:
                out.extend(self.element(depth))
        return out

    def prolog_events(self):
        rng = self.rng
        out = []
        if rng.random() < self.prolog:
            out.append(['XD', '1.0', rng.choice([None, 'utf-8', 'iso-8859-1']), rng.choice([-1, -1, 0, 1])])
        if rng.random() < self.prolog:
            out.append(rand_doctype(rng))
        return out

    def stream(self):
        rng = self.rng
        out = self.prolog_events()
        if self.root:
            body = self.element(0, tag=rng.choice(['html', 'div', 'body', 'pre', 'p']))
        else:
            body = self.children(0)
            while self.budget > self.max_nodes // 2 and rng.random() < 0.6:
                body.extend(self.children(0))
        if self.prolog and rng.random() < self.prolog / 2 and body:
            # a stray second DOCTYPE / XML_DECL somewhere later
            i = rng.randrange(0, len(body) + 1)
            body.insert(i, rng.choice([rand_doctype(rng), ['XD', '1.0', None, -1]]))
        if self.ns == 'xhtml' and self.ns_events:
            body = [['NS', '', XHTML]] + body + [['ENS', '']]
        return out + body


DOCTYPES = [['html', '-//W3C//DTD HTML 4.01//EN', 'http://www.w3.org/TR/html4/strict.dtd'],
            ['html', None, None],
            ['html', '-//W3C//DTD XHTML 1.0 Strict//EN', 'http://www.w3.org/TR/xhtml1/DTD/xhtml1-strict.dtd'],
            ['html', None, 'about:legacy-compat'],
            ['svg', '-//W3C//DTD SVG 1.1//EN', None],
            # a system identifier holding a double quote is delimited by single quotes (each serializer has its own copy
            # of that branch)
            ['html', None, 'a"b.dtd'],
            ['html', '-//W3C//DTD XHTML 1.0 Strict//EN', 'q"uote.dtd']]


def rand_doctype(rng):
    d = rng.choice(DOCTYPES)
    return ['DT', d[0], d[1], d[2]]


def gen_stream(rng, **knobs):
    """a well-nested stream in JSON form"""
    return Gen(rng, **knobs).stream()


# --------------------------------------------------------------------------
# conversions

def to_events(js, pos=(None, -1, -1)):
    """JSON form -> list of genshi events"""
    from genshi.core import (START, END, TEXT, COMMENT, PI, DOCTYPE, XML_DECL, START_NS, END_NS,
                             START_CDATA, END_CDATA, Markup, Attrs, QName)

    def q(n):
        return QName('%s}%s' % (n[0], n[1]) if n[0] else n[1])
    out = []
    for e in js:
        k = e[0]
        if k == 'S':
            out.append((START, (q(e[1]), Attrs([(q(a), v) for a, v in e[2]])), pos))
        elif k == 'E':
            out.append((END, q(e[1]), pos))
        elif k == 'T':
            out.append((TEXT, Markup(e[1]) if e[2] else e[1], pos))
        elif k == 'C':
            out.append((COMMENT, e[1], pos))
        elif k == 'PI':
            out.append((PI, (e[1], e[2]), pos))
        elif k == 'DT':
            out.append((DOCTYPE, (e[1], e[2], e[3]), pos))
        elif k == 'XD':
            out.append((XML_DECL, (e[1], e[2], e[3]), pos))
        elif k == 'NS':
            out.append((START_NS, (e[1], e[2]), pos))
        elif k == 'ENS':
            out.append((END_NS, e[1], pos))
        elif k == 'SC':
            out.append((START_CDATA, None, pos))
        elif k == 'EC':
            out.append((END_CDATA, None, pos))
        else:
            raise ValueError(e)
    return out


def from_events(events):
    """genshi events -> JSON form"""
    from genshi.core import (START, END, TEXT, COMMENT, PI, DOCTYPE, XML_DECL, START_NS, END_NS,
                             START_CDATA, END_CDATA, Markup)

    def q(n):
        return [n.namespace or '', n.localname]
    out = []
    for ev in events:
        kind, data = ev[0], ev[1]
        if kind is START:
            out.append(['S', q(data[0]), [[q(a), str(v)] for a, v in data[1]]])
        elif kind is END:
            out.append(['E', q(data)])
        elif kind is TEXT:
            out.append(['T', str(data), isinstance(data, Markup)])
        elif kind is COMMENT:
            out.append(['C', str(data)])
        elif kind is PI:
            out.append(['PI', str(data[0]), str(data[1])])
        elif kind is DOCTYPE:
            out.append(['DT', data[0], data[1], data[2]])
        elif kind is XML_DECL:
            out.append(['XD', data[0], data[1], int(data[2])])
        elif kind is START_NS:
            out.append(['NS', data[0], data[1]])
        elif kind is END_NS:
            out.append(['ENS', data])
        elif kind is START_CDATA:
            out.append(['SC'])
        elif kind is END_CDATA:
            out.append(['EC'])
        else:
            raise ValueError(kind)
    return out


def to_wire(js):
    """JSON form -> value for proto.line (events as in lean/Genshi/WireCore.lean)"""
    from harness.proto import Atom, B, N
    out = []
    for e in js:
        k = e[0]
        if k == 'S':
            out.append([Atom('S'), list(e[1]), [[list(a), v] for a, v in e[2]]])
        elif k == 'E':
            out.append([Atom('E'), list(e[1])])
        elif k == 'T':
            out.append([Atom('T'), e[1], B(e[2])])
        elif k == 'C':
            out.append([Atom('C'), e[1]])
        elif k == 'PI':
            out.append([Atom('PI'), e[1], e[2]])
        elif k == 'DT':
            out.append([Atom('DT'), e[1], N if e[2] is None else e[2], N if e[3] is None else e[3]])
        elif k == 'XD':
            out.append([Atom('XD'), e[1], N if e[2] is None else e[2], Atom(str(int(e[3])))])
        elif k == 'NS':
            out.append([Atom('NS'), e[1], e[2]])
        elif k == 'ENS':
            out.append([Atom('ENS'), e[1]])
        elif k == 'SC':
            out.append(Atom('SC'))
        elif k == 'EC':
            out.append(Atom('EC'))
        else:
            raise ValueError(e)
    return out


def valid_stream(js):
    """is `js` a stream in JSON form (used to keep shrinking inside the case format)"""
    arity = {'S': 3, 'E': 2, 'T': 3, 'C': 2, 'PI': 3, 'DT': 4, 'XD': 4, 'NS': 3, 'ENS': 2, 'SC': 1, 'EC': 1}
    if not isinstance(js, list):
        return False
    for e in js:
        if not isinstance(e, list) or not e or e[0] not in arity or len(e) != arity[e[0]]:
            return False
        k = e[0]
        try:
            if k in ('S', 'E'):
                if len(e[1]) != 2 or not all(isinstance(x, str) for x in e[1]) or not e[1][1]:
                    return False
            if k == 'S':
                for a in e[2]:
                    if len(a) != 2 or len(a[0]) != 2 or not a[0][1] or not isinstance(a[1], str):
                        return False
                    if not all(isinstance(x, str) for x in a[0]):
                        return False
            if k == 'T' and not (isinstance(e[1], str) and isinstance(e[2], bool)):
                return False
            if k in ('C',) and not isinstance(e[1], str):
                return False
            if k == 'PI' and not (isinstance(e[1], str) and e[1] and isinstance(e[2], str)):
                return False
            if k == 'DT' and not (isinstance(e[1], str) and e[1] and all(x is None or isinstance(x, str) for x in e[2:])):
                return False
            if k == 'XD' and not (isinstance(e[1], str) and (e[2] is None or isinstance(e[2], str)) and isinstance(e[3], int)):
                return False
            if k in ('NS', 'ENS') and not all(isinstance(x, str) for x in e[1:]):
                return False
        except (TypeError, IndexError):
            return False
    return True


def well_nested(js):
    st = []
    for e in js:
        if e[0] == 'S':
            st.append(tuple(e[1]))
        elif e[0] == 'E':
            if not st or st.pop() != tuple(e[1]):
                return False
    return not st


def lean_char_ok(js):
    """every string of the stream consists of Unicode scalars (no lone surrogates)"""
    def ok(s):
        return s is None or not any(0xd800 <= ord(c) <= 0xdfff for c in s)
    for e in js:
        for x in e[1:]:
            if isinstance(x, str) and not ok(x):
                return False
            if isinstance(x, list):
                for y in x:
                    if isinstance(y, str) and not ok(y):
                        return False
                    if isinstance(y, list):
                        for z in y:
                            if isinstance(z, str) and not ok(z):
                                return False
                            if isinstance(z, list) and not all(ok(w) for w in z if isinstance(w, str)):
                                return False
    return True

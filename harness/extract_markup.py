"""Translator part for C18 (wave 4): reads the *compiled* regular expression of
`genshi.util.striptags` from the repository under test and regenerates
lean/Genshi/Gen/MarkupRe.lean.

  * the shape of `_STRIPTAGS_RE` (alternatives, repeats, literals) is compared with the skeleton the
    list scanner `Genshi.MarkupOps.matchTag` implements -- a changed shape makes the translator
    fail (reported as a broken tie), whatever the generated inputs happen to exercise;
  * the flag the skeleton leaves open is generated: DOTALL (`afterCommentEnd` stops at a line
    feed only when it is off); theorem `striptags_re_as_modelled` of Props/C18.lean states the
    value the model was written against.

(`_STRIPENTITIES_RE` is read by C06's translator part, harness/extract_san.py.)
"""
import re

from harness.extract_tables import HEADER, chars
from harness.extract_textscan import parse

STRIPTAGS = 'G1(LIT60 ALT(LIT33 LIT45 LIT45 MIN{0,INF}(ANY) LIT45 LIT45 LIT62|MAX{0,INF}(NOTLIT62) LIT62))'


def gen_markup_re():
    import genshi.util as u
    pat = u._STRIPTAGS_RE
    sh, classes = parse(pat)
    if sh != STRIPTAGS or classes:
        raise ValueError('regular expression genshi.util._STRIPTAGS_RE changed shape: %s (the model implements %s)'
                         % (sh, STRIPTAGS))
    rest = pat.flags & ~re.DOTALL
    if rest != re.UNICODE:
        raise ValueError('genshi.util._STRIPTAGS_RE compiled with unexpected flags %r' % (re.RegexFlag(pat.flags),))
    parts = [HEADER, 'namespace Genshi.Gen.MarkupRe\n',
             '/-- shape of genshi.util._STRIPTAGS_RE as the translator read it -/\n'
             'def striptagsShape : List Char := %s\n' % chars(sh),
             '/-- re.DOTALL of genshi.util._STRIPTAGS_RE (may `.*?` of a comment cross a line feed?) -/\n'
             'def striptagsDotall : Bool := %s\n' % ('true' if pat.flags & re.DOTALL else 'false'),
             'end Genshi.Gen.MarkupRe\n']
    return 'MarkupRe.lean', '\n'.join(parts)


GENERATORS = [gen_markup_re]

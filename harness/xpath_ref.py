"""Independent reference evaluator for the XPath 1.0 subset genshi documents
(doc/xpath.rst): the oracle of C05 / C17 on the real code.

Nothing here imports genshi or looks at genshi's parser: the expression text is
parsed by a small recursive-descent parser written from the XPath 1.0
recommendation (sections 2, 3) and evaluated on a plain tree.

Documents are JSON-able trees (see harness/gen_paths.py):
    {"e": [ns, local], "a": [[ns, local, value], ...], "k": [node, ...]}
    {"t": text} | {"c": text} | {"p": [target, data]}

Public API
    parse(text)                       -> AST or raises Outside / Garbage
    select(doc, text_or_ast, ns, vs)  -> list of result items, outermost only, document order:
                                         ["e", path-of-child-indexes]  element with its whole subtree
                                         ["n", path-of-child-indexes]  text / comment / PI node
                                         ["a", path, [[ns, local, value], ...]]  the selected attributes of one element
    matches(doc, text_or_ast, ns, vs) -> the full (not only outermost) set of selected nodes, same item shapes

AST
    union    := [locpath, ...]
    locpath  := [step, ...]
    step     := {"axis": A, "test": T, "preds": [expr, ...]}
    T        := ["name", local] | ["*"] | ["qname", prefix, local] | ["q*", prefix]
              | ["text"] | ["comment"] | ["node"] | ["pi", target-or-None]
    expr     := ["str", s] | ["num", decimal-text] | ["var", name] | ["attr", T]
              | ["fn", name, [expr, ...]] | ["op", sym, expr, expr]
"""
import math
import re

AXES = ('attribute', 'child', 'descendant', 'descendant-or-self', 'self')
ALL_AXES = AXES + ('ancestor', 'ancestor-or-self', 'following', 'following-sibling', 'namespace',
                   'parent', 'preceding', 'preceding-sibling')
# functions of the documented subset with their arities (doc/xpath.rst lists the unsupported ones)
FUNCTIONS = {
    'boolean': (1, 1), 'ceiling': (1, 1), 'concat': (2, 99), 'contains': (2, 2), 'false': (0, 0),
    'floor': (1, 1), 'local-name': (0, 0), 'name': (0, 0), 'namespace-uri': (0, 0),
    'normalize-space': (1, 1), 'not': (1, 1), 'number': (1, 1), 'round': (1, 1),
    'starts-with': (2, 2), 'string-length': (1, 1), 'substring': (2, 3),
    'substring-after': (2, 2), 'substring-before': (2, 2), 'translate': (3, 3), 'true': (0, 0),
}
UNSUPPORTED_FUNCTIONS = ('count', 'id', 'lang', 'last', 'position', 'string', 'sum')


class Outside(Exception):
    """well-formed XPath 1.0, but not in the documented subset"""


class Garbage(Exception):
    """not an XPath 1.0 expression at all (as far as this parser knows)"""


_TOK = re.compile(r'''\s*(?:("[^"]*"|'[^']*')|(\d+(?:\.\d*)?|\.\d+)|(//|::|\.\.|!=|<=|>=|[/|.@()\[\],=<>$*:+-])|([A-Za-z_][\w.-]*))''')


def tokenize(text):
    toks, i = [], 0
    text = text.rstrip()
    while i < len(text):
        m = _TOK.match(text, i)
        if not m or m.end() == i:
            raise Garbage('cannot tokenize at %d' % i)
        s, n, o, w = m.groups()
        if s is not None:
            toks.append(('str', s[1:-1]))
        elif n is not None:
            toks.append(('num', n))
        elif o is not None:
            toks.append(('op', o))
        else:
            # an NCName never ends in '.' or '-' followed by nothing useful; keep it simple
            toks.append(('name', w))
        i = m.end()
    return toks


class _P(object):
    def __init__(self, toks):
        self.t, self.i = toks, 0

    def peek(self, k=0):
        return self.t[self.i + k] if self.i + k < len(self.t) else ('end', None)

    def take(self):
        x = self.peek()
        self.i += 1
        return x

    def isop(self, *ops):
        k, v = self.peek()
        return k == 'op' and v in ops

    def expect(self, op):
        if not self.isop(op):
            raise Garbage('expected %r, found %r' % (op, self.peek()))
        self.i += 1

    # -- location paths
    def union(self):
        paths = [self.locpath()]
        while self.isop('|'):
            self.i += 1
            paths.append(self.locpath())
        if self.peek()[0] != 'end':
            if self.isop('+', '-') or self.peek() in (('name', 'div'), ('name', 'mod')):
                raise Outside('arithmetic')
            raise Garbage('trailing %r' % (self.peek(),))
        return paths

    def locpath(self):
        steps = []
        if self.isop('/'):
            raise Outside('absolute location path')
        if self.isop('//'):
            # genshi documents a leading '//' as "any depth below (and including) the context"
            self.i += 1
            # //step is /descendant-or-self::node()/step from the root *node*, whose only element
            # child is the context (outermost) element: for the child, self, descendant and
            # descendant-or-self axes that is descendant-or-self::test from the context element
            # (position predicates would differ, see below); for the attribute axis the
            # descendant-or-self::node() step stays
            st = self.step(leading=True)
            if st['axis'] == 'attribute':
                steps.append({'axis': 'descendant-or-self', 'test': ['node'], 'preds': []})
            else:
                st['axis'] = 'leading'
            steps.append(st)
        else:
            steps.append(self.step())
        while self.isop('/', '//'):
            if self.take()[1] == '//':
                steps.append({'axis': 'descendant-or-self', 'test': ['node'], 'preds': []})
            steps.append(self.step())
        return steps

    def step(self, leading=False):
        if self.isop('..'):
            raise Outside('parent axis')
        if self.isop('.'):
            self.i += 1
            st = {'axis': 'self', 'test': ['node'], 'preds': []}
        else:
            axis = 'child'
            if self.isop('@'):
                self.i += 1
                axis = 'attribute'
            elif self.peek()[0] == 'name' and self.peek(1) == ('op', '::'):
                axis = self.take()[1]
                self.i += 1
                if axis not in ALL_AXES:
                    raise Garbage('no such axis %r' % axis)
                if axis not in AXES:
                    raise Outside('axis %s' % axis)
            st = {'axis': axis, 'test': self.nodetest(), 'preds': []}
        while self.isop('['):
            self.i += 1
            st['preds'].append(self.or_expr())
            self.expect(']')
        return st

    def nodetest(self):
        if self.isop('*'):
            self.i += 1
            return ['*']
        k, v = self.take()
        if k != 'name':
            raise Garbage('node test expected, found %r' % ((k, v),))
        if self.isop('('):
            if v not in ('text', 'comment', 'node', 'processing-instruction'):
                raise Garbage('%s() is not a node type' % v)
            self.i += 1
            arg = None
            if v == 'processing-instruction' and self.peek()[0] == 'str':
                arg = self.take()[1]
            self.expect(')')
            return ['pi', arg] if v == 'processing-instruction' else [v]
        if self.isop(':'):
            self.i += 1
            if self.isop('*'):
                self.i += 1
                return ['q*', v]
            k2, v2 = self.take()
            if k2 != 'name':
                raise Garbage('local name expected')
            return ['qname', v, v2]
        return ['name', v]

    # -- predicate expressions
    def or_expr(self):
        e = self.and_expr()
        while self.peek() == ('name', 'or'):
            self.i += 1
            e = ['op', 'or', e, self.and_expr()]
        return e

    def and_expr(self):
        e = self.eq_expr()
        while self.peek() == ('name', 'and'):
            self.i += 1
            e = ['op', 'and', e, self.eq_expr()]
        return e

    def eq_expr(self):
        e = self.rel_expr()
        while self.isop('=', '!='):
            op = self.take()[1]
            e = ['op', op, e, self.rel_expr()]
        return e

    def rel_expr(self):
        e = self.primary()
        while self.isop('<', '<=', '>', '>='):
            op = self.take()[1]
            e = ['op', op, e, self.primary()]
        if self.isop('+', '-', '*') or self.peek() in (('name', 'div'), ('name', 'mod')):
            raise Outside('arithmetic')
        return e

    def primary(self):
        k, v = self.peek()
        if k == 'op' and v == '(':
            self.i += 1
            e = self.or_expr()
            self.expect(')')
            return e
        if k == 'str':
            self.i += 1
            return ['str', v]
        if k == 'num':
            self.i += 1
            return ['num', v]
        if k == 'op' and v == '$':
            self.i += 1
            k2, v2 = self.take()
            if k2 != 'name':
                raise Garbage('variable name expected')
            return ['var', v2]
        if k == 'op' and v == '-':
            raise Outside('arithmetic')
        if k == 'name' and self.peek(1) == ('op', '(') and v not in ('text', 'comment', 'node', 'processing-instruction'):
            self.i += 2
            args = []
            if not self.isop(')'):
                args.append(self.or_expr())
                while self.isop(','):
                    self.i += 1
                    args.append(self.or_expr())
            self.expect(')')
            if v in UNSUPPORTED_FUNCTIONS:
                raise Outside('function %s' % v)
            if v not in FUNCTIONS:
                raise Garbage('no such function %s' % v)
            lo, hi = FUNCTIONS[v]
            if not lo <= len(args) <= hi:
                raise Garbage('arity of %s' % v)
            return ['fn', v, args]
        if k == 'op' and v == '@':
            self.i += 1
            t = self.nodetest()
            if t[0] not in ('name', '*', 'qname', 'q*'):
                raise Outside('node type test on the attribute axis inside a predicate')
            if self.isop('/', '//', '['):
                raise Outside('path inside a predicate beyond an attribute lookup')
            return ['attr', t]
        if k == 'op' and v in ('.', '..', '/', '//', '*') or k == 'name':
            # a location path inside a predicate: only attribute lookups are documented
            raise Outside('location path inside a predicate')
        raise Garbage('unexpected %r' % ((k, v),))


def parse(text):
    toks = tokenize(text)
    if not toks:
        raise Garbage('empty')
    ast = _P(toks).union()
    for lp in ast:
        for i, st in enumerate(lp):
            if st['axis'] == 'attribute':
                if i != len(lp) - 1:
                    raise Outside('attribute step that is not the last step')
                if st['preds']:
                    raise Outside('predicate on an attribute step')
                if st['test'][0] not in ('name', '*', 'qname', 'q*'):
                    raise Outside('node type test on the attribute axis')
    return ast


# --------------------------------------------------------------------------
# the tree

class Node(object):
    __slots__ = ('kind', 'ns', 'name', 'attrs', 'kids', 'parent', 'value', 'target', 'path', 'order')

    def __init__(self, kind, parent=None):
        self.kind, self.parent = kind, parent
        self.ns = self.name = self.value = self.target = None
        self.attrs, self.kids = [], []


def build(doc, parent=None, path=(), counter=None):
    """JSON tree -> Node tree (document order numbers in .order)"""
    if counter is None:
        counter = [0]
    if 'e' in doc:
        n = Node('e', parent)
        n.ns, n.name = doc['e'][0] or '', doc['e'][1]
        n.attrs = [(a[0] or '', a[1], a[2]) for a in doc.get('a', [])]
    elif 't' in doc:
        n = Node('t', parent)
        n.value = doc['t']
    elif 'c' in doc:
        n = Node('c', parent)
        n.value = doc['c']
    else:
        n = Node('p', parent)
        n.target, n.value = doc['p']
    n.path = list(path)
    n.order = counter[0]
    counter[0] += 1
    if n.kind == 'e':
        for i, k in enumerate(doc.get('k', [])):
            n.kids.append(build(k, n, path + (i,), counter))
    return n


def descendants(n):
    for k in n.kids:
        yield k
        for d in descendants(k):
            yield d


# --------------------------------------------------------------------------
# values: bool, float, str, node-set (list of attribute triples)

_NUM = re.compile(r'^[ \t\r\n]*-?(?:\d+(?:\.\d*)?|\.\d+)[ \t\r\n]*$')


def to_number(v):
    if isinstance(v, bool):
        return 1.0 if v else 0.0
    if isinstance(v, float):
        return v
    if isinstance(v, list):
        v = to_string(v)
    if _NUM.match(v):
        return float(v.strip(' \t\r\n'))
    return float('nan')


def num_to_string(x):
    if x != x:
        return 'NaN'
    if x in (float('inf'), float('-inf')):
        return 'Infinity' if x > 0 else '-Infinity'
    if x == int(x):
        return '%d' % int(x)          # also -0 -> "0"
    s = repr(x)
    if 'e' in s or 'E' in s:
        from decimal import Decimal
        s = format(Decimal(s), 'f')
    return s


def to_string(v):
    if isinstance(v, bool):
        return 'true' if v else 'false'
    if isinstance(v, float):
        return num_to_string(v)
    if isinstance(v, list):
        return v[0][2] if v else ''
    return v


def to_bool(v):
    if isinstance(v, bool):
        return v
    if isinstance(v, float):
        return v == v and v != 0
    return len(v) > 0


def xround(x):
    if x != x or x in (float('inf'), float('-inf')):
        return x
    return float(math.floor(x + 0.5))


# Zones: while evaluating, the reference notes when it passes through a corner where genshi is
# *known* (findings/C05.json) to deviate from XPath 1.0; the oracle does not judge such cases.
ZONES = set()


def compare(op, l, r):
    """XPath 1.0 section 3.4"""
    import operator
    if not isinstance(l, bool) and not isinstance(r, bool):
        le, re_ = isinstance(l, list) and not l, isinstance(r, list) and not r
        if (op == '!=' and le != re_) or (op == '=' and le and re_):
            ZONES.add('ne-absent')       # C05-ne-absent-attribute
    f = {'=': operator.eq, '!=': operator.ne, '<': operator.lt, '<=': operator.le,
         '>': operator.gt, '>=': operator.ge}[op]
    ln, rn = isinstance(l, list), isinstance(r, list)
    if ln and rn:
        if op in ('=', '!='):
            return any(f(a[2], b[2]) for a in l for b in r)
        return any(f(to_number(a[2]), to_number(b[2])) for a in l for b in r)
    if ln or rn:
        ns, other = (l, r) if ln else (r, l)
        if isinstance(other, bool):
            a, b = (to_bool(l), to_bool(r))
            if op in ('=', '!='):
                return f(a, b)
            return f(to_number(a), to_number(b))
        for a in ns:
            x = a[2]
            if isinstance(other, float) or op not in ('=', '!='):
                x, y = to_number(x), to_number(other)
            else:
                y = other
            if (f(x, y) if ln else f(y, x)):
                return True
        return False
    if op in ('=', '!='):
        if isinstance(l, bool) or isinstance(r, bool):
            return f(to_bool(l), to_bool(r))
        if isinstance(l, float) or isinstance(r, float):
            return f(to_number(l), to_number(r))
        return f(to_string(l), to_string(r))
    return f(to_number(l), to_number(r))


STRICT_NAMES = False    # True: XPath 1.0 to the letter (used when replaying the finding)


class Unbound(Exception):
    pass


def attr_test(node, t, nsmap):
    """attribute node-set of an element for a name test on the attribute axis"""
    if node.kind != 'e':
        return []
    k = t[0]
    if k == '*':
        return list(node.attrs)
    if k == 'name':
        return [a for a in node.attrs if a[0] == '' and a[1] == t[1]]
    if k == 'qname':
        uri = nsmap.get(t[1])
        if uri is None:
            raise Unbound(t[1])
        return [a for a in node.attrs if a[0] == uri and a[1] == t[2]]
    if k == 'q*':
        uri = nsmap.get(t[1])
        if uri is None:
            raise Unbound(t[1])
        return [a for a in node.attrs if a[0] == uri]
    return []


def qualified(node):
    """name(): genshi has no prefixes in the stream, the expanded name {ns}local stands for it"""
    return '{%s}%s' % (node.ns, node.name) if node.ns else node.name


def ev(e, node, nsmap, vs):
    k = e[0]
    if k == 'str':
        return e[1]
    if k == 'num':
        return float(e[1])
    if k == 'var':
        if e[1] not in vs:
            raise Unbound('$' + e[1])
        v = vs[e[1]]
        if isinstance(v, bool):
            return v
        if isinstance(v, (int, float)):
            return float(v)
        return v
    if k == 'attr':
        return attr_test(node, e[1], nsmap)
    if k == 'op':
        op = e[1]
        if op == 'or':
            return to_bool(ev(e[2], node, nsmap, vs)) or to_bool(ev(e[3], node, nsmap, vs))
        if op == 'and':
            return to_bool(ev(e[2], node, nsmap, vs)) and to_bool(ev(e[3], node, nsmap, vs))
        return compare(op, ev(e[2], node, nsmap, vs), ev(e[3], node, nsmap, vs))
    name, args = e[1], e[2]
    a = [ev(x, node, nsmap, vs) for x in args]
    if name == 'boolean':
        return to_bool(a[0])
    if name == 'not':
        return not to_bool(a[0])
    if name == 'true':
        return True
    if name == 'false':
        return False
    if name == 'number':
        return to_number(a[0])
    if name in ('ceiling', 'floor', 'round'):
        x = to_number(a[0])
        if x != x or x in (float('inf'), float('-inf')):
            return x
        return {'ceiling': lambda: float(math.ceil(x)), 'floor': lambda: float(math.floor(x)),
                'round': lambda: xround(x)}[name]()
    if name == 'concat':
        return ''.join(to_string(x) for x in a)
    if name == 'contains':
        return to_string(a[1]) in to_string(a[0])
    if name == 'starts-with':
        return to_string(a[0]).startswith(to_string(a[1]))
    if name == 'string-length':
        return float(len(to_string(a[0])))
    if name == 'normalize-space':
        return ' '.join(x for x in re.split(r'[ \t\r\n]+', to_string(a[0])) if x)
    if name == 'substring-before':
        s, t = to_string(a[0]), to_string(a[1])
        i = s.find(t)
        return s[:i] if i >= 0 else ''
    if name == 'substring-after':
        s, t = to_string(a[0]), to_string(a[1])
        i = s.find(t)
        return s[i + len(t):] if i >= 0 else ''
    if name == 'substring':
        ZONES.add('substring')       # C05-substring
        s = to_string(a[0])
        start = xround(to_number(a[1]))
        if len(a) == 3:
            end = start + xround(to_number(a[2]))
            return ''.join(c for i, c in enumerate(s, 1) if i >= start and i < end)
        return ''.join(c for i, c in enumerate(s, 1) if i >= start)
    if name == 'translate':
        s, fr, to = to_string(a[0]), to_string(a[1]), to_string(a[2])
        out = []
        for c in s:
            i = fr.find(c)
            if i < 0:
                out.append(c)
            elif i < len(to):
                out.append(to[i])
        return ''.join(out)
    if name == 'local-name':
        return node.name if node.kind == 'e' else (node.target if node.kind == 'p' else '')
    if name == 'name':
        return qualified(node) if node.kind == 'e' else (node.target if node.kind == 'p' else '')
    if name == 'namespace-uri':
        return node.ns if node.kind == 'e' else ''
    raise Garbage(name)


def node_test(n, t, nsmap):
    """node test on the child/descendant/self axes (principal node type: element)"""
    k = t[0]
    if k == 'node':
        return True
    if k == 'text':
        return n.kind == 't'
    if k == 'comment':
        return n.kind == 'c'
    if k == 'pi':
        return n.kind == 'p' and (t[1] is None or n.target == t[1])
    if n.kind != 'e':
        return False
    if k == '*':
        return True
    if k == 'name':
        # genshi matches an unprefixed name against the local name in any namespace (its templates
        # rely on it: py:match="body" in an XHTML document); XPath 1.0 means "no namespace"
        if n.name == t[1] and n.ns:
            ZONES.add('unprefixed-any-ns')   # C05-unprefixed-name-any-namespace
            return not STRICT_NAMES
        return n.name == t[1]
    uri = nsmap.get(t[1])
    if uri is None:
        raise Unbound(t[1])
    if k == 'q*':
        return n.ns == uri
    return n.ns == uri and n.name == t[2]


def eval_locpath(root, steps, nsmap, vs):
    """-> (set of selected non-attribute nodes by id, {owner-order: (owner, [attrs])})"""
    ctx = [root]
    for si, st in enumerate(steps):
        axis = st['axis']
        if axis == 'attribute':
            out = {}
            for c in ctx:
                sel = attr_test(c, st['test'], nsmap)
                if sel:
                    out[c.order] = (c, sel)
            return [], out
        seen, nxt = set(), []
        for c in ctx:
            if axis == 'child':
                cand = list(c.kids)
            elif axis == 'descendant':
                cand = list(descendants(c))
            elif axis == 'descendant-or-self':
                cand = [c] + list(descendants(c))
            else:
                cand = [c]
            groups = [cand]
            if axis == 'leading':
                # '//T' from the (virtual) root node above the context element c: c is the root's
                # only element child, then the children of c and of each of its descendants
                groups = [[c]] + [list(d.kids) for d in [c] + list(descendants(c))]
            for cand in groups:
                cand = [n for n in cand if node_test(n, st['test'], nsmap)]
                for p in st['preds']:
                    keep = []
                    for pos, n in enumerate(cand, 1):
                        v = ev(p, n, nsmap, vs)
                        if isinstance(v, float):
                            ok = (v == pos)
                            if axis == 'leading':
                                ZONES.add('leading-position')    # C05-leading-dslash-position
                        else:
                            ok = to_bool(v)
                        if ok:
                            keep.append(n)
                    cand = keep
                for n in cand:
                    if n.order not in seen:
                        seen.add(n.order)
                        nxt.append(n)
        nxt.sort(key=lambda n: n.order)
        ctx = nxt
    return ctx, {}


def matches(doc, path, nsmap=None, vs=None):
    """all selected nodes: (list of nodes in document order, {owner.order: (owner, attrs)})"""
    ast = parse(path) if isinstance(path, str) else path
    root = doc if isinstance(doc, Node) else build(doc)
    ZONES.clear()
    nodes, attrs = {}, {}
    for lp in ast:
        ns_, as_ = eval_locpath(root, lp, nsmap or {}, vs or {})
        for n in ns_:
            nodes[n.order] = n
        for o, (owner, sel) in as_.items():
            if o in attrs:
                ZONES.add('union-attr-owner')    # C05-union-attribute-and-owner (two operands, one event)
                have = attrs[o][1]
                merged = [a for a in owner.attrs if a in have or a in sel]
                attrs[o] = (owner, merged)
            else:
                attrs[o] = (owner, sel)
    return [nodes[o] for o in sorted(nodes)], attrs


def select(doc, path, nsmap=None, vs=None):
    """the outermost selected nodes in document order, as result items"""
    root = doc if isinstance(doc, Node) else build(doc)
    nodes, attrs = matches(root, path, nsmap, vs)
    chosen = set(n.order for n in nodes)

    def covered(n):
        p = n.parent
        while p is not None:
            if p.order in chosen:
                return True
            p = p.parent
        return False

    items = []
    for n in nodes:
        if not covered(n):
            items.append((n.order, 0, ['e' if n.kind == 'e' else 'n', n.path]))
    for o, (owner, sel) in attrs.items():
        if owner.order in chosen:
            ZONES.add('union-attr-owner')    # C05-union-attribute-and-owner
            continue
        if covered(owner):
            continue
        items.append((o, 1, ['a', owner.path, [list(a) for a in sel]]))
    items.sort(key=lambda x: (x[0], x[1]))
    return [x[2] for x in items]

/-
  Events on the wire (see harness/evwire.py for the Python side):
    ( S ( ns loc ) ( ( ( ns loc ) val ) ... ) )   START
    ( E ( ns loc ) )                              END
    ( T text safe )                               TEXT, safe = T/F (Markup instance)
    ( C text )  ( PI target data )
    ( DT name pubid|N sysid|N )  ( XD version enc|N standalone )
    ( NS prefix uri )  ( ENS prefix )  SC  EC
-/
import Genshi.Wire
import Genshi.Model.Core
namespace Genshi
open Sexp

def QName.toSexp (q : QName) : Sexp := .list [.str q.ns, .str q.loc]
def QName.ofSexp? : Sexp → Option QName
  | .list [.str ns, .str loc] => some ⟨ns, loc⟩
  | _ => none

def optStr : Option Str → Sexp
  | some s => .str s
  | none => .atom "N"
def optStr? : Sexp → Option (Option Str)
  | .str s => some (some s)
  | .atom "N" => some none
  | _ => none

def attrsToSexp (a : AttrList) : Sexp := .list (a.map fun (n, v) => .list [n.toSexp, .str v])
def attrsOfSexp? : Sexp → Option AttrList
  | .list xs => xs.mapM fun
      | .list [n, .str v] => do let n ← QName.ofSexp? n; pure (n, v)
      | _ => none
  | _ => none

def Event.toSexp : Event → Sexp
  | .start t a => .list [.atom "S", t.toSexp, attrsToSexp a]
  | .end_ t => .list [.atom "E", t.toSexp]
  | .text s f => .list [.atom "T", .str s, ofBool f]
  | .comment s => .list [.atom "C", .str s]
  | .pi t d => .list [.atom "PI", .str t, .str d]
  | .doctype n p s => .list [.atom "DT", .str n, optStr p, optStr s]
  | .xmlDecl v e s => .list [.atom "XD", .str v, optStr e, ofInt s]
  | .startNs p u => .list [.atom "NS", .str p, .str u]
  | .endNs p => .list [.atom "ENS", .str p]
  | .startCdata => .atom "SC"
  | .endCdata => .atom "EC"

def Event.ofSexp? : Sexp → Option Event
  | .list [.atom "S", t, a] => do
      let t ← QName.ofSexp? t; let a ← attrsOfSexp? a; pure (.start t a)
  | .list [.atom "E", t] => do let t ← QName.ofSexp? t; pure (.end_ t)
  | .list [.atom "T", .str s, f] => do let f ← f.toBool?; pure (.text s f)
  | .list [.atom "C", .str s] => some (.comment s)
  | .list [.atom "PI", .str t, .str d] => some (.pi t d)
  | .list [.atom "DT", .str n, p, s] => do
      let p ← optStr? p; let s ← optStr? s; pure (.doctype n p s)
  | .list [.atom "XD", .str v, e, s] => do
      let e ← optStr? e; let s ← s.toInt?; pure (.xmlDecl v e s)
  | .list [.atom "NS", .str p, .str u] => some (.startNs p u)
  | .list [.atom "ENS", .str p] => some (.endNs p)
  | .atom "SC" => some .startCdata
  | .atom "EC" => some .endCdata
  | _ => none

def streamToSexp (s : Stream) : Sexp := .list (s.map Event.toSexp)
def streamOfSexp? : Sexp → Option Stream
  | .list xs => xs.mapM Event.ofSexp?
  | _ => none

end Genshi
